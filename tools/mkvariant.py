#!/usr/bin/env python3
"""Create a self-validation variant patch under /verif/selftest.

usage: mkvariant.py NAME --prop C01 --rule C01-a --kind fault|benign [--expect SUBSTR] [--tier quick|thorough] --desc TEXT < spec

spec on stdin, one or more replacement blocks:
@@ path/relative/to/repo.go
<<<<
old text (must occur exactly once)
====
new text
>>>>
"""
import sys, os, argparse, subprocess, tempfile, shutil
ap = argparse.ArgumentParser()
ap.add_argument("name"); ap.add_argument("--prop", required=True); ap.add_argument("--rule", required=True)
ap.add_argument("--kind", required=True); ap.add_argument("--expect", default=""); ap.add_argument("--tier", default="thorough")
ap.add_argument("--desc", required=True); ap.add_argument("--repo", default="/repo")
a = ap.parse_args()
spec = sys.stdin.read().split("\n")
edits = {}  # file -> list of (old,new)
cur = None; mode = None; old = []; new = []
for line in spec:
    if line.startswith("@@ "):
        cur = line[3:].strip(); edits.setdefault(cur, [])
    elif line == "<<<<": mode = "old"; old = []; new = []
    elif line == "====" and mode == "old": mode = "new"
    elif line == ">>>>" and mode == "new":
        edits[cur].append(("\n".join(old), "\n".join(new))); mode = None
    elif mode == "old": old.append(line)
    elif mode == "new": new.append(line)
tmp = tempfile.mkdtemp(prefix="mkvariant-")
try:
    diff = ""
    for f, reps in edits.items():
        src = open(os.path.join(a.repo, f)).read()
        dst = src
        for o, n in reps:
            if dst.count(o) != 1:
                sys.exit(f"{f}: old text occurs {dst.count(o)} times:\n{o}")
            dst = dst.replace(o, n)
        os.makedirs(os.path.join(tmp, "a", os.path.dirname(f)), exist_ok=True)
        os.makedirs(os.path.join(tmp, "b", os.path.dirname(f)), exist_ok=True)
        open(os.path.join(tmp, "a", f), "w").write(src)
        open(os.path.join(tmp, "b", f), "w").write(dst)
        r = subprocess.run(["diff", "-u", os.path.join("a", f), os.path.join("b", f)], cwd=tmp, capture_output=True, text=True)
        lines = r.stdout.split("\n")
        lines[0] = "--- a/" + f; lines[1] = "+++ b/" + f
        diff += "\n".join(lines)
    hdr = f"# property: {a.prop}\n# rule: {a.rule}\n# kind: {a.kind}\n"
    if a.expect: hdr += f"# expect: {a.expect}\n"
    hdr += f"# tier: {a.tier}\n# desc: {a.desc}\n"
    out = os.path.join(os.path.dirname(os.path.dirname(os.path.abspath(__file__))), "selftest", a.name + ".patch")
    os.makedirs(os.path.dirname(out), exist_ok=True)
    open(out, "w").write(hdr + diff)
    print("wrote", out)
finally:
    shutil.rmtree(tmp)
