#!/usr/bin/env python3
"""Regenerates /verif/MANIFEST.json from the table below (kept in one place so the
manifest stays valid while rules are added)."""
import json, os, sys
here = os.path.dirname(os.path.dirname(os.path.abspath(__file__)))

BASELINE = "cd /repo && go test -mod=mod -json -vet=off -count=1 -timeout 25m ./..."

# property -> (technique, level text, level note, design ref)
CLAIMED = json.load(open(os.path.join(here, "tools", "claims.json")))
NA = json.load(open(os.path.join(here, "tools", "not_applicable.json")))

checks = []
for pid in sorted(CLAIMED):
    c = CLAIMED[pid]
    checks.append({
        "property_id": pid,
        "quick_cmd": f"./check {pid} quick",
        "thorough_cmd": f"./check {pid} thorough",
        "evidence_file": f"/verif/evidence/{pid}.json",
        "replay_cmd_template": "./check --replay {path}",
        "engine": "wrglcheck",
        "level_claimed": {"category": "other", "text": c["text"], "design_ref": c.get("design_ref", "DESIGN.md §5 " + pid)},
        "level_note": c["note"],
        "technique": c["technique"],
    })
m = {
    "version": 1,
    "setup_cmd": "./setup.sh",
    "hooks": {
        "guard": "verif",
        "enable": "none needed: the checker analyses /repo's sources statically (go/packages + go/ssa); no instrumentation is compiled in",
        "baseline_off_cmd": BASELINE,
        "source_commits": [],
        "add_only": True,
    },
    "engines": [{
        "name": "wrglcheck",
        "path": "/verif/checker",
        "serves_properties": sorted(CLAIMED),
        "kind_free_text": "repository-specific static analyser: go/packages (LoadAllSyntax) + go/ssa + VTA call graph; rule templates T1-T10 (must-traverse edge cut, never-follows, who-may-call, permit-cut, error-drop, taint-to-sink, narrowing, full-read, shared-write, agreement); rule self-validation by in-memory overlay variants",
    }],
    "checks": checks,
    "notes": "Technique family: static analysis only. Every check re-loads /repo's working tree; nothing in /repo is run. Level 'other' everywhere: the rules decide structural necessary conditions on all paths of the analysed functions, not the behavioural property itself; each level_note names the clause decided. Known findings: /verif/known_findings.json.",
    "not_applicable": [{"property_id": k, "reason": NA[k]} for k in sorted(NA) if k not in CLAIMED],
}
json.dump(m, open(os.path.join(here, "MANIFEST.json"), "w"), indent=1)
print("MANIFEST.json:", len(checks), "checks,", len(m["not_applicable"]), "not applicable")
