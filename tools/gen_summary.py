#!/usr/bin/env python3
"""Regenerates the 'as built' summary table of DESIGN.md (between the markers
<!-- summary:begin --> and <!-- summary:end -->) from checker/props.go, evidence/*.json
and known_findings.json."""
import json, re, os
here = os.path.dirname(os.path.dirname(os.path.abspath(__file__)))
props = open(os.path.join(here, "checker", "props.go")).read()
kf = json.load(open(os.path.join(here, "known_findings.json")))
na = json.load(open(os.path.join(here, "tools", "not_applicable.json")))
rows = []
for i in range(1, 21):
    pid = "C%02d" % i
    if pid in na:
        rows.append("| %s | n/a | — | — | — |" % pid)
        continue
    m = re.search(r'props\["%s"\] = &propSpec\{\s*Rules:\s*\[\]string\{([^}]*)\}' % pid, props)
    rules = re.findall(r'"([^"]+)"', m.group(1))
    own = [r for r in rules if r.startswith(pid)]
    shared = [r for r in rules if not r.startswith(pid)]
    ev = json.load(open(os.path.join(here, "evidence", pid + ".json")))
    txt = json.dumps(ev)
    mm = re.search(r'(\d+) obligations: (\d+) discharged, (\d+) exempt', txt)
    obl = "%s obligations (%s discharged, %s exempt)" % mm.groups() if mm else "see evidence/%s.json" % pid
    nk = len([f for f in kf["findings"] if f["property"] == pid])
    fx = sorted({f["commit"] for f in kf["fixed"] if f["property"] == pid})
    rows.append("| %s | other | %s%s | %s | %d known finding(s); fixes: %s |" % (
        pid, ", ".join(own) or "—", (" (+ " + ", ".join(shared) + ")") if shared else "", obl, nk, ", ".join(fx) or "—"))
tbl = "| prop | level | rules (own, + shared) | obligations on the current tree | findings / fixes recorded under this property |\n|---|---|---|---|---|\n" + "\n".join(rows)
p = os.path.join(here, "DESIGN.md")
s = open(p).read()
a, b = s.index("<!-- summary:begin -->"), s.index("<!-- summary:end -->")
s = s[:a] + "<!-- summary:begin -->\n" + tbl + "\n" + s[b:]
open(p, "w").write(s)
print("summary table regenerated")
