#!/usr/bin/env python3
"""Run the static checks on every behaviour-preserving refactoring kept under
/verif/benign/*/patch.diff (written by independent authors who saw only the repository)
and regenerate /verif/benign/INDEX.md. Every rule must stay silent on all of them.

usage: reeval_benign.py [repo-dir]   (default /repo; each patch is applied and reverted at once)
exit 1 if any rule fires.
"""
import glob, json, os, re, subprocess, sys

repo = sys.argv[1] if len(sys.argv) > 1 else "/repo"
root = "/verif/benign"
hist = json.load(open(os.path.join(root, "history.json"))) if os.path.exists(os.path.join(root, "history.json")) else {}
rows, bad = [], 0
# parallel use: REEVAL_SHARD=i/n evaluates every n-th refactoring on the given eval worktree and writes
# <dir>/result.json; REEVAL_INDEX_ONLY=1 rebuilds INDEX.md from those files without running anything
shard = os.environ.get("REEVAL_SHARD")
index_only = os.environ.get("REEVAL_INDEX_ONLY") == "1"
for di, d in enumerate(sorted(glob.glob(os.path.join(root, "*/")), key=lambda s: [int(x) if x.isdigit() else x for x in re.split(r"(\d+)", s)])):
    if shard:
        si, sn = map(int, shard.split("/"))
        if di % sn != si:
            continue
    bid = os.path.basename(d.rstrip("/"))
    patch = os.path.join(d, "patch.diff")
    if not os.path.exists(patch):
        continue
    resf = os.path.join(d, "result.json")
    if index_only and os.path.exists(resf):
        res = json.load(open(resf))
        fired, applies = res["fired"], res["applies"]
    else:
        p = subprocess.run(["/verif/tools/try_mutation.sh", patch, repo], capture_output=True, text=True, errors="replace")
        out = p.stdout
        fired = sorted({l.split()[0] for l in out.split("\n") if l.startswith("    ")})
        applies = "does not apply" not in out
        json.dump({"fired": fired, "applies": applies}, open(resf, "w"))
    title = ""
    notes = os.path.join(d, "NOTES.md")
    if os.path.exists(notes):
        for l in open(notes):
            if l.startswith("#"):
                title = l.lstrip("# ").strip()
                break
    files = sorted({l[6:].strip() for l in open(patch) if l.startswith("+++ b/")})
    if fired:
        bad += 1
    rows.append((bid, title, files, applies, fired, hist.get(bid, [])))

if shard:
    print("shard", shard, "done:", len(rows), "firing:", bad); sys.exit(0)
with open(os.path.join(root, "INDEX.md"), "w") as f:
    f.write("# Behaviour-preserving refactorings used as a false-alarm test\n\n")
    f.write("Written by sub-agents that were given only a scratch worktree and the instruction to refactor\n"
            "without changing behaviour (extract helper, inline, rename, reorder independent statements, change\n"
            "loop form, introduce aliases ...). `tools/reeval_benign.py` applies each to /repo, runs every rule\n"
            "and reverts. Column *fired before* lists the rules that raised a false alarm when the refactoring\n"
            "was first tried; those rules were corrected (DESIGN.md §10) and the refactoring became a benign\n"
            "self-validation variant (`selftest/<rule>.refactor-<id>.patch`).\n\n")
    f.write("| id | refactoring | files | applies | fires now | fired before (corrected) |\n|---|---|---|---|---|---|\n")
    for bid, title, files, applies, fired, before in rows:
        f.write("| %s | %s | %s | %s | %s | %s |\n" % (bid, title.replace("|", "/"), "<br>".join(files), "yes" if applies else "NO", ", ".join(fired) or "—", ", ".join(before) or "—"))
    f.write("\n%d refactorings, %d with a rule firing now.\n" % (len(rows), bad))
print("%d refactorings, %d with a rule firing" % (len(rows), bad))
sys.exit(1 if bad else 0)
