#!/usr/bin/env python3
"""seed2variant.py <patch.diff> <name> --prop P --rule R --expect SUBSTR [--tier quick] --desc TEXT
Turns an independently written mutation into a fault variant of the rule that catches it."""
import sys, argparse, os
ap = argparse.ArgumentParser()
ap.add_argument("patch"); ap.add_argument("name"); ap.add_argument("--prop", required=True); ap.add_argument("--rule", required=True)
ap.add_argument("--expect", required=True); ap.add_argument("--tier", default="thorough"); ap.add_argument("--desc", required=True)
a = ap.parse_args()
body = open(a.patch).read()
hdr = f"# property: {a.prop}\n# rule: {a.rule}\n# kind: fault\n# expect: {a.expect}\n# tier: {a.tier}\n# desc: {a.desc}\n"
out = os.path.join(os.path.dirname(os.path.dirname(os.path.abspath(__file__))), "selftest", a.name + ".patch")
open(out, "w").write(hdr + body)
print("wrote", out)
