#!/usr/bin/env python3
"""Copies the 'text' of tools/claims.json into the Decides strings of checker/props.go."""
import json, re, os
here = os.path.dirname(os.path.dirname(os.path.abspath(__file__)))
c = json.load(open(os.path.join(here, "tools", "claims.json")))
p = os.path.join(here, "checker", "props.go")
s = open(p).read()
for pid in sorted(c):
    m = re.search(r'(props\["%s"\] = &propSpec\{\s*Rules:\s*\[\]string\{[^}]*\},\s*Decides:\s*)("(?:[^"\\]|\\.)*")' % pid, s)
    assert m, pid
    s = s[:m.start(2)] + json.dumps(c[pid]["text"], ensure_ascii=False) + s[m.end(2):]
open(p, "w").write(s)
print("props.go synced")
