#!/bin/sh
# usage: tools/try_mutation.sh <patch.diff>   — applies the patch to /repo, runs every rule once, reverts.
# Never leaves /repo modified.
set -u
P="$1"
cd "$(dirname "$0")/.."
export GOFLAGS=-mod=mod GOPROXY=off GOSUMDB=off GOTOOLCHAIN=local; unset GOWORK
if [ -n "$(git -C /repo status --porcelain)" ]; then echo "try_mutation: /repo is not clean" >&2; exit 2; fi
if ! git -C /repo apply --check "$P" 2>/dev/null; then echo "try_mutation: patch does not apply: $P"; exit 3; fi
git -C /repo apply "$P"
bin/wrglcheck -all -repo /repo -verif "$(pwd)"
rc=$?
git -C /repo checkout -- . && git -C /repo clean -fdq
exit $rc
