#!/bin/sh
# usage: tools/try_mutation.sh <patch.diff> [repo-dir]   — applies the patch to the repo (default /repo), runs every rule once, reverts.
# Never leaves $R modified.
set -u
P="$1"
R="${2:-/repo}"
cd "$(dirname "$0")/.."
export GOFLAGS=-mod=mod GOPROXY=off GOSUMDB=off GOTOOLCHAIN=local; unset GOWORK
# one mutation at a time per repo
exec 9>"/tmp/.try_mutation.$(echo $R | tr / _).lock"; flock 9
if [ -n "$(git -C $R status --porcelain)" ]; then echo "try_mutation: $R is not clean" >&2; exit 2; fi
if ! git -C $R apply --check "$P" 2>/dev/null; then echo "try_mutation: patch does not apply: $P"; exit 3; fi
git -C $R apply "$P"
"${WRGLBIN:-bin/wrglcheck}" -all -repo $R -verif "$(pwd)"
rc=$?
git -C $R checkout -- . && git -C $R clean -fdq
exit $rc
