#!/usr/bin/env python3
"""Confirm an independently written mutation and record it under /verif/seeded/<id>/.

usage: confirm_seeded.py <worktree> <k> <property-id> [--force-dest SRC=DST ...]

Steps (all in the scratch worktree, never in /repo, except the final static check which
applies the patch to /repo and reverts it straight away):
  1. clean tree + demo           -> demo must PASS
  2. mutation + demo             -> build must succeed, demo must FAIL
  3. mutation, no demo           -> the existing suite must pass
  4. /verif checks on the mutation (tools/try_mutation.sh) -> which rules fire
"""
import json, os, re, shutil, subprocess, sys, time

ENV = dict(os.environ, GOFLAGS="-mod=mod", GOPROXY="off", GOSUMDB="off", GOTOOLCHAIN="local")
ENV.pop("GOWORK", None)
FLAKY = {"github.com/wrgl/wrgl/csvgen::TestRootCmd", "github.com/wrgl/wrgl/pkg/auth/fs::TestAuthnStore",
         "github.com/wrgl/wrgl/pkg/auth/fs::TestAuthnStoreWatchFile", "github.com/wrgl/wrgl/pkg/auth/fs::TestAuthzStoreWatchFile",
         "github.com/wrgl/wrgl/pkg/local::TestRepoDirWatcher"}


def run(cmd, cwd, timeout=900):
    try:
        p = subprocess.run(cmd, cwd=cwd, env=ENV, shell=True, capture_output=True, text=True, errors='replace', timeout=timeout)
        return p.returncode, p.stdout + p.stderr
    except subprocess.TimeoutExpired as e:
        return 124, "TIMEOUT\n" + (e.stdout or "") if isinstance(e.stdout, str) else "TIMEOUT"


def clean(wt):
    run("git checkout -- . && git clean -fdq -e mutations", wt)


def main():
    wt, k, prop = sys.argv[1], sys.argv[2], sys.argv[3]
    tag = ""
    rest = sys.argv[4:]
    if "--tag" in rest:
        tag = rest[rest.index("--tag") + 1]
        rest = [a for i, a in enumerate(rest) if a != "--tag" and (i == 0 or rest[i - 1] != "--tag")]
    forced = [a.split("=", 1) for a in rest if "=" in a and not a.startswith("--")]
    mdir = os.path.join(wt, "mutations", "m" + k)
    patch = os.path.join(mdir, "patch.diff")
    notes = open(os.path.join(mdir, "NOTES.md")).read() if os.path.exists(os.path.join(mdir, "NOTES.md")) else ""
    if not os.path.exists(patch):
        sys.exit("no patch.diff in " + mdir)
    dests = forced or re.findall(r"cp\s+(?:-\S+\s+)?((?:\./)?mutations/m%s/\S+)\s+(\S+)" % k, notes)
    dests = [(s.lstrip("./"), d.rstrip("`'\".,)")) for s, d in dests]
    # de-duplicate
    seen = set(); dd = []
    for s, d in dests:
        if (s, d) not in seen and os.path.exists(os.path.join(wt, s)):
            seen.add((s, d)); dd.append((s, d))
    dests = dd
    if not dests:
        sys.exit("cannot find demo copy instructions in NOTES.md (pass SRC=DST)")
    pkgs = sorted({os.path.dirname(d) for _, d in dests})
    sid = f"{prop}-{tag}m{k}"
    mflags = re.search(r"DEMO_FLAGS:\s*(\S.*)", notes)
    if mflags and not os.environ.get("DEMO_FLAGS"):
        os.environ["DEMO_FLAGS"] = mflags.group(1).strip().strip("`")
    result = {"id": sid, "property": prop, "worktree": wt, "demo_files": dests, "steps": {}}

    def put_demo():
        for s, d in dests:
            os.makedirs(os.path.dirname(os.path.join(wt, d)), exist_ok=True)
            shutil.copy(os.path.join(wt, s), os.path.join(wt, d))

    def rm_demo():
        for _, d in dests:
            try: os.remove(os.path.join(wt, d))
            except FileNotFoundError: pass

    demo_cmd = "go test -count=1 -vet=off -timeout 300s " + os.environ.get("DEMO_FLAGS", "") + " " + " ".join("./" + p + "/" for p in pkgs)
    # 1. clean + demo
    clean(wt); put_demo()
    rc, out = run(demo_cmd, wt)
    result["steps"]["demo_without_mutation"] = {"cmd": demo_cmd, "rc": rc, "tail": out[-600:]}
    ok1 = rc == 0
    # 2. mutation + demo
    clean(wt)
    rc, out = run(f"git apply {patch}", wt)
    if rc != 0:
        result["steps"]["apply"] = {"rc": rc, "tail": out[-400:]}
        print(json.dumps(result, indent=1)); sys.exit(1)
    rc, out = run("go build $(go list ./... | grep -v /mutations)", wt)
    result["steps"]["build_with_mutation"] = {"rc": rc, "tail": out[-400:]}
    okb = rc == 0
    put_demo()
    rc, out = run(demo_cmd, wt)
    result["steps"]["demo_with_mutation"] = {"cmd": demo_cmd, "rc": rc, "tail": out[-1500:]}
    ok2 = rc != 0
    rm_demo()
    # 3. existing suite with the mutation
    rc, out = run("go test -mod=mod -json -vet=off -count=1 -timeout 25m $(go list ./... | grep -v /mutations)", wt, timeout=1800)
    failed = set()
    for line in out.split("\n"):
        try: e = json.loads(line)
        except Exception: continue
        if e.get("Action") == "fail" and e.get("Test") and "/" not in e["Test"]:
            failed.add(e["Package"] + "::" + e["Test"])
    real_fail = sorted(failed - FLAKY)
    if real_fail:
        # re-run once the failing packages to rule out flakiness
        pk = sorted({f.split("::")[0] for f in real_fail})
        rc2, out2 = run("go test -count=1 -vet=off " + " ".join(pk), wt)
        if rc2 == 0:
            real_fail = []
    result["steps"]["suite_with_mutation"] = {"failed": real_fail, "flaky_seen": sorted(failed & FLAKY)}
    ok3 = not real_fail
    clean(wt)
    # 4. static checks
    rc, out = run(f"/verif/tools/try_mutation.sh {patch} " + os.environ.get("EVAL_REPO", "/repo"), "/verif")
    fired = [l.strip() for l in out.split("\n") if l.startswith("FIRED") or l.startswith("    ")]
    result["steps"]["verif_checks"] = {"rc": rc, "fired": fired, "summary": [l for l in out.split("\n") if l.startswith("ALL:") or "does not apply" in l]}
    result["confirmed"] = bool(ok1 and okb and ok2 and ok3)
    result["caught"] = rc == 1
    # record
    dst = os.path.join("/verif/seeded", sid)
    if result["confirmed"]:
        os.makedirs(dst, exist_ok=True)
        shutil.copy(patch, os.path.join(dst, "patch.diff"))
        for s, d in dests:
            shutil.copy(os.path.join(wt, s), os.path.join(dst, os.path.basename(s) + ".txt"))
        if notes:
            open(os.path.join(dst, "NOTES.md"), "w").write(notes)
        props_fired = sorted({l.split()[1] for l in fired if l.startswith("FIRED")})
        rules_fired = sorted({l.split()[0] for l in fired if l.startswith("    ") or (l and not l.startswith("FIRED"))})
        meta = {
            "id": sid, "breaks_property": prop,
            "author": "independent sub-agent given only the property text and a scratch worktree",
            "needs_to_manifest": "see NOTES.md (written by the author of the change)",
            "demo": [{"file": os.path.basename(s) + ".txt", "copy_to": d} for s, d in dests],
            "what_was_run": {
                "demo_without_change": demo_cmd + " -> pass",
                "demo_with_change": demo_cmd + " -> FAIL (rc=%d)" % result["steps"]["demo_with_mutation"]["rc"],
                "existing_suite_with_change": "go test -mod=mod -json -vet=off -count=1 ./... -> pass" + (" (flaky, unrelated: %s)" % ", ".join(result["steps"]["suite_with_mutation"]["flaky_seen"]) if result["steps"]["suite_with_mutation"]["flaky_seen"] else ""),
                "verif": "tools/try_mutation.sh (git -C /repo apply; wrglcheck -all; git -C /repo checkout -- .)",
            },
            "caught_by_static_checks": result["caught"],
            "properties_fired": props_fired,
            "rules_fired": [l for l in fired if not l.startswith("FIRED")],
            "confirmed_at": time.strftime("%Y-%m-%dT%H:%M:%SZ", time.gmtime()),
        }
        json.dump(meta, open(os.path.join(dst, "meta.json"), "w"), indent=1)
    print(json.dumps({"id": sid, "confirmed": result["confirmed"], "caught": result["caught"],
                      "demo_clean_pass": ok1, "build": okb, "demo_mut_fails": ok2, "suite_ok": ok3,
                      "suite_failed": result["steps"]["suite_with_mutation"]["failed"],
                      "fired": fired[:12]}, indent=1))
    if not result["confirmed"]:
        print("DETAILS:", json.dumps(result["steps"], indent=1)[-3000:])


if __name__ == "__main__":
    main()
