#!/usr/bin/env python3
"""For every confirmed seeded change of a round (id contains TAG) that a rule of its own
property catches by naming a construct, write a fault variant selftest/<rule>.seed-<id>.patch
(unless one exists). usage: seeds_to_variants.py TAG"""
import json, glob, os, re, sys
tag = sys.argv[1]
props = open('/verif/checker/props.go').read()
def rules_of(pid):
    m = re.search(r'props\["%s"\] = &propSpec\{\s*Rules:\s*\[\]string\{([^}]*)\}' % pid, props)
    return re.findall(r'"([^"]+)"', m.group(1))
n = 0
for d in sorted(glob.glob('/verif/seeded/*%s*/' % tag)):
    m = json.load(open(d + 'meta.json'))
    if not m.get('caught_by_static_checks'):
        continue
    own = rules_of(m['breaks_property'])
    pick = None
    for line in m['rules_fired']:
        rule, rest = line.split(' ', 1)
        if ' instances @' in line or ' anchor:' in line or rule not in own:
            continue
        key = rest.rsplit(' @', 1)[0]
        # prefer rules that start with the property's own id
        if pick is None or (rule.startswith(m['breaks_property']) and not pick[0].startswith(m['breaks_property'])):
            pick = (rule, key)
    if not pick:
        continue
    rule, key = pick
    out = '/verif/selftest/%s.seed-%s.patch' % (rule, m['id'])
    if os.path.exists(out):
        continue
    title = ''
    notes = d + 'NOTES.md'
    if os.path.exists(notes):
        for l in open(notes):
            if l.startswith('#'):
                title = l.lstrip('# ').strip()
                break
    prop = [p for p in re.findall(r'props\["(C\d\d)"\]', props) if rule in rules_of(p) and rule.startswith(p)]
    hdr = "# property: %s\n# rule: %s\n# kind: fault\n# expect: %s\n# tier: thorough\n# desc: red-team %s: %s\n" % (
        prop[0] if prop else m['breaks_property'], rule, key, m['id'], title.replace('\n', ' ')[:200])
    open(out, 'w').write(hdr + open(d + 'patch.diff').read())
    n += 1
    print('wrote', out)
print(n, 'variants')
