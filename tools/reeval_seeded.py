#!/usr/bin/env python3
"""Re-run the static checks on every confirmed seeded change (/verif/seeded/*/patch.diff),
update each meta.json with what fires now, and regenerate /verif/seeded/INDEX.md.

usage: reeval_seeded.py [repo-dir]   (default /repo; the patch is applied and reverted at once)
"""
import glob, json, os, subprocess, sys

repo = sys.argv[1] if len(sys.argv) > 1 else "/repo"
root = "/verif/seeded"
notes = json.load(open("/verif/tools/seeded_notes.json")) if os.path.exists("/verif/tools/seeded_notes.json") else {}
rows = []
# parallel use: REEVAL_SHARD=i/n evaluates every n-th change on the given eval worktree and only
# updates meta.json; REEVAL_INDEX_ONLY=1 then rebuilds INDEX.md from the meta files without running anything
shard = os.environ.get("REEVAL_SHARD")
index_only = os.environ.get("REEVAL_INDEX_ONLY") == "1"
for di, d in enumerate(sorted(glob.glob(os.path.join(root, "*/")))):
    if shard:
        si, sn = map(int, shard.split("/"))
        if di % sn != si:
            continue
    sid = os.path.basename(d.rstrip("/"))
    patch = os.path.join(d, "patch.diff")
    metap = os.path.join(d, "meta.json")
    if not os.path.exists(patch) or not os.path.exists(metap):
        continue
    meta = json.load(open(metap))
    if not index_only:
        p = subprocess.run(["/verif/tools/try_mutation.sh", patch, repo], capture_output=True, text=True, errors="replace")
        out = p.stdout
        fired = [l.strip() for l in out.split("\n") if l.startswith("    ")]
        props = sorted({l.split()[1] for l in out.split("\n") if l.startswith("FIRED")})
        applies = "does not apply" not in out
        meta["caught_by_static_checks"] = p.returncode == 1
        meta["properties_fired"] = props
        meta["rules_fired"] = fired
        meta["patch_applies_to_current_tree"] = applies
    n = notes.get(sid, {})
    meta["neutralised_by_fix"] = bool(n.get("neutralised"))
    if n:
        if n.get("mechanism"):
            meta["mechanism"] = n["mechanism"]
        else:
            meta.setdefault("mechanism", "")
    if n and False:
        meta["mechanism"] = n.get("mechanism", "")
        meta["needs_to_manifest"] = n.get("needs", meta.get("needs_to_manifest", ""))
        if not meta["caught_by_static_checks"]:
            meta["why_not_caught"] = n.get("why_not_caught", "")
        else:
            meta.pop("why_not_caught", None)
    if not meta.get("mechanism"):
        np_ = os.path.join(d, "NOTES.md")
        if os.path.exists(np_):
            for line in open(np_, errors="replace"):
                line = line.strip().lstrip("#").strip()
                if line:
                    meta["mechanism"] = "(author's title) " + line[:160]
                    break
    json.dump(meta, open(metap, "w"), indent=1)
    rows.append((sid, meta))

if shard:
    print("shard", shard, "done:", len(rows)); sys.exit(0)
with open(os.path.join(root, "INDEX.md"), "w") as f:
    f.write("# Seeded changes (independent red-team mutations)\n\n")
    f.write("Each directory holds `patch.diff` (production change only), the demonstration (`*.txt`, copy to the\n"
            "path in `meta.json`), the author's `NOTES.md` and `meta.json`. Every change was confirmed in a scratch\n"
            "worktree: the demonstration passes without the change and fails with it, the change builds and the\n"
            "existing suite passes with it. The authors were sub-agents that saw only the property text.\n"
            "Regenerate with `tools/reeval_seeded.py`.\n\n")
    caught = sum(1 for _, m in rows if m["caught_by_static_checks"])
    neutral = sum(1 for _, m in rows if m.get("neutralised_by_fix") and not m["caught_by_static_checks"])
    own = sum(1 for _, m in rows if m["caught_by_static_checks"] and m["breaks_property"] in m["properties_fired"])
    f.write(f"**{caught} of {len(rows)} caught** by the static checks on the current tree ({own} by a rule listed under the property the change breaks); "
            f"{neutral} no longer break the property because a later `fix:` commit closed the hole they went through; {len(rows)-caught-neutral} missed.\n\n")
    f.write("| id | property | mechanism | caught by | not caught because |\n|---|---|---|---|---|\n")
    for sid, m in rows:
        rules = sorted({l.split()[0] for l in m["rules_fired"]})
        f.write("| %s | %s | %s | %s | %s |\n" % (sid, m["breaks_property"], m.get("mechanism", "").replace("|", "/"),
                                                   ", ".join(rules) if rules else "—", m.get("why_not_caught", "").replace("|", "/") if not m["caught_by_static_checks"] else ""))
print(f"{sum(1 for _, m in rows if m['caught_by_static_checks'])}/{len(rows)} caught")
for sid, m in rows:
    print(sid, "CAUGHT" if m["caught_by_static_checks"] else "missed", ",".join(sorted({l.split()[0] for l in m["rules_fired"]})))
