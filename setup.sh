#!/bin/sh
# Offline build of the checker binary from files on disk only.
set -e
cd "$(dirname "$0")"
export GOFLAGS=-mod=mod GOPROXY=off GOSUMDB=off GOTOOLCHAIN=local
unset GOWORK
mkdir -p bin evidence
(cd checker && go build -o ../bin/wrglcheck .)
echo "wrglcheck built"
