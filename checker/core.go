package main

import (
	"crypto/sha1"
	"encoding/hex"
	"encoding/json"
	"fmt"
	"os"
	"path/filepath"
	"sort"
	"strings"

	"golang.org/x/tools/go/ssa"
)

const (
	Discharged = "discharged"
	Violated   = "violated"
	Exempt     = "exempt"
	Missing    = "mechanism-missing"
)

// Obligation is one rule instance on one construct of the analysed program.
// Key identifies the construct by rule + package/function/callee/ordinal,
// never by line number.
type Obligation struct {
	Rule    string `json:"rule"`
	Key     string `json:"key"`
	Pos     string `json:"pos"`
	What    string `json:"what"`
	Status  string `json:"status"`
	Witness string `json:"witness,omitempty"`
	Reason  string `json:"reason,omitempty"`
}

type RuleResult struct {
	Rule        string       `json:"rule"`
	Template    string       `json:"template"`
	Doc         string       `json:"doc"`
	Min         int          `json:"frozen_min_instances"`
	Analysed    int          `json:"functions_analysed"`
	Obligations []Obligation `json:"obligations"`
	Notes       []string     `json:"notes,omitempty"`
	// Shared: instances that are covered by an obligation inside a helper with several
	// call sites (one obligation, k calling contexts: k-1 is added here)
	Shared int `json:"instances_through_shared_helpers,omitempty"`
}

func (r *RuleResult) add(o Obligation) {
	o.Rule = r.Rule
	r.Obligations = append(r.Obligations, o)
}

func (r *RuleResult) ok(key, pos, what string) {
	r.add(Obligation{Key: key, Pos: pos, What: what, Status: Discharged})
}
func (r *RuleResult) okWhy(key, pos, what, why string) {
	r.add(Obligation{Key: key, Pos: pos, What: what, Status: Discharged, Reason: why})
}
func (r *RuleResult) bad(key, pos, what, witness string) {
	r.add(Obligation{Key: key, Pos: pos, What: what, Status: Violated, Witness: witness})
}
func (r *RuleResult) exempt(key, pos, what, reason string) {
	r.add(Obligation{Key: key, Pos: pos, What: what, Status: Exempt, Reason: reason})
}
func (r *RuleResult) missing(key, what string) {
	r.add(Obligation{Key: key, Pos: "-", What: what, Status: Missing, Witness: "the structural mechanism this rule checks is no longer present / the anchor no longer resolves"})
}
func (r *RuleResult) note(f string, a ...interface{}) {
	r.Notes = append(r.Notes, fmt.Sprintf(f, a...))
}

// Rule is a rule instance bound to this repository.
type Rule struct {
	ID       string
	Template string
	Doc      string
	Min      int // frozen minimum number of non-exempt obligations (instances confirmed by reading)
	Run      func(p *Program, r *RuleResult) error
}

func runRule(p *Program, rule *Rule) (res *RuleResult) {
	res = &RuleResult{Rule: rule.ID, Template: rule.Template, Doc: rule.Doc, Min: rule.Min}
	defer func() {
		if x := recover(); x != nil {
			panic(fmt.Sprintf("rule %s panicked: %v", rule.ID, x))
		}
	}()
	if err := rule.Run(p, res); err != nil {
		if ae, ok := err.(*AnchorError); ok {
			res.missing("anchor:"+ae.What, "anchor of rule "+rule.ID+" does not resolve: "+ae.What)
		} else {
			panic(fmt.Sprintf("rule %s failed: %v", rule.ID, err))
		}
	}
	n := res.Shared
	for _, o := range res.Obligations {
		if o.Status != Missing {
			n++
		}
	}
	if n < rule.Min {
		res.missing("instances", fmt.Sprintf("rule %s found %d instances, fewer than the %d confirmed by reading", rule.ID, n, rule.Min))
	}
	sort.SliceStable(res.Obligations, func(i, j int) bool {
		a, b := res.Obligations[i], res.Obligations[j]
		if a.Key != b.Key {
			return a.Key < b.Key
		}
		return a.Pos < b.Pos
	})
	// disambiguate duplicate keys deterministically
	seen := map[string]int{}
	for i := range res.Obligations {
		k := res.Obligations[i].Key
		seen[k]++
		if seen[k] > 1 {
			res.Obligations[i].Key = fmt.Sprintf("%s~%d", k, seen[k])
		}
	}
	return res
}

// ---------- known findings ----------

type KnownFinding struct {
	Property      string `json:"property"`
	Rule          string `json:"rule"`
	Key           string `json:"key"`
	What          string `json:"what"`
	Demonstration string `json:"demonstration,omitempty"`
}
type FixedFinding struct {
	Property string `json:"property"`
	Commit   string `json:"commit"`
	What     string `json:"what"`
	Rule     string `json:"rule,omitempty"`
	Key      string `json:"key,omitempty"`
}
type KnownFile struct {
	Findings []KnownFinding `json:"findings"`
	Fixed    []FixedFinding `json:"fixed"`
}

func loadKnown(path string) (*KnownFile, error) {
	b, err := os.ReadFile(path)
	if err != nil {
		if os.IsNotExist(err) {
			return &KnownFile{}, nil
		}
		return nil, err
	}
	k := &KnownFile{}
	if err := json.Unmarshal(b, k); err != nil {
		return nil, err
	}
	return k, nil
}

func (k *KnownFile) match(prop string, o Obligation) *KnownFinding {
	for i := range k.Findings {
		f := &k.Findings[i]
		if f.Property == prop && f.Rule == o.Rule && f.Key == o.Key {
			return f
		}
	}
	return nil
}

// ---------- replay files ----------

type Replay struct {
	Property string     `json:"property"`
	Rule     string     `json:"rule"`
	Key      string     `json:"key"`
	Oblig    Obligation `json:"obligation"`
	Note     string     `json:"note"`
}

func writeReplay(dir, prop string, o Obligation) string {
	os.MkdirAll(dir, 0o755)
	h := sha1.Sum([]byte(prop + "|" + o.Rule + "|" + o.Key))
	path := filepath.Join(dir, fmt.Sprintf("%s-%s.json", prop, hex.EncodeToString(h[:6])))
	b, _ := json.MarshalIndent(Replay{Property: prop, Rule: o.Rule, Key: o.Key, Oblig: o,
		Note: "re-evaluate with: ./check --replay " + path}, "", " ")
	os.WriteFile(path, b, 0o644)
	return path
}

// ---------- evidence ----------

type Evidence struct {
	PropertyID  string                 `json:"property_id"`
	Tier        string                 `json:"tier"`
	Seed        int                    `json:"seed"`
	Level       string                 `json:"level"`
	Coverage    map[string]interface{} `json:"coverage"`
	Assumptions []string               `json:"assumptions"`
	WallS       float64                `json:"wall_s"`
	Violations  int                    `json:"violations"`
}

func trimObl(os []Obligation, max int) []Obligation {
	// keep all violated / missing, then fill with others
	var out []Obligation
	for _, o := range os {
		if o.Status == Violated || o.Status == Missing {
			out = append(out, o)
		}
	}
	for _, o := range os {
		if len(out) >= max {
			break
		}
		if o.Status != Violated && o.Status != Missing {
			out = append(out, o)
		}
	}
	return out
}

func shortList(ss []string, n int) []string {
	if len(ss) > n {
		return append(append([]string{}, ss[:n]...), fmt.Sprintf("… (%d more)", len(ss)-n))
	}
	return ss
}

func joinNonEmpty(sep string, parts ...string) string {
	var o []string
	for _, p := range parts {
		if p != "" {
			o = append(o, p)
		}
	}
	return strings.Join(o, sep)
}

// staticCallSites: number of static call sites of fn inside its own package.
func staticCallSites(p *Program, fn *ssa.Function) int {
	n := 0
	for _, g := range p.FuncsInPkg(strings.TrimPrefix(fnPkgPath(fn), modPath+"/")) {
		eachCall(g, func(c ssa.CallInstruction) {
			if c.Common().StaticCallee() == fn {
				n++
			}
		})
	}
	return n
}
