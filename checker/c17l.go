package main

// C17-l: a result is not used before the error that came with it was looked at.
//
// Repo functions that return (pointer, error) return a nil pointer together with the
// error. A caller that touches a field of the result on a path that has not yet taken
// the success edge of its error test dereferences nil exactly when the input was bad.

import (
	"fmt"
	"go/types"

	"golang.org/x/tools/go/ssa"
)

// nilWithError: result index i of fn is the nil constant on some return that carries a
// (possibly) non-nil error.
func nilWithError(fn *ssa.Function, i int) bool {
	ei := errorResultIndex(fn.Signature)
	if ei < 0 || len(fn.Blocks) == 0 {
		return false
	}
	for _, ret := range returnsOf(fn) {
		if i >= len(ret.Results) {
			continue
		}
		v := retVal(ret, i)
		e := retVal(ret, ei)
		if v == nil || e == nil {
			continue
		}
		if isNilConst(e) {
			continue
		}
		if isNilConst(stripConv(v)) {
			return true
		}
		// handed on from another repo call that has the same convention
		if ex, ok := stripConv(v).(*ssa.Extract); ok {
			if c, ok := ex.Tuple.(*ssa.Call); ok {
				if sc := c.Call.StaticCallee(); sc != nil && sc != fn && isRepoPkgPath(fnPkgPath(sc)) && nilWithErrorDepth(sc, ex.Index, 2) {
					return true
				}
			}
		}
	}
	return false
}

func nilWithErrorDepth(fn *ssa.Function, i, depth int) bool {
	if depth <= 0 {
		return false
	}
	ei := errorResultIndex(fn.Signature)
	if ei < 0 || len(fn.Blocks) == 0 {
		return false
	}
	for _, ret := range returnsOf(fn) {
		if i >= len(ret.Results) {
			continue
		}
		v, e := retVal(ret, i), retVal(ret, ei)
		if v == nil || e == nil || isNilConst(e) {
			continue
		}
		if isNilConst(stripConv(v)) {
			return true
		}
		if ex, ok := stripConv(v).(*ssa.Extract); ok {
			if c, ok := ex.Tuple.(*ssa.Call); ok {
				if sc := c.Call.StaticCallee(); sc != nil && sc != fn && isRepoPkgPath(fnPkgPath(sc)) && nilWithErrorDepth(sc, ex.Index, depth-1) {
					return true
				}
			}
		}
	}
	return false
}

func init() {
	register(&Rule{
		ID: "C17-l", Template: "T1 must-traverse (error looked at before the result is used)",
		Doc: "A decoder's refusal does not turn into a nil dereference one frame up: in production code, where a repo function returns (pointer, error) and returns a nil pointer together with an error, no field of the pointer is read or written on a path from the call that has not taken the success edge of the error test. (`com, err := ReadCommitFrom(r); com.Sum = sum; if err != nil …` crashes on exactly the malformed inputs the error is there for.)",
		Min: 50,
		Run: func(p *Program, r *RuleResult) error {
			fns := p.ProdFuncs()
			r.Analysed = len(fns)
			n := 0
			for _, fn := range fns {
				eachCall(fn, func(ci ssa.CallInstruction) {
					call, ok := ci.(*ssa.Call)
					if !ok {
						return
					}
					sc := call.Call.StaticCallee()
					if sc == nil || !isRepoPkgPath(fnPkgPath(sc)) {
						return
					}
					tup, ok := call.Type().(*types.Tuple)
					if !ok || errorResultIndex(sc.Signature) < 0 {
						return
					}
					se := successEdges(fn, call)
					// a callee whose only error is one sentinel: "not that sentinel" is success
					if pkg, name, ok := onlySentinelError(sc); ok {
						if vals := errValuesOfCall(call); vals != nil {
							se = append(se, testEdges(fn, eofTestsOn(fn, vals, pkg, name), false)...)
						}
					}
					for _, ref := range *call.Referrers() {
						ex, ok := ref.(*ssa.Extract)
						if !ok || ex.Index >= tup.Len() {
							continue
						}
						if _, isPtr := ex.Type().Underlying().(*types.Pointer); !isPtr {
							continue
						}
						if !nilWithError(sc, ex.Index) {
							continue
						}
						n++
						key := fmt.Sprintf("%s|result#%d", callKey(fn, call), ex.Index)
						what := "the result is used only after the error that came with it was found nil"
						bad := ""
						// `if x != nil { x.f }` is a test of its own
						cut := mkCut(se)
						ptrVals := map[ssa.Value]bool{ex: true}
						for _, b := range fn.Blocks {
							if len(b.Instrs) == 0 {
								continue
							}
							if ifi, ok := b.Instrs[len(b.Instrs)-1].(*ssa.If); ok {
								if s, ok := nilTestEdge(ifi, ptrVals); ok {
									cut[edge{b, 1 - s}] = true
								}
							}
						}
						for _, use := range *ex.Referrers() {
							var deref ssa.Instruction
							switch u := use.(type) {
							case *ssa.FieldAddr:
								if u.X == ssa.Value(ex) {
									deref = u
								}
							case *ssa.UnOp:
								if u.X == ssa.Value(ex) {
									deref = u
								}
							case *ssa.Store:
								if u.Addr == ssa.Value(ex) {
									deref = u
								}
							}
							if deref == nil {
								continue
							}
							if path, reach := reachAfter(fn, call, deref, cut, nil); reach {
								bad = fmtPath(fmt.Sprintf("%s is dereferenced at %s before the error of %s was found nil; the callee returns nil with an error", ex.Name(), p.Rel(deref.Pos()), calleeLabel(call)), path)
							}
						}
						if bad != "" {
							r.bad(key, p.Rel(call.Pos()), what, bad)
						} else {
							r.ok(key, p.Rel(call.Pos()), what)
						}
					}
				})
			}
			return nil
		},
	})
}

// onlySentinelError: every return of fn that carries a non-nil error returns the same
// package-level sentinel (io.EOF …).
func onlySentinelError(fn *ssa.Function) (string, string, bool) {
	ei := errorResultIndex(fn.Signature)
	if ei < 0 || len(fn.Blocks) == 0 {
		return "", "", false
	}
	pkg, name := "", ""
	for _, ret := range returnsOf(fn) {
		if ret.Block() == fn.Recover {
			continue
		}
		e := retVal(ret, ei)
		if e == nil || isNilConst(e) {
			continue
		}
		u, ok := stripConv(e).(*ssa.UnOp)
		if !ok {
			return "", "", false
		}
		g, ok := u.X.(*ssa.Global)
		if !ok || g.Pkg == nil {
			return "", "", false
		}
		if name != "" && (g.Name() != name || g.Pkg.Pkg.Path() != pkg) {
			return "", "", false
		}
		pkg, name = g.Pkg.Pkg.Path(), g.Name()
	}
	return pkg, name, name != ""
}
