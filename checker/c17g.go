package main

// C17-g: positions taken from a received table are checked against what they index.
//
// A received table brings a column list, key positions and block sums; the blocks
// bring rows. Code that uses one as positions into another (row[pk], row[i] for
// i < len(columns)) must first reject tables where they do not fit.

import (
	"fmt"
	"go/token"
	"go/types"

	"golang.org/x/tools/go/ssa"
)

// lenOperand: v is len(x); returns x.
func lenArgOf(v ssa.Value) ssa.Value {
	v = stripConv(v)
	if c, ok := v.(*ssa.Call); ok && isBuiltin(c, "len") && len(c.Call.Args) == 1 {
		return c.Call.Args[0]
	}
	return nil
}

// derivesFromField: the backward slice of v contains a load/address of field f.
// Elements stored into a local array (composite literal) count as well.
func derivesFromField(v ssa.Value, f *types.Var) bool {
	seen := map[ssa.Value]bool{}
	work := []ssa.Value{v}
	for len(work) > 0 {
		x := work[len(work)-1]
		work = work[:len(work)-1]
		for y := range backward(x, nil) {
			if seen[y] {
				continue
			}
			seen[y] = true
			switch z := y.(type) {
			case *ssa.FieldAddr:
				if structField(z.X.Type(), z.Field) == f {
					return true
				}
			case *ssa.Field:
				if structField(z.X.Type(), z.Field) == f {
					return true
				}
			case *ssa.Alloc:
				for _, ref := range *z.Referrers() {
					if ia, ok := ref.(*ssa.IndexAddr); ok && ia.X == ssa.Value(z) {
						for _, r2 := range *ia.Referrers() {
							if st, ok := r2.(*ssa.Store); ok && st.Addr == ssa.Value(ia) {
								work = append(work, st.Val)
							}
						}
					}
				}
			}
		}
	}
	return false
}

func derivesFromValue(v ssa.Value, src map[ssa.Value]bool) bool {
	for x := range backward(v, nil) {
		if src[x] {
			return true
		}
	}
	return false
}

type fitGuard struct {
	ifi  *ssa.If
	kind string    // "width" or "key"
	elem ssa.Value // the row whose length / the key position that is tested
}

// fitGuards finds, in fn, the tests that reject a row narrower than the column
// list (rows derived from `rows`) and a key position beyond it.
func fitGuards(fn *ssa.Function, rows map[ssa.Value]bool, columns, pk *types.Var) []fitGuard {
	return fitGuardsX(fn, rows, func(v ssa.Value) bool {
		x := lenArgOf(v)
		return x != nil && derivesFromField(x, columns)
	}, func(v ssa.Value) bool { return derivesFromField(v, pk) })
}

// fitGuardsX: like fitGuards with the "number of columns" and "key position" notions supplied.
func fitGuardsX(fn *ssa.Function, rows map[ssa.Value]bool, isCols func(ssa.Value) bool, isKeyPos func(ssa.Value) bool) []fitGuard {
	var out []fitGuard
	for _, b := range fn.Blocks {
		if len(b.Instrs) == 0 {
			continue
		}
		ifi, ok := b.Instrs[len(b.Instrs)-1].(*ssa.If)
		if !ok {
			continue
		}
		bo, ok := ifi.Cond.(*ssa.BinOp)
		if !ok {
			continue
		}
		failTrue := leadsToErrorReturn(fn, b.Succs[0])
		failFalse := leadsToErrorReturn(fn, b.Succs[1])
		if failTrue == failFalse {
			continue
		}
		// normalise to  a OP len(columns)
		op := bo.Op
		a, c := bo.X, bo.Y
		if !isCols(c) {
			if !isCols(a) {
				continue
			}
			a, c = c, a
			switch op {
			case token.LSS:
				op = token.GTR
			case token.GTR:
				op = token.LSS
			case token.LEQ:
				op = token.GEQ
			case token.GEQ:
				op = token.LEQ
			}
		}
		// rejects a < len(columns)?   (width)     rejects a >= len(columns)? (key)
		rejectsLess := (failTrue && (op == token.LSS || op == token.LEQ || op == token.NEQ)) || (failFalse && (op == token.GEQ || op == token.GTR || op == token.EQL))
		rejectsGeq := (failTrue && op == token.GEQ) || (failFalse && op == token.LSS)
		if x := lenArgOf(a); x != nil && rejectsLess && derivesFromValue(x, rows) {
			out = append(out, fitGuard{ifi, "width", x})
			continue
		}
		if rejectsGeq && isKeyPos(a) {
			out = append(out, fitGuard{ifi, "key", a})
		}
	}
	return out
}

// guardCoversAll: the guard sits in a loop that tests every element: the guard
// runs in every iteration and the loop is left only at its header or by an error
// return. Returns the loop header.
func guardCoversAll(fn *ssa.Function, g fitGuard) (*ssa.BasicBlock, string) {
	gb := g.ifi.Block()
	h := enclosingLoop(gb)
	if h == nil {
		return nil, "the test is not inside a loop over the elements"
	}
	// the loop must be the one that walks the elements: what is tested is selected by this
	// loop's own induction variable — a test of one fixed element (rows[0]) inside an outer loop
	// over something else covers nothing (round 7, C17-r7m2)
	if g.elem != nil {
		selected := false
		for x := range backward(g.elem, nil) {
			var idx ssa.Value
			switch y := x.(type) {
			case *ssa.IndexAddr:
				idx = y.Index
			case *ssa.Index:
				idx = y.Index
			case *ssa.Next:
				if enclosingLoop(y.Block()) == h || y.Block() == h {
					selected = true
				}
			}
			if idx == nil {
				continue
			}
			for z := range backward(idx, nil) {
				if ph, ok := z.(*ssa.Phi); ok && ph.Block() == h {
					selected = true
				}
			}
		}
		if !selected {
			return nil, "the tested element is not selected by the loop's own index: one fixed element is tested, not every element"
		}
	}
	body := loopBody(h)
	for _, p := range h.Preds {
		if body[p] && !gb.Dominates(p) {
			return nil, "an iteration can reach the next one without the test"
		}
	}
	for e := range loopExitEdges(h) {
		if e.from == h {
			continue
		}
		if !leadsToErrorReturn(fn, e.from.Succs[e.succ]) {
			return nil, "the loop can be left early without an error"
		}
	}
	return h, ""
}

func init() {
	register(&Rule{
		ID: "C17-g", Template: "T1 must-traverse (positions fit what they index)",
		Doc: "A received table cannot make the receiver index out of range: in the functions reachable from ObjectReceiver.Receive that read a table's blocks (objects.GetBlock) and use rows or key positions positionally (slice.IndicesToValues, objects.IndexBlock, dprof.Profiler.Process), every such use is reachable only after (a) a loop over the block's rows that rejects, with an error, any row narrower than Table.Columns and (b) a loop over Table.PK that rejects any position ≥ len(Table.Columns) — or the function is called, on every path of its Receive-reachable callers, only after such a validating function succeeded on the table.",
		Min: 3,
		Run: func(p *Program, r *RuleResult) error {
			reach, _, err := hostileReachable(p)
			if err != nil {
				return err
			}
			getBlock, err := p.MustFuncs("pkg/objects.GetBlock")
			if err != nil {
				return err
			}
			sinksSet, err := p.MustFuncs("pkg/slice.IndicesToValues", "pkg/objects.IndexBlock", "pkg/dprof.(*Profiler).Process")
			if err != nil {
				return err
			}
			columns, err := p.Field("pkg/objects.Table.Columns")
			if err != nil {
				return err
			}
			pk, err := p.Field("pkg/objects.Table.PK")
			if err != nil {
				return err
			}
			r.Analysed = len(reach)
			type pending struct {
				fn    *ssa.Function
				sink  ssa.CallInstruction
				needs string
			}
			validating := map[*types.Func]bool{}
			var deferred []pending
			for _, fn := range sortedFuncs(reach) {
				gbs := callsTo(fn, getBlock)
				// positional uses: direct, or inside a helper of the package that is handed the row
				effs := effSites(p, fn, sinksSet, inlineDepth)
				var sinks []ssa.CallInstruction
				innerOf := map[ssa.CallInstruction]ssa.CallInstruction{}
				for _, e := range effs {
					if _, dup := innerOf[e.site]; dup {
						continue
					}
					innerOf[e.site] = e.inner
					sinks = append(sinks, e.site)
				}
				if len(gbs) == 0 || len(sinks) == 0 {
					continue
				}
				rows := map[ssa.Value]bool{}
				for _, gb := range gbs {
					if call, ok := gb.(*ssa.Call); ok {
						for _, ref := range *call.Referrers() {
							if ex, ok := ref.(*ssa.Extract); ok && ex.Index == 0 {
								rows[ex] = true
							}
						}
					}
				}
				guards := fitGuards(fn, rows, columns, pk)
				var widthH, keyH []*ssa.BasicBlock
				var widthG, keyG []fitGuard
				var whyNot []string
				// validating helpers of the package: a call whose success implies the width / key test
				var widthCalls, keyCalls []*ssa.Call
				eachCall(fn, func(hc ssa.CallInstruction) {
					call, ok := hc.(*ssa.Call)
					if !ok {
						return
					}
					h := call.Call.StaticCallee()
					if h == nil || len(h.Blocks) == 0 || fnPkgPath(h) != fnPkgPath(fn) || errorResultIndex(h.Signature) < 0 {
						return
					}
					args := call.Call.Args
					hRows := map[ssa.Value]bool{}
					var colParams, pkParams []ssa.Value
					for ai, a := range args {
						if ai >= len(h.Params) {
							continue
						}
						if derivesFromValue(a, rows) {
							hRows[h.Params[ai]] = true
						}
						if x := lenArgOf(a); x != nil && derivesFromField(x, columns) {
							colParams = append(colParams, h.Params[ai])
						}
						if derivesFromField(a, pk) {
							pkParams = append(pkParams, h.Params[ai])
						}
					}
					if len(colParams) == 0 {
						return
					}
					isColsH := func(v ssa.Value) bool {
						v = stripConv(v)
						for _, cp := range colParams {
							if v == cp {
								return true
							}
						}
						return false
					}
					isKeyH := func(v ssa.Value) bool {
						for x := range backward(v, nil) {
							for _, pp := range pkParams {
								if x == pp {
									return true
								}
							}
						}
						return false
					}
					hei := errorResultIndex(h.Signature)
					for _, g := range fitGuardsX(h, hRows, isColsH, isKeyH) {
						hh, _ := guardCoversAll(h, g)
						if hh == nil {
							continue
						}
						// every successful return of the helper lies behind the loop
						okAll := true
						for _, ret := range returnsOf(h) {
							if v := retVal(ret, hei); v != nil && (definitelyNonNilError(v) || nonNilByGuard(h, ret, v)) {
								continue
							}
							if _, reach := reachAfter(h, nil, ret, nil, map[ssa.Instruction]bool{hh.Instrs[0]: true}); reach {
								okAll = false
							}
						}
						if !okAll {
							continue
						}
						if g.kind == "width" {
							widthCalls = append(widthCalls, call)
						} else {
							keyCalls = append(keyCalls, call)
						}
					}
				})
				for _, g := range guards {
					h, why := guardCoversAll(fn, g)
					if h == nil {
						whyNot = append(whyNot, fmt.Sprintf("%s test at %s: %s", g.kind, p.Rel(g.ifi.Pos()), why))
						continue
					}
					if g.kind == "width" {
						widthH = append(widthH, h)
						widthG = append(widthG, g)
					} else {
						keyH = append(keyH, h)
						keyG = append(keyG, g)
					}
				}
				allOK := true
				for _, s := range sinks {
					usesRows, usesPK := false, false
					for _, a := range s.Common().Args {
						if derivesFromValue(a, rows) {
							usesRows = true
						}
						if derivesFromField(a, pk) {
							usesPK = true
						}
					}
					if f := calleeFunc(innerOf[s]); f != nil && f.Name() == "Process" {
						usesRows = true // row[i] for every column
					}
					check := func(kind string, hs []*ssa.BasicBlock, gs []fitGuard, from ssa.Instruction) (bool, string) {
						calls := widthCalls
						if kind == "key-position" {
							calls = keyCalls
						}
						for _, cg := range calls {
							if orderedAfterSuccess(fn, cg, s, errorResultIndex(fn.Signature)) {
								return true, ""
							}
						}
						for i, h := range hs {
							body := loopBody(h)
							if body[s.Block()] {
								// same loop: the test itself must lie on every path from the header
								if _, reach := reachAfter(fn, h.Instrs[0], s, nil, map[ssa.Instruction]bool{gs[i].ifi: true}); !reach {
									return true, ""
								}
								continue
							}
							if _, reach := reachAfter(fn, from, s, nil, map[ssa.Instruction]bool{h.Instrs[0]: true}); !reach {
								return true, ""
							}
						}
						return false, "no " + kind + " test on every path to this use"
					}
					key := callKey(fn, s)
					what := "positional use of a received table's rows / key positions happens only after they were checked against the column list"
					var missing []string
					if usesRows {
						var from ssa.Instruction
						if len(gbs) == 1 {
							from = gbs[0]
						}
						if ok, why := check("row-width", widthH, widthG, from); !ok {
							missing = append(missing, why)
						}
					}
					if usesPK {
						if ok, why := check("key-position", keyH, keyG, nil); !ok {
							missing = append(missing, why)
						}
					}
					if len(missing) == 0 {
						r.ok(key, p.Rel(s.Pos()), what)
						continue
					}
					allOK = false
					deferred = append(deferred, pending{fn, s, joinNonEmpty("; ", append(missing, whyNot...)...)})
				}
				if allOK && (len(widthH) > 0 || len(widthCalls) > 0) && (len(keyH) > 0 || len(keyCalls) > 0) {
					if fn.Object() != nil {
						if f, ok := fn.Object().(*types.Func); ok {
							validating[f] = true
						}
					}
				}
			}
			// uses without a local test: every Receive-reachable caller must have run a
			// validating function successfully first
			pre := newSuccSummary(p, validating)
			gc := &guardCheck{p: p, pre: pre}
			for _, d := range deferred {
				key := callKey(d.fn, d.sink)
				what := "positional use of a received table's rows / key positions happens only after they were checked against the column list"
				if len(validating) == 0 {
					r.bad(key, p.Rel(d.sink.Pos()), what, d.needs+"; and no function on the receive path validates the table")
					continue
				}
				bad := ""
				n := 0
				for _, cs := range gc.callSitesOf(d.fn) {
					if !reach[cs.fn] {
						continue
					}
					n++
					if ok, why := gc.check(cs.fn, cs.site, wrapperDepth); !ok {
						bad = fmt.Sprintf("%s; caller %s does not validate the table first: %s", d.needs, funcName(cs.fn), why)
					}
				}
				if n == 0 {
					bad = d.needs + "; no caller on the receive path"
				}
				if bad != "" {
					r.bad(key, p.Rel(d.sink.Pos()), what, bad)
				} else {
					r.okWhy(key, p.Rel(d.sink.Pos()), what, "every receive-path caller runs a validating function ("+validatingNames(validating)+") successfully first")
				}
			}
			return nil
		},
	})
}

func validatingNames(m map[*types.Func]bool) string {
	s := ""
	for f := range m {
		if s != "" {
			s += ", "
		}
		s += shortObj(f)
	}
	return s
}
