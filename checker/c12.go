package main

import (
	"fmt"
	"go/token"
	"go/types"
	"strings"

	"golang.org/x/tools/go/ssa"
)

func pruneReach(p *Program) (map[*ssa.Function]bool, *ssa.Function, error) {
	pr, err := p.SSAFunc("pkg/prune.Prune")
	if err != nil {
		return nil, nil, err
	}
	out := map[*ssa.Function]bool{}
	for f := range p.Reachable(p.CG, pr) {
		if p.IsProd(f) {
			out[f] = true
		}
	}
	return out, pr, nil
}

func isSliceOfBool(t types.Type) bool {
	s, ok := t.Underlying().(*types.Slice)
	if !ok {
		return false
	}
	b, ok := s.Elem().Underlying().(*types.Basic)
	return ok && b.Kind() == types.Bool
}

// markLoads: bool values loaded from an element of a []bool.
func markLoads(fn *ssa.Function) []ssa.Value {
	var out []ssa.Value
	for _, b := range fn.Blocks {
		for _, in := range b.Instrs {
			u, ok := in.(*ssa.UnOp)
			if !ok || u.Op != token.MUL {
				continue
			}
			if ia, ok := u.X.(*ssa.IndexAddr); ok && isSliceOfBool(ia.X.Type()) {
				out = append(out, u)
			}
		}
	}
	return out
}

// involvedFuncs: the functions a call in fn hands control to — static callee,
// closures passed as arguments, closures returned by repo functions called for an
// argument — closed under the call graph.
func involvedFuncs(p *Program, c ssa.CallInstruction) map[*ssa.Function]bool {
	var roots []*ssa.Function
	var addVal func(v ssa.Value, depth int)
	addVal = func(v ssa.Value, depth int) {
		if depth > 3 {
			return
		}
		switch x := v.(type) {
		case *ssa.MakeClosure:
			roots = append(roots, x.Fn.(*ssa.Function))
		case *ssa.Function:
			roots = append(roots, x)
		case *ssa.Call:
			if sc := x.Call.StaticCallee(); sc != nil && isRepoPkgPath(fnPkgPath(sc)) {
				roots = append(roots, sc)
				roots = append(roots, sc.AnonFuncs...)
			}
		case *ssa.ChangeType:
			addVal(x.X, depth+1)
		case *ssa.MakeInterface:
			addVal(x.X, depth+1)
		}
	}
	for _, a := range c.Common().Args {
		addVal(a, 0)
	}
	if len(roots) == 0 {
		// not a higher-order step: the callee itself does the work
		if sc := c.Common().StaticCallee(); sc != nil {
			roots = append(roots, sc)
		}
	}
	return p.Reachable(p.CG, roots...)
}

func init() {
	register(&Rule{
		ID: "C12-a", Template: "constant arguments on reachable calls",
		Doc: "Prune's roots are all refs: every ref.Store.Filter / FilterKey invocation reachable from prune.Prune passes nil prefixes and nil exclusions (heads, tags, remote-tracking refs and transaction refs are all roots).",
		Min: 1,
		Run: func(p *Program, r *RuleResult) error {
			reach, _, err := pruneReach(p)
			if err != nil {
				return err
			}
			store, err := p.NamedType("pkg/ref.Store")
			if err != nil {
				return err
			}
			iface := store.Underlying().(*types.Interface)
			filt := map[*types.Func]bool{}
			for i := 0; i < iface.NumMethods(); i++ {
				if n := iface.Method(i).Name(); n == "Filter" || n == "FilterKey" {
					filt[iface.Method(i)] = true
				}
			}
			if len(filt) != 2 {
				return &AnchorError{"ref.Store.Filter/FilterKey"}
			}
			r.Analysed = len(reach)
			for _, fn := range sortedFuncs(reach) {
				eachCall(fn, func(c ssa.CallInstruction) {
					cc := c.Common()
					if !cc.IsInvoke() || !filt[cc.Method] {
						return
					}
					what := "ref listing that seeds prune's roots must be unfiltered"
					if len(cc.Args) == 2 && isNilConst(cc.Args[0]) && isNilConst(cc.Args[1]) {
						r.ok(callKey(fn, c), p.Rel(c.Pos()), what)
					} else {
						r.bad(callKey(fn, c), p.Rel(c.Pos()), what, "a filtered ref listing is reachable from prune.Prune: refs outside the filter are not roots and their history would be deleted")
					}
				})
			}
			return nil
		},
	})

	register(&Rule{
		ID: "C12-b", Template: "T5 error-drop",
		Doc: "No error of pkg/ref or pkg/objects is dropped inside pkg/prune: a ref whose commit fails to load must abort the prune, not silently stop being a root.",
		Min: 12,
		Run: func(p *Program, r *RuleResult) error {
			if _, err := p.Func("pkg/ref.(*CommitsQueue).Insert"); err != nil {
				return err
			}
			pk := pkgSet("pkg/ref", "pkg/objects")
			runErrorDrop(p, r, p.FuncsInPkg("pkg/prune"), func(f *types.Func) bool { return pk[pkgOfFunc(f)] }, nil)
			return nil
		},
	})

	register(&Rule{
		ID: "C12-c", Template: "T4 permit-cut (mark guard)",
		Doc: "Every objects.Delete{Table,TableIndex,TableProfile,Block,BlockIndex} call in pkg/prune is reachable only through the 'not marked' edge of a test of a []bool mark; objects.DeleteCommit only deletes elements of a slice that was filled exclusively under such an edge.",
		Min: 6,
		Run: func(p *Program, r *RuleResult) error {
			dels, err := p.MustFuncs("pkg/objects.DeleteTable", "pkg/objects.DeleteTableIndex", "pkg/objects.DeleteTableProfile", "pkg/objects.DeleteBlock", "pkg/objects.DeleteBlockIndex")
			if err != nil {
				return err
			}
			delCommit, err := p.MustFuncs("pkg/objects.DeleteCommit")
			if err != nil {
				return err
			}
			fns := p.FuncsInPkg("pkg/prune")
			r.Analysed = len(fns)
			// unmarked-only results: (function, result index) all of whose appended elements are added under a not-marked edge
			unmarkedOnly := map[string]bool{}
			for _, fn := range fns {
				cut := mkCut(boolEdges(fn, forward(markLoads(fn), fwdOpts{noBinOp: true}), false))
				if len(cut) == 0 {
					continue
				}
				for k := 0; k < fn.Signature.Results().Len(); k++ {
					if _, ok := fn.Signature.Results().At(k).Type().Underlying().(*types.Slice); !ok {
						continue
					}
					nApp, allUnder := 0, true
					for _, b := range fn.Blocks {
						for _, in := range b.Instrs {
							call, ok := in.(*ssa.Call)
							if !ok {
								continue
							}
							if bi, ok := call.Call.Value.(*ssa.Builtin); !ok || bi.Name() != "append" {
								continue
							}
							// does this append flow into result k?
							fw := forward([]ssa.Value{call}, fwdOpts{noBinOp: true})
							flows := false
							for _, ret := range returnsOf(fn) {
								if v := retVal(ret, k); v != nil && fw[v] {
									flows = true
								}
								if k < len(ret.Results) && fw[ret.Results[k]] {
									flows = true
								}
							}
							if !flows {
								continue
							}
							nApp++
							if _, reach := reachAfter(fn, nil, call, cut, nil); reach {
								allUnder = false
							}
						}
					}
					if nApp > 0 && allUnder {
						unmarkedOnly[fmt.Sprintf("%s#%d", funcName(fn), k)] = true
					}
				}
			}
			for _, fn := range fns {
				cut := mkCut(boolEdges(fn, forward(markLoads(fn), fwdOpts{noBinOp: true}), false))
				for _, c := range callsTo(fn, dels) {
					what := "object deleted only when its mark is false"
					if path, reach := reachAfter(fn, nil, c, cut, nil); reach {
						r.bad(callKey(fn, c), p.Rel(c.Pos()), what, fmtPath("delete reachable without passing the not-marked edge of a []bool mark test", path))
					} else {
						r.ok(callKey(fn, c), p.Rel(c.Pos()), what)
					}
				}
				for _, c := range callsTo(fn, delCommit) {
					what := "commit deleted only if it comes from the unmarked list"
					args := c.Common().Args
					ok := false
					var why string
					if len(args) >= 2 {
						ok, why = fromUnmarkedOnly(args[1], unmarkedOnly)
					}
					if ok {
						r.ok(callKey(fn, c), p.Rel(c.Pos()), what)
					} else {
						r.bad(callKey(fn, c), p.Rel(c.Pos()), what, why)
					}
				}
			}
			return nil
		},
	})

	register(&Rule{
		ID: "C12-d", Template: "lookup guard (bound + hit)",
		Doc: "In pkg/prune every use of a sort.Search result as an index is reachable only through an `i < len(x)` edge, and every write of a mark at that index additionally only through the edge on which the found key equals the searched key. With a shallow commit (table absent) an unchecked insertion point is out of range or marks the neighbouring table.",
		Min: 4,
		Run: func(p *Program, r *RuleResult) error {
			fns := p.FuncsInPkg("pkg/prune")
			r.Analysed = len(fns)
			for _, fn := range fns {
				n := 0
				before := len(r.Obligations)
				eachCall(fn, func(ci ssa.CallInstruction) {
					call, ok := ci.(*ssa.Call)
					if !ok {
						return
					}
					f := calleeFunc(call)
					if f == nil || f.Pkg() == nil || f.Pkg().Path() != "sort" || f.Name() != "Search" {
						return
					}
					idxVals := forward([]ssa.Value{call}, fwdOpts{noBinOp: true})
					// bound edges: i < len(..) true / i >= len(..) false
					var bound []edge
					var equal []edge
					for _, b := range fn.Blocks {
						if len(b.Instrs) == 0 {
							continue
						}
						ifi, ok := b.Instrs[len(b.Instrs)-1].(*ssa.If)
						if !ok {
							continue
						}
						cond := ifi.Cond
						neg := false
						for {
							if u, ok := cond.(*ssa.UnOp); ok && u.Op == token.NOT {
								neg = !neg
								cond = u.X
								continue
							}
							break
						}
						if bo, ok := cond.(*ssa.BinOp); ok {
							_, yIsLen := lenOperand(bo.Y)
							_, xIsLen := lenOperand(bo.X)
							switch {
							case idxVals[bo.X] && yIsLen && (bo.Op == token.LSS || bo.Op == token.GEQ):
								bound = append(bound, edge{b, succIf(bo.Op == token.LSS, neg)})
							case idxVals[bo.Y] && xIsLen && (bo.Op == token.GTR || bo.Op == token.LEQ):
								bound = append(bound, edge{b, succIf(bo.Op == token.GTR, neg)})
							case (bo.Op == token.EQL || bo.Op == token.NEQ) && (elemAtIndex(bo.X, idxVals) || elemAtIndex(bo.Y, idxVals)):
								equal = append(equal, edge{b, succIf(bo.Op == token.EQL, neg)})
							}
						}
						if c2, ok := cond.(*ssa.Call); ok {
							if f2 := calleeFunc(c2); f2 != nil && f2.Pkg() != nil && f2.Pkg().Path() == "bytes" && f2.Name() == "Equal" && len(c2.Call.Args) == 2 {
								if elemAtIndex(c2.Call.Args[0], idxVals) || elemAtIndex(c2.Call.Args[1], idxVals) {
									equal = append(equal, edge{b, succIf(true, neg)})
								}
							}
						}
					}
					// uses as index
					for v := range idxVals {
						if v.Referrers() == nil {
							continue
						}
						for _, ref := range *v.Referrers() {
							ia, ok := ref.(*ssa.IndexAddr)
							if !ok || ia.Index != v {
								continue
							}
							key := fmt.Sprintf("%s|sort.Search#%d|index-use@%s", funcName(fn), n, shortType(ia.X.Type()))
							what := "index found by sort.Search is bounds-checked before use"
							if path, reach := reachAfter(fn, call, ia, mkCut(bound), nil); reach {
								r.bad(key, p.Rel(ia.Pos()), what, fmtPath("element access reachable from the search without an `i < len(x)` edge: a miss past the end panics", path))
								continue
							}
							if isSliceOfBool(ia.X.Type()) && isStoreTarget(ia) {
								what = "mark written only when the search hit the searched key"
								if path, reach := reachAfter(fn, call, ia, mkCut(equal), nil); reach {
									r.bad(key, p.Rel(ia.Pos()), what, fmtPath("mark written without comparing the found key with the searched key: a miss marks the neighbouring object", path))
									continue
								}
							}
							r.ok(key, p.Rel(ia.Pos()), what)
						}
					}
					n++
				})
				// a lookup helper shared by k call sites stands for k lookups
				if k := staticCallSites(p, fn); k > 1 {
					r.Shared += (k - 1) * (len(r.Obligations) - before)
				}
			}
			return nil
		},
	})

	register(&Rule{
		ID: "C12-e", Template: "T2 never-follows",
		Doc: "Prune deletes commits last: on no path of prune.Prune does a step that deletes tables, table indices, profiles, blocks or block indices follow a step that deletes commits (so an interrupted prune can be repeated: the commits that name the orphaned tables are still there to be found unreachable again).",
		Min: 1,
		Run: func(p *Program, r *RuleResult) error {
			_, pr, err := pruneReach(p)
			if err != nil {
				return err
			}
			dels, err := p.MustFuncs("pkg/objects.DeleteTable", "pkg/objects.DeleteTableIndex", "pkg/objects.DeleteTableProfile", "pkg/objects.DeleteBlock", "pkg/objects.DeleteBlockIndex")
			if err != nil {
				return err
			}
			delCommit, err := p.MustFuncs("pkg/objects.DeleteCommit")
			if err != nil {
				return err
			}
			r.Analysed = 1
			var as, bs []ssa.CallInstruction
			eachCall(pr, func(c ssa.CallInstruction) {
				inv := involvedFuncs(p, c)
				hasCommit, hasOther := false, false
				for f := range inv {
					if !p.IsProd(f) {
						continue
					}
					if len(callsTo(f, delCommit)) > 0 {
						hasCommit = true
					}
					if len(callsTo(f, dels)) > 0 {
						hasOther = true
					}
				}
				if hasCommit {
					as = append(as, c)
				}
				if hasOther {
					bs = append(bs, c)
				}
			})
			if len(as) == 0 {
				return &AnchorError{"a step of prune.Prune that deletes commits"}
			}
			if len(bs) == 0 {
				return &AnchorError{"a step of prune.Prune that deletes tables/blocks"}
			}
			for _, a := range as {
				what := "no table/block deletion step after the commit deletion step"
				if ok, w := neverFollows(p, pr, []ssa.CallInstruction{a}, bs); ok {
					// a step that does both is out of order by itself
					both := false
					for _, b := range bs {
						if b == a {
							both = true
						}
					}
					if both {
						r.bad(callKey(pr, a), p.Rel(a.Pos()), what, "one step deletes both commits and other objects")
					} else {
						r.ok(callKey(pr, a), p.Rel(a.Pos()), what)
					}
				} else {
					r.bad(callKey(pr, a), p.Rel(a.Pos()), what, w)
				}
			}
			return nil
		},
	})
}

func init() {
	register(&Rule{
		ID: "C12-f", Template: "who-may-read (defaulted configuration field)",
		Doc: "Open transactions stay roots until they expire: a field of conf.Config that has a defaulting getter Get<Field>() (TransactionTTL → 30 days when unset) is read outside pkg/conf only through that getter; `wrgl gc` with the raw field would use a TTL of 0, discard every in-progress transaction and prune its commits.",
		Min: 1,
		Run: func(p *Program, r *RuleResult) error {
			cfg, err := p.NamedType("pkg/conf.Config")
			if err != nil {
				return err
			}
			st, ok := cfg.Underlying().(*types.Struct)
			if !ok {
				return &AnchorError{"conf.Config struct"}
			}
			guarded := map[*types.Var]*types.Func{}
			ms := types.NewMethodSet(types.NewPointer(cfg))
			for i := 0; i < ms.Len(); i++ {
				m, ok := ms.At(i).Obj().(*types.Func)
				if !ok || !strings.HasPrefix(m.Name(), "Get") {
					continue
				}
				for k := 0; k < st.NumFields(); k++ {
					if st.Field(k).Name() == strings.TrimPrefix(m.Name(), "Get") {
						guarded[st.Field(k)] = m
					}
				}
			}
			if len(guarded) == 0 {
				return &AnchorError{"conf.Config field with a Get<Field> getter"}
			}
			fns := p.ProdFuncs()
			r.Analysed = len(fns)
			nGetterCalls := 0
			for _, fn := range fns {
				inConf := strings.HasPrefix(fnPkgPath(fn), modPath+"/pkg/conf")
				n := 0
				for _, b := range fn.Blocks {
					for _, in := range b.Instrs {
						if c, ok := in.(ssa.CallInstruction); ok {
							if f := calleeFunc(c); f != nil {
								for _, g := range guarded {
									if g == f {
										nGetterCalls++
										r.ok(callKey(fn, c), p.Rel(c.Pos()), "configuration value read through its defaulting getter "+f.Name())
									}
								}
							}
						}
						fa, ok := in.(*ssa.FieldAddr)
						if !ok {
							continue
						}
						fv := structField(fa.X.Type(), fa.Field)
						g, isGuarded := guarded[fv]
						if !isGuarded || inConf {
							continue
						}
						// only loads count (stores set the configuration)
						isLoad := false
						for _, ref := range *fa.Referrers() {
							if u, ok := ref.(*ssa.UnOp); ok && u.Op == token.MUL {
								isLoad = true
							}
						}
						if !isLoad {
							continue
						}
						key := fmt.Sprintf("%s|read conf.Config.%s#%d", funcName(fn), fv.Name(), n)
						n++
						r.bad(key, p.Rel(fa.Pos()), "configuration field with a default is read through "+g.Name()+"()", "raw read of Config."+fv.Name()+" bypasses the default applied by "+g.Name()+"()")
					}
				}
			}
			if nGetterCalls == 0 {
				r.missing("getter-calls", "no production call of a defaulting conf.Config getter found")
			}
			return nil
		},
	})
}

func succIf(trueEdge bool, neg bool) int {
	if neg {
		trueEdge = !trueEdge
	}
	if trueEdge {
		return 0
	}
	return 1
}

// elemAtIndex: v derives from an element x[i] with i in idx.
func elemAtIndex(v ssa.Value, idx map[ssa.Value]bool) bool {
	for x := range backward(v, nil) {
		if ia, ok := x.(*ssa.IndexAddr); ok && idx[ia.Index] {
			return true
		}
		if ix, ok := x.(*ssa.Index); ok && idx[ix.Index] {
			return true
		}
	}
	return false
}

func isStoreTarget(ia *ssa.IndexAddr) bool {
	for _, ref := range *ia.Referrers() {
		if st, ok := ref.(*ssa.Store); ok && st.Addr == ia {
			return true
		}
	}
	return false
}

func shortType(t types.Type) string {
	return strings.ReplaceAll(types.TypeString(t, nil), modPath+"/", "")
}

// fromUnmarkedOnly: v is an element of a slice that is result k of a function
// whose appends into that result all lie under a not-marked edge.
func fromUnmarkedOnly(v ssa.Value, unmarkedOnly map[string]bool) (bool, string) {
	seen := map[ssa.Value]bool{}
	var srcs []string
	ok := false
	bad := false
	var rec func(x ssa.Value, depth int)
	rec = func(x ssa.Value, depth int) {
		if x == nil || seen[x] || depth > 40 {
			return
		}
		seen[x] = true
		switch y := x.(type) {
		case *ssa.UnOp:
			if y.Op == token.MUL {
				if cell := cellOf(y.X); cell != nil {
					sts := cellStores(cell)
					for _, st := range sts {
						rec(st.Val, depth+1)
					}
					return
				}
			}
			rec(y.X, depth+1)
		case *ssa.IndexAddr:
			rec(y.X, depth+1)
		case *ssa.Index:
			rec(y.X, depth+1)
		case *ssa.Phi:
			for _, e := range y.Edges {
				rec(e, depth+1)
			}
		case *ssa.Slice:
			rec(y.X, depth+1)
		case *ssa.Extract:
			if call, isCall := y.Tuple.(*ssa.Call); isCall {
				if sc := call.Call.StaticCallee(); sc != nil {
					k := fmt.Sprintf("%s#%d", funcName(sc), y.Index)
					srcs = append(srcs, k)
					if unmarkedOnly[k] {
						ok = true
					} else {
						bad = true
					}
					return
				}
			}
			bad = true
		case *ssa.Const:
			// nil initialisation of the variable
		default:
			bad = true
			srcs = append(srcs, fmt.Sprintf("%T", x))
		}
	}
	rec(v, 0)
	if ok && !bad {
		return true, ""
	}
	return false, fmt.Sprintf("the deleted commit does not provably come from a list filled only under a not-marked edge (sources: %v)", srcs)
}
