package main

// C04-a: "an empty table on either side is handled like any other".
//
// The block-window search of pkg/diff works with positions into the other table's
// index. A position computed as len(x)-1 is -1 when x is empty; the rule follows
// such values (through arithmetic, results, arguments) to where they are used as an
// index, a slice bound or an allocation size, and requires a test that rules the
// negative value out on the way.

import (
	"fmt"
	"go/token"
	"go/types"
	"os"
	"sort"
	"strings"

	"golang.org/x/tools/go/ssa"
)

// lenOf: v is len(x) (possibly converted) or a φ-free copy of it; returns x.
func lenOf(v ssa.Value) ssa.Value {
	v = stripConv(v)
	if c, ok := v.(*ssa.Call); ok && isBuiltin(c, "len") && len(c.Call.Args) == 1 {
		return c.Call.Args[0]
	}
	return nil
}

// nonEmptyEdges: edges of fn on which len(x) > 0 is known, for the length value n
// (n itself is `len(x)` or a value equal to it).
func nonEmptyEdges(fn *ssa.Function, n ssa.Value) []edge {
	same := func(v ssa.Value) bool {
		v = stripConv(v)
		if v == stripConv(n) {
			return true
		}
		if a, b := lenOf(v), lenOf(n); a != nil && b != nil && a == b {
			return true
		}
		return false
	}
	var out []edge
	for _, b := range fn.Blocks {
		if len(b.Instrs) == 0 {
			continue
		}
		ifi, ok := b.Instrs[len(b.Instrs)-1].(*ssa.If)
		if !ok {
			continue
		}
		bo, ok := ifi.Cond.(*ssa.BinOp)
		if !ok {
			continue
		}
		op := bo.Op
		var other ssa.Value
		switch {
		case same(bo.X):
			other = bo.Y
		case same(bo.Y):
			other = bo.X
			switch op {
			case token.LSS:
				op = token.GTR
			case token.LEQ:
				op = token.GEQ
			case token.GTR:
				op = token.LSS
			case token.GEQ:
				op = token.LEQ
			}
		default:
			// j < n with j >= 0 also implies n > 0 on the true edge
			continue
		}
		k, isConst := constInt(other)
		switch {
		case isConst && k == 0 && op == token.EQL: // n == 0 : false edge non-empty
			out = append(out, edge{b, 1})
		case isConst && k == 0 && (op == token.NEQ || op == token.GTR): // n != 0, n > 0
			out = append(out, edge{b, 0})
		case isConst && k >= 1 && op == token.GEQ:
			out = append(out, edge{b, 0})
		case isConst && k >= 1 && op == token.LSS:
			out = append(out, edge{b, 1})
		case isConst && k == 0 && op == token.LEQ:
			out = append(out, edge{b, 1})
		case !isConst && op == token.GTR: // n > j  (j is an index ≥ 0 in loop conditions `j < n`)
			if isNonNegIndex(other) {
				out = append(out, edge{b, 0})
			}
		}
	}
	return out
}

// isNonNegIndex: a loop counter / index that starts at a non-negative constant or
// at another such value and only grows.
func isNonNegIndex(v ssa.Value) bool {
	v = stripConv(v)
	ph, ok := v.(*ssa.Phi)
	if !ok {
		if k, ok := constInt(v); ok {
			return k >= 0
		}
		return false
	}
	for _, e := range ph.Edges {
		e = stripConv(e)
		if k, ok := constInt(e); ok {
			if k < 0 {
				return false
			}
			continue
		}
		if bo, ok := e.(*ssa.BinOp); ok && bo.Op == token.ADD && stripConv(bo.X) == ssa.Value(ph) {
			if k, ok := constInt(bo.Y); ok && k >= 0 {
				continue
			}
		}
		return false
	}
	return true
}

type negMark struct {
	why string
}

func init() {
	register(&Rule{
		ID: "C04-a", Template: "T6 taint → sink (position from an empty side)",
		Doc: "An empty table on either side cannot crash a diff: in pkg/diff a position computed as len(x)-1 on a path that has not established len(x) > 0 (so it is -1 for an empty table index) — followed through arithmetic, function results and arguments inside the package — never reaches an index expression, a slice bound or an allocation size unless a comparison has ruled the negative value out first.",
		Min: 1,
		Run: func(p *Program, r *RuleResult) error {
			if _, err := p.Func("pkg/diff.DiffTables"); err != nil {
				return err
			}
			var fns []*ssa.Function
			for _, fn := range scopeC04(p) {
				fns = append(fns, fn)
			}
			r.Analysed = len(fns)
			inPkg := map[*ssa.Function]bool{}
			for _, fn := range fns {
				inPkg[fn] = true
			}
			marked := map[*ssa.Function]map[ssa.Value]negMark{}
			mark := func(fn *ssa.Function, v ssa.Value, why string) bool {
				if marked[fn] == nil {
					marked[fn] = map[ssa.Value]negMark{}
				}
				if _, ok := marked[fn][v]; ok {
					return false
				}
				marked[fn][v] = negMark{why}
				return true
			}
			nSources := 0
			// sources
			for _, fn := range fns {
				for _, b := range fn.Blocks {
					for _, in := range b.Instrs {
						bo, ok := in.(*ssa.BinOp)
						if !ok || bo.Op != token.SUB {
							continue
						}
						if k, ok := constInt(bo.Y); !ok || k != 1 {
							continue
						}
						n := bo.X
						x := lenOf(n)
						if x == nil {
							// n := len(x) held in a variable: a φ-free value whose definition is a len call
							continue
						}
						nSources++
						cut := mkCut(nonEmptyEdges(fn, n))
						if _, reach := reachAfter(fn, nil, bo, cut, nil); reach {
							mark(fn, bo, fmt.Sprintf("len(%s)-1 at %s with no proof that it is non-empty", x.Name(), p.Rel(bo.Pos())))
						}
					}
				}
			}
			// propagation to a fixed point
			for changed, round := true, 0; changed && round < 10; round++ {
				changed = false
				for _, fn := range fns {
					M := marked[fn]
					if len(M) == 0 {
						continue
					}
					for _, b := range fn.Blocks {
						for _, in := range b.Instrs {
							switch x := in.(type) {
							case *ssa.Phi:
								for _, e := range x.Edges {
									if m, ok := M[e]; ok && mark(fn, x, m.why) {
										changed = true
									}
								}
							case *ssa.Convert:
								if m, ok := M[x.X]; ok && mark(fn, x, m.why) {
									changed = true
								}
							case *ssa.ChangeType:
								if m, ok := M[x.X]; ok && mark(fn, x, m.why) {
									changed = true
								}
							case *ssa.BinOp:
								if x.Op == token.ADD || x.Op == token.SUB {
									for _, o := range []ssa.Value{x.X, x.Y} {
										if m, ok := M[o]; ok && mark(fn, x, m.why) {
											changed = true
										}
									}
								}
							case *ssa.Return:
								for i, res := range x.Results {
									m, ok := M[res]
									if !ok {
										continue
									}
									// callers inside the package
									if node := p.CG.Nodes[fn]; node != nil {
										for _, e := range node.In {
											cf := e.Caller.Func
											call, isCall := e.Site.(*ssa.Call)
											if !inPkg[cf] || !isCall {
												continue
											}
											if fn.Signature.Results().Len() == 1 {
												if mark(cf, call, m.why+" → result of "+funcName(fn)) {
													changed = true
												}
											} else {
												for _, ref := range *call.Referrers() {
													if ex, ok := ref.(*ssa.Extract); ok && ex.Index == i {
														if mark(cf, ex, m.why+" → result of "+funcName(fn)) {
															changed = true
														}
													}
												}
											}
										}
									}
								}
							case ssa.CallInstruction:
								sc := x.Common().StaticCallee()
								if sc == nil || !inPkg[sc] {
									continue
								}
								for ai, a := range x.Common().Args {
									if m, ok := M[a]; ok && ai < len(sc.Params) {
										if mark(sc, sc.Params[ai], m.why+" → argument of "+funcName(sc)) {
											changed = true
										}
									}
								}
							}
						}
					}
				}
			}
			// sinks
			nBad := 0
			var fkeys []*ssa.Function
			for fn := range marked {
				fkeys = append(fkeys, fn)
			}
			sort.Slice(fkeys, func(i, j int) bool { return fkeys[i].String() < fkeys[j].String() })
			for _, fn := range fkeys {
				M := marked[fn]
				n := 0
				for _, b := range fn.Blocks {
					for _, in := range b.Instrs {
						var ops []ssa.Value
						var kind string
						switch x := in.(type) {
						case *ssa.IndexAddr:
							ops, kind = []ssa.Value{x.Index}, "index"
						case *ssa.Index:
							ops, kind = []ssa.Value{x.Index}, "index"
						case *ssa.Slice:
							ops, kind = []ssa.Value{x.Low, x.High, x.Max}, "slice bound"
						case *ssa.MakeSlice:
							ops, kind = []ssa.Value{x.Len, x.Cap}, "allocation size"
						default:
							continue
						}
						for _, o := range ops {
							if o == nil {
								continue
							}
							m, ok := M[o]
							if !ok {
								if m, ok = M[stripConv(o)]; !ok {
									continue
								}
							}
							// a lower-bound test of the value (or of what it was computed from) on the way
							var lower []edge
							for v := range M {
								lower = append(lower, lowerBoundEdges(fn, v)...)
							}
							key := fmt.Sprintf("%s|%s#%d", funcName(fn), kind, n)
							n++
							if _, reach := reachAfter(fn, nil, in, mkCut(lower), nil); reach {
								nBad++
								r.bad(key, p.Rel(in.Pos()), "a position that is -1 for an empty table is not used as "+kind, m.why+"; no test rules the negative value out before this use")
							} else {
								r.ok(key, p.Rel(in.Pos()), "a position that is -1 for an empty table is not used as "+kind)
							}
						}
					}
				}
			}
			r.note("len(x)-1 expressions in pkg/diff: %d; functions reached by a possibly negative position: %d", nSources, len(marked))
			if nBad == 0 {
				r.ok("pkg/diff|empty-side-positions", "", "no possibly negative position derived from an empty side reaches an index, slice bound or allocation size")
			}
			return nil
		},
	})
}

var _ = types.Typ

// scopeC04: pkg/diff; with WRGLCHECK_C04_ALL=1 (exploration only) every production function.
func scopeC04(p *Program) []*ssa.Function {
	if os.Getenv("WRGLCHECK_C04_ALL") == "1" {
		return p.ProdFuncs()
	}
	return p.FuncsInPkg("pkg/diff")
}

func init() {
	register(&Rule{
		ID: "C04-b", Template: "T10 agreement (the two passes of a diff are mirror images)",
		Doc: "Removed rows are found the way added rows are: (*Differ).diffRows walks the tables twice through iterateAndMatch; the second call's arguments are the first call's with every pair of sides swapped — for each argument position i whose value differs between the two calls there is a position j of the same type with second[i] = first[j] and second[j] = first[i], at least the store, table and table-index pairs are swapped, and every other argument is the same value. A half-swapped second pass (the other store with this side's table index, say) looks rows up in the wrong table: removals are missed or invented.",
		Min: 1,
		Run: func(p *Program, r *RuleResult) error {
			fn, passes, err := diffPasses(p)
			if err != nil {
				return err
			}
			r.Analysed = 1
			var calls []ssa.CallInstruction
			for _, dp := range passes {
				calls = append(calls, dp.call)
			}
			key := funcName(fn) + "|mirror"
			what := "the second pass is the first with the two sides swapped"
			if len(calls) != 2 {
				r.bad(key, p.Rel(fn.Pos()), what, fmt.Sprintf("diffRows makes %d calls of iterateAndMatch, not two", len(calls)))
				return nil
			}
			a, b := calls[0].Common().Args, calls[1].Common().Args
			if len(a) != len(b) {
				r.bad(key, p.Rel(fn.Pos()), what, "the two calls differ in their number of arguments")
				return nil
			}
			same := func(x, y ssa.Value) bool {
				if x == y || sameObject(x, y) || sameElem(x, y) {
					return true
				}
				// the two calls may sit in two methods of the Differ: compare receiver fields by name
				for _, hx := range []*ssa.Function{passes[0].holder, passes[1].holder} {
					for _, hy := range []*ssa.Function{passes[0].holder, passes[1].holder} {
						tx, ty := argToken(x, hx), argToken(y, hy)
						if strings.HasPrefix(tx, "recv.") && tx == ty {
							return true
						}
					}
				}
				return false
			}
			swapped, bad := 0, ""
			for i := range a {
				if _, isFn := a[i].Type().Underlying().(*types.Signature); isFn {
					continue // the two callbacks differ by design (C04-c)
				}
				if same(a[i], b[i]) {
					continue
				}
				found := false
				for j := range a {
					if j != i && types.Identical(a[i].Type(), a[j].Type()) && same(b[i], a[j]) && same(b[j], a[i]) {
						found = true
					}
				}
				if found {
					swapped++
				} else {
					bad = fmt.Sprintf("argument %d of the second call (%s) is neither the first call's value nor its partner's", i, p.Rel(calls[1].Pos()))
				}
			}
			// the callee's own pairing: parameters named x1 / x2 of one type are the two sides of x
			if callee := calls[1].Common().StaticCallee(); callee != nil && bad == "" {
				byBase := map[string][]int{}
				for i, prm := range callee.Params {
					name := strings.TrimRight(prm.Name(), "0123456789")
					if name != prm.Name() && i < len(a) {
						byBase[name+"|"+prm.Type().String()] = append(byBase[name+"|"+prm.Type().String()], i)
					}
				}
				var bases []string
				for k := range byBase {
					bases = append(bases, k)
				}
				sort.Strings(bases)
				for _, k := range bases {
					ij := byBase[k]
					if len(ij) != 2 {
						continue
					}
					i, j := ij[0], ij[1]
					if !(same(b[i], a[j]) && same(b[j], a[i])) || same(a[i], a[j]) {
						bad = fmt.Sprintf("the %s pair (arguments %d and %d) is not swapped in the second pass", strings.SplitN(k, "|", 2)[0], i, j)
					}
				}
			}
			switch {
			case bad != "":
				r.bad(key, p.Rel(calls[1].Pos()), what, bad)
			case swapped < 2:
				r.bad(key, p.Rel(calls[1].Pos()), what, "the second pass does not swap the two sides")
			default:
				r.okWhy(key, p.Rel(calls[1].Pos()), what, fmt.Sprintf("%d argument positions swapped pairwise, the rest identical", swapped))
			}
			return nil
		},
	})

	register(&Rule{
		ID: "C04-c", Template: "T4 permit-cut (the second pass reports only what the first could not see)",
		Doc: "No key is reported twice: the callback that diffRows hands to the second (swapped) pass sends a diff event only through the 'no matching row on the other side' edge (row2 == nil) — rows present on both sides were already reported, as modified or unchanged, by the first pass. Without the test every modified row appears once as modified and once as removed.",
		Min: 1,
		Run: func(p *Program, r *RuleResult) error {
			fn, passes, err := diffPasses(p)
			if err != nil {
				return err
			}
			r.Analysed = 1
			var calls []ssa.CallInstruction
			for _, dp := range passes {
				calls = append(calls, dp.call)
			}
			if len(calls) != 2 {
				return &AnchorError{"the two iterateAndMatch passes of diffRows"}
			}
			args := calls[1].Common().Args
			var cb *ssa.Function
			switch x := args[len(args)-1].(type) {
			case *ssa.MakeClosure:
				cb, _ = x.Fn.(*ssa.Function)
			case *ssa.Function:
				cb = x
			}
			key := funcName(fn) + "|second-pass-callback"
			what := "the second pass reports a row only when the other side has none"
			if cb == nil || len(cb.Params) < 3 {
				r.bad(key, p.Rel(calls[1].Pos()), what, "the callback of the second pass cannot be identified")
				return nil
			}
			// the "other side's row" parameter: third parameter (pk, row1, row2, …)
			other := cb.Params[2]
			var permits []edge
			for _, b := range cb.Blocks {
				if len(b.Instrs) == 0 {
					continue
				}
				if ifi, ok := b.Instrs[len(b.Instrs)-1].(*ssa.If); ok {
					if s, ok := nilTestEdge(ifi, map[ssa.Value]bool{other: true}); ok {
						permits = append(permits, edge{b, s})
					}
				}
			}
			n, bad := 0, ""
			for _, b := range cb.Blocks {
				for _, in := range b.Instrs {
					snd, ok := in.(*ssa.Send)
					if !ok {
						continue
					}
					n++
					if path, reach := reachAfter(cb, nil, snd, mkCut(permits), nil); reach {
						bad = fmtPath("a diff event is sent from the second pass without the other side's row having been found nil", path)
					}
				}
			}
			switch {
			case bad != "":
				r.bad(key, p.Rel(cb.Pos()), what, bad)
			case n == 0:
				r.bad(key, p.Rel(cb.Pos()), what, "the second pass never reports anything (removed rows are lost)")
			default:
				r.ok(key, p.Rel(cb.Pos()), what)
			}
			return nil
		},
	})
}
