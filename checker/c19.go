package main

import (
	"fmt"
	"go/token"
	"go/types"
	"strings"

	"golang.org/x/tools/go/ssa"
)

// ---- C19-a: one-sided lexicographic comparison ----

type cmpDesc struct {
	threeWay ssa.Value // result of bytes.Compare / strings.Compare, or nil
	x, y     ssa.Value
	ifi      *ssa.If
}

func isOrdered(op token.Token) bool {
	return op == token.LSS || op == token.GTR || op == token.LEQ || op == token.GEQ
}

func threeWayCall(v ssa.Value) (*ssa.Call, bool) {
	c, ok := v.(*ssa.Call)
	if !ok {
		return nil, false
	}
	f := calleeFunc(c)
	if f == nil || f.Pkg() == nil || f.Name() != "Compare" {
		return nil, false
	}
	if p := f.Pkg().Path(); p != "bytes" && p != "strings" {
		return nil, false
	}
	return c, true
}

// describeCmp: the comparison an If performs, if it is a comparison of two values.
func describeCmp(ifi *ssa.If) (cmpDesc, token.Token, bool) {
	cond := ifi.Cond
	for {
		if u, ok := cond.(*ssa.UnOp); ok && u.Op == token.NOT {
			cond = u.X
			continue
		}
		break
	}
	bo, ok := cond.(*ssa.BinOp)
	if !ok {
		return cmpDesc{}, 0, false
	}
	switch bo.Op {
	case token.LSS, token.GTR, token.LEQ, token.GEQ, token.EQL, token.NEQ:
	default:
		return cmpDesc{}, 0, false
	}
	if c, ok := threeWayCall(bo.X); ok {
		if _, isConst := bo.Y.(*ssa.Const); isConst {
			return cmpDesc{threeWay: c, x: c.Call.Args[0], y: c.Call.Args[1], ifi: ifi}, bo.Op, true
		}
	}
	if c, ok := threeWayCall(bo.Y); ok {
		if _, isConst := bo.X.(*ssa.Const); isConst {
			return cmpDesc{threeWay: c, x: c.Call.Args[0], y: c.Call.Args[1], ifi: ifi}, bo.Op, true
		}
	}
	return cmpDesc{x: bo.X, y: bo.Y, ifi: ifi}, bo.Op, true
}

// sameElem: two values denote the same element expression (identical value, or
// loads of a[i] with the same base and the same index value, or calls of the same
// function on the same arguments).
func sameElem(a, b ssa.Value) bool {
	a, b = stripConv(a), stripConv(b)
	if a == b {
		return true
	}
	ua, ok1 := a.(*ssa.UnOp)
	ub, ok2 := b.(*ssa.UnOp)
	if ok1 && ok2 && ua.Op == token.MUL && ub.Op == token.MUL {
		ia, ok1 := ua.X.(*ssa.IndexAddr)
		ib, ok2 := ub.X.(*ssa.IndexAddr)
		if ok1 && ok2 {
			return sameIndexVal(ia.Index, ib.Index) && (sameElem(ia.X, ib.X) || sameObject(ia.X, ib.X))
		}
		return sameAddr(ua.X, ub.X)
	}
	xa, ok1 := a.(*ssa.Index)
	xb, ok2 := b.(*ssa.Index)
	if ok1 && ok2 {
		return sameIndexVal(xa.Index, xb.Index) && sameElem(xa.X, xb.X)
	}
	ca, ok1 := a.(*ssa.Call)
	cb, ok2 := b.(*ssa.Call)
	if ok1 && ok2 && calleeFunc(ca) != nil && calleeFunc(ca) == calleeFunc(cb) && len(ca.Call.Args) == len(cb.Call.Args) {
		for i := range ca.Call.Args {
			if !sameElem(ca.Call.Args[i], cb.Call.Args[i]) {
				return false
			}
		}
		return true
	}
	// m[k] read twice
	la, ok1 := a.(*ssa.Lookup)
	lb, ok2 := b.(*ssa.Lookup)
	if ok1 && ok2 && !la.CommaOk && !lb.CommaOk {
		return (la.X == lb.X || sameObject(la.X, lb.X)) && (la.Index == lb.Index || sameElem(la.Index, lb.Index))
	}
	return false
}

func sameIndexVal(a, b ssa.Value) bool {
	a, b = stripConv(a), stripConv(b)
	if a == b {
		return true
	}
	ca, ok1 := a.(*ssa.Const)
	cb, ok2 := b.(*ssa.Const)
	if ok1 && ok2 {
		x, okx := constInt(ca)
		y, oky := constInt(cb)
		return okx && oky && x == y
	}
	return sameElem(a, b)
}

func samePair(a, b cmpDesc) bool {
	if a.threeWay != nil && b.threeWay != nil {
		if a.threeWay == b.threeWay {
			return true
		}
	}
	return (sameElem(a.x, b.x) && sameElem(a.y, b.y)) || (sameElem(a.x, b.y) && sameElem(a.y, b.x))
}

// loopVariantIndex: an index value used in v's element access that derives from
// a φ inside a loop; returns the φ's block (the loop header).
func elemIndexPhi(v ssa.Value) map[*ssa.BasicBlock]bool {
	found := map[*ssa.BasicBlock]bool{}
	seen := map[ssa.Value]bool{}
	var idxs []ssa.Value
	var collect func(x ssa.Value, d int)
	collect = func(x ssa.Value, d int) {
		if x == nil || seen[x] || d > 12 {
			return
		}
		seen[x] = true
		switch y := stripConv(x).(type) {
		case *ssa.UnOp:
			collect(y.X, d+1)
		case *ssa.IndexAddr:
			idxs = append(idxs, y.Index)
			collect(y.X, d+1)
		case *ssa.Index:
			idxs = append(idxs, y.Index)
			collect(y.X, d+1)
		case *ssa.Call:
			for _, a := range y.Call.Args {
				idxs = append(idxs, a)
			}
		case *ssa.Slice:
			collect(y.X, d+1)
		}
	}
	collect(v, 0)
	for _, ix := range idxs {
		for x := range backward(ix, nil) {
			if ph, ok := x.(*ssa.Phi); ok && inLoop(ph.Block()) {
				found[ph.Block()] = true
			}
		}
	}
	return found
}

func init() {
	register(&Rule{
		ID: "C19-a", Template: "T10 contradiction (one-sided comparison)",
		Doc: "A loop that compares two rows position by position and decides on `a[u] < b[u]` must also distinguish `a[u] > b[u]` (or inequality) on the same operands before moving to the next position; otherwise a later key column overrides an earlier one and the k-way merge emits rows out of order for composite keys.",
		Min: 6,
		Run: func(p *Program, r *RuleResult) error {
			if _, err := p.Func("pkg/sorter.(*Sorter).SortedRows"); err != nil {
				return err
			}
			fns := p.FuncsInPkg("pkg/sorter", "pkg/objects", "pkg/index", "pkg/slice", "pkg/merge", "pkg/diff")
			r.Analysed = len(fns)
			for _, fn := range fns {
				var descs []cmpDesc
				ops := map[*ssa.If]token.Token{}
				for _, b := range fn.Blocks {
					if len(b.Instrs) == 0 {
						continue
					}
					if ifi, ok := b.Instrs[len(b.Instrs)-1].(*ssa.If); ok {
						if d, op, ok := describeCmp(ifi); ok {
							descs = append(descs, d)
							ops[ifi] = op
						}
					}
				}
				n := 0
				for _, d := range descs {
					op := ops[d.ifi]
					if !isOrdered(op) && !(d.threeWay != nil) {
						continue
					}
					if d.threeWay == nil && !isOrdered(op) {
						continue
					}
					if !inLoop(d.ifi.Block()) {
						continue
					}
					// both operands must be elements selected by a loop-variant index
					phx, phy := elemIndexPhi(d.x), elemIndexPhi(d.y)
					var header *ssa.BasicBlock
					for hb := range phx {
						if phy[hb] && (header == nil || hb.Index > header.Index) {
							header = hb // innermost common loop (inner loops come later in block order)
						}
					}
					if header == nil {
						// two cells taken from two different rows at one and the same position that no
						// loop advances: the rows are ordered by that one column (round 7, C04-r7bm2 — a
						// position loop whose body always leaves it has no induction variable left)
						if ex, ey := elemOfStrings(d.x), elemOfStrings(d.y); ex != nil && ey != nil && isOrdered(op) && d.threeWay == nil &&
							sameIndexVal(ex.Index, ey.Index) && !sameElem(ex.X, ey.X) && !sameObject(ex.X, ey.X) && len(elemIndexPhi(d.x)) > 0 {
							key := fmt.Sprintf("%s|single-position#%d", funcName(fn), n)
							n++
							r.bad(key, p.Rel(d.ifi.Cond.Pos()), "position-wise row comparison moves on to the next position when this one is equal", "two rows are ordered by the cells at one fixed position, inside a search loop and outside any loop over the positions: equal leading columns are taken for a decision")
						}
						continue
					}
					// comparing the induction variable itself (i < n) is not a row comparison
					if _, isPhi := stripConv(d.x).(*ssa.Phi); isPhi {
						continue
					}
					if _, isPhi := stripConv(d.y).(*ssa.Phi); isPhi {
						continue
					}
					key := fmt.Sprintf("%s|lexicographic-step#%d", funcName(fn), n)
					n++
					what := "position-wise row comparison distinguishes both < and > before advancing to the next position"
					blockers := map[ssa.Instruction]bool{}
					for _, o := range descs {
						if o.ifi != d.ifi && samePair(d, o) {
							blockers[o.ifi] = true
						}
					}
					if len(header.Instrs) == 0 {
						continue
					}
					target := header.Instrs[0]
					// only paths that stay inside this loop count as "advancing to the next position"
					exits := loopExitEdges(header)
					// a position loop that no outcome of the comparison ever continues looks at the first
					// position only: equality there must move on to the next column (round 7, C04-r7bm2)
					if _, again := reachAfter(fn, d.ifi, target, exits, nil); !again {
						r.bad(key, p.Rel(d.ifi.Cond.Pos()), "position-wise row comparison moves on to the next position when this one is equal", "no outcome of this comparison leads back into the loop over the positions: keys are ordered by their first column only, equal leading columns are taken for a decision")
						continue
					}
					// a partner comparison earlier in the same iteration also discharges
					if _, reach := reachAfter(fn, target, d.ifi, exits, blockers); !reach && len(blockers) > 0 {
						r.okWhy(key, p.Rel(d.ifi.Cond.Pos()), what, "the same operands were already compared earlier in the iteration")
						continue
					}
					if path, reach := reachAfter(fn, d.ifi, target, exits, blockers); reach {
						r.bad(key, p.Rel(d.ifi.Cond.Pos()), what, fmtPath("after the one-sided test the loop advances to the next position without comparing the same operands the other way", path))
					} else {
						r.ok(key, p.Rel(d.ifi.Cond.Pos()), what)
					}
				}
			}
			return nil
		},
	})
}

var _ = types.Typ

// loopExitEdges: the CFG edges that leave the natural loop of header.
func loopExitEdges(header *ssa.BasicBlock) cutSet {
	body := loopBody(header)
	cut := cutSet{}
	for b := range body {
		for i, s := range b.Succs {
			if !body[s] {
				cut[edge{b, i}] = true
			}
		}
	}
	return cut
}

// loopBody: the blocks of the natural loop of header.
func loopBody(header *ssa.BasicBlock) map[*ssa.BasicBlock]bool {
	body := map[*ssa.BasicBlock]bool{header: true}
	var stack []*ssa.BasicBlock
	for _, p := range header.Preds {
		if header.Dominates(p) {
			if !body[p] {
				body[p] = true
				stack = append(stack, p)
			}
		}
	}
	for len(stack) > 0 {
		x := stack[len(stack)-1]
		stack = stack[:len(stack)-1]
		for _, p := range x.Preds {
			if !body[p] {
				body[p] = true
				stack = append(stack, p)
			}
		}
	}
	return body
}

// ---- C19-b: key extracted in the layout its positions were computed for ----

func init() {
	register(&Rule{
		ID: "C19-b", Template: "T10 layout typestate",
		Doc: "In pkg/sorter an index vector that holds pre-removal column positions (Sorter.PK, the result of pkIndices()) is never applied, unchanged, to a row that has already passed column removal (StrListEditor.RemoveFrom / removeCols): with a removed column left of the key, de-duplication and block keys would use the wrong column.",
		Min: 2,
		Run: func(p *Program, r *RuleResult) error {
			removers, err := p.MustFuncs("pkg/objects.(*StrListEditor).RemoveFrom", "pkg/sorter.(*Sorter).removeCols")
			if err != nil {
				return err
			}
			pkInd, err := p.MustFuncs("pkg/sorter.(*Sorter).pkIndices")
			if err != nil {
				return err
			}
			pkField, err := p.Field("pkg/sorter.Sorter.PK")
			if err != nil {
				return err
			}
			fns := p.FuncsInPkg("pkg/sorter")
			r.Analysed = len(fns)
			// projected keys: what slice.CopyValuesFromIndices filled / slice.IndicesToValues returned is
			// already in key order; key positions of the full row do not apply to it any more
			projectors, err := p.MustFuncs("pkg/slice.CopyValuesFromIndices", "pkg/slice.IndicesToValues")
			if err != nil {
				return err
			}
			projFields := map[*types.Var]bool{}
			projVals := map[ssa.Value]bool{}
			for _, fn := range fns {
				for _, c := range callsTo(fn, projectors) {
					args := c.Common().Args
					if calleeFunc(c).Name() == "CopyValuesFromIndices" && len(args) >= 2 {
						d := stripConv(args[1])
						projVals[d] = true
						if u, ok := d.(*ssa.UnOp); ok && u.Op == token.MUL {
							if fa, ok := u.X.(*ssa.FieldAddr); ok {
								projFields[structField(fa.X.Type(), fa.Field)] = true
							}
						}
					} else if v, ok := c.(*ssa.Call); ok {
						projVals[v] = true
					}
				}
			}
			isProjected := func(v ssa.Value) bool {
				v = stripConv(v)
				if projVals[v] {
					return true
				}
				if u, ok := v.(*ssa.UnOp); ok && u.Op == token.MUL {
					if fa, ok := u.X.(*ssa.FieldAddr); ok && projFields[structField(fa.X.Type(), fa.Field)] {
						return true
					}
				}
				return false
			}
			for _, fn := range fns {
				// rows after removal
				var rem []ssa.Value
				for _, c := range callsTo(fn, removers) {
					if v, ok := c.(*ssa.Call); ok {
						rem = append(rem, v)
					}
				}
				removed := forward(rem, fwdOpts{throughCalls: true, noBinOp: true, throughIndex: false})
				// the remover's own argument is not "removed" before the call; forward() only follows results
				isPre := func(v ssa.Value) bool {
					v = stripConv(v)
					switch x := v.(type) {
					case *ssa.Call:
						if f := calleeFunc(x); f != nil && pkInd[f] {
							return true
						}
					case *ssa.UnOp:
						if x.Op != token.MUL {
							return false
						}
						if fa, ok := x.X.(*ssa.FieldAddr); ok && structField(fa.X.Type(), fa.Field) == pkField {
							return true
						}
						if cell := cellOf(x.X); cell != nil {
							for _, st := range cellStores(cell) {
								if c, ok := stripConv(st.Val).(*ssa.Call); ok {
									if f := calleeFunc(c); f != nil && pkInd[f] {
										return true
									}
								}
								if u, ok := stripConv(st.Val).(*ssa.UnOp); ok && u.Op == token.MUL {
									if fa, ok := u.X.(*ssa.FieldAddr); ok && structField(fa.X.Type(), fa.Field) == pkField {
										return true
									}
								}
							}
						}
					}
					return false
				}
				n := 0
				eachCall(fn, func(c ssa.CallInstruction) {
					if f := calleeFunc(c); f != nil && removers[f] {
						return
					}
					args := c.Common().Args
					var rowArg, vecArg, projArg ssa.Value
					isProjector := calleeFunc(c) != nil && projectors[calleeFunc(c)]
					for ai, a := range args {
						if removed[a] {
							rowArg = a
						}
						if isPre(a) {
							vecArg = a
						}
						if isProjected(a) && isRowLike(a.Type()) && !(isProjector && ai != 0) {
							projArg = a
						}
					}
					if vecArg == nil {
						return
					}
					// every application of a pre-removal vector to a row is an obligation
					hasRow := false
					for _, a := range args {
						if a != vecArg && (isRowLike(a.Type())) {
							hasRow = true
						}
					}
					if !hasRow {
						return
					}
					key := fmt.Sprintf("%s|apply-pk-positions#%d", funcName(fn), n)
					n++
					what := "pre-removal key positions are applied to a row that still has all its columns"
					if rowArg != nil {
						r.bad(key, p.Rel(c.Pos()), what, "the row argument has already passed column removal while the index vector still holds pre-removal positions")
					} else if projArg != nil {
						r.bad(key, p.Rel(c.Pos()), what, "the row argument is a key that was already extracted with these positions (filled by slice.CopyValuesFromIndices / IndicesToValues): applying the positions of the full row to it reads the wrong cells or runs past its end")
					} else {
						r.ok(key, p.Rel(c.Pos()), what)
					}
				})
			}
			return nil
		},
	})

	register(&Rule{
		ID: "C19-d", Template: "pairing (create / cleanup)",
		Doc: "Every spill file the sorter creates (call of writeChunk in AddRow) is followed on the success path by registering a cleanup closure that both closes and removes that file, Sorter.Close calls every registered closure, and no function of pkg/sorter truncates or replaces the list of cleanups without first running all of them (Reset on a sorter that has spilled).",
		Min: 3,
		Run: func(p *Program, r *RuleResult) error {
			wc, err := p.MustFuncs("pkg/sorter.writeChunk")
			if err != nil {
				return err
			}
			cleanups, err := p.Field("pkg/sorter.Sorter.cleanups")
			if err != nil {
				return err
			}
			closeFn, err := p.SSAFunc("pkg/sorter.(*Sorter).Close")
			if err != nil {
				return err
			}
			fns := p.FuncsInPkg("pkg/sorter")
			r.Analysed = len(fns)
			for _, fn := range fns {
				for _, c := range callsTo(fn, wc) {
					call, ok := c.(*ssa.Call)
					if !ok {
						continue
					}
					key := callKey(fn, c)
					what := "spill file gets a close+remove cleanup registered on the success path"
					var file ssa.Value
					for _, ref := range *call.Referrers() {
						if ex, ok := ref.(*ssa.Extract); ok && ex.Index == 0 {
							file = ex
						}
					}
					if file == nil {
						r.bad(key, p.Rel(c.Pos()), what, "the file result is discarded")
						continue
					}
					// stores into s.cleanups after the call
					var regs []*ssa.Store
					for _, b := range fn.Blocks {
						for _, in := range b.Instrs {
							if st, ok := in.(*ssa.Store); ok {
								if fa, ok := st.Addr.(*ssa.FieldAddr); ok && structField(fa.X.Type(), fa.Field) == cleanups {
									regs = append(regs, st)
								}
							}
						}
					}
					okReg := false
					var why string
					for _, st := range regs {
						// the appended closure must capture the file and call Close and os.Remove
						cl := appendedClosure(st.Val)
						if cl == nil {
							why = "the value stored into cleanups is not an append of a closure"
							continue
						}
						captures := false
						for _, bd := range cl.Bindings {
							if bd == file {
								captures = true
							}
							if al, ok := bd.(*ssa.Alloc); ok {
								for _, s2 := range *al.Referrers() {
									if x, ok := s2.(*ssa.Store); ok && x.Val == file {
										captures = true
									}
								}
							}
						}
						cf := cl.Fn.(*ssa.Function)
						hasClose, hasRemove := false, false
						// the closure itself or a helper of the package it delegates to
						var scanCalls func(f *ssa.Function, depth int)
						scanCalls = func(f *ssa.Function, depth int) {
							eachCall(f, func(ci ssa.CallInstruction) {
								if fo := calleeFunc(ci); fo != nil {
									if fo.FullName() == "(*os.File).Close" {
										hasClose = true
									}
									if fo.FullName() == "os.Remove" {
										hasRemove = true
									}
								}
								if sc := ci.Common().StaticCallee(); sc != nil && depth > 0 && fnPkgPath(sc) == fnPkgPath(cf) && len(sc.Blocks) > 0 {
									scanCalls(sc, depth-1)
								}
							})
						}
						scanCalls(cf, 2)
						if !captures || !hasClose || !hasRemove {
							why = fmt.Sprintf("cleanup closure: captures file=%v closes=%v removes=%v", captures, hasClose, hasRemove)
							continue
						}
						// the file is removed on every path on which the closure reports success
						// (directly or through a helper that does so on all of its own success paths)
						rm, _ := p.MustFuncs()
						rm = map[*types.Func]bool{}
						for _, pkg := range p.SSA.AllPackages() {
							if pkg.Pkg != nil && pkg.Pkg.Path() == "os" {
								if fo, ok := pkg.Pkg.Scope().Lookup("Remove").(*types.Func); ok {
									rm[fo] = true
								}
							}
						}
						skips := !newSuccSummary(p, rm).wrapper(cf, wrapperDepth)
						if skips {
							why = "the cleanup closure can report success without having removed the spill file (an error of Close answered with `return nil` leaves the file on disk)"
							continue
						}
						// every success return after the call passes the registration
						bad := false
						for _, ret := range returnsOf(fn) {
							ei := errorResultIndex(fn.Signature)
							if v := retVal(ret, ei); v != nil && (definitelyNonNilError(v) || nonNilByGuard(fn, ret, v)) {
								continue
							}
							if _, reach := reachAfter(fn, call, ret, mkCut(successEdgesFail(fn, call)), map[ssa.Instruction]bool{st: true}); reach {
								bad = true
								why = "a success return is reachable after writeChunk without registering the cleanup"
							}
						}
						if !bad {
							okReg = true
						}
					}
					if len(regs) == 0 {
						why = "no store into Sorter.cleanups in " + funcName(fn)
					}
					if okReg {
						r.ok(key, p.Rel(c.Pos()), what)
					} else {
						r.bad(key, p.Rel(c.Pos()), what, why)
					}
				}
			}
			// Close runs every registered closure
			key := funcName(closeFn) + "|runs-cleanups"
			what := "Sorter.Close calls every closure registered in cleanups"
			ranges := false
			for _, b := range closeFn.Blocks {
				for _, in := range b.Instrs {
					if c, ok := in.(*ssa.Call); ok && !c.Call.IsInvoke() && c.Call.StaticCallee() == nil {
						if derivedFromField(c.Call.Value, cleanups) && inLoop(b) {
							ranges = true
						}
					}
				}
			}
			if ranges {
				r.ok(key, p.Rel(closeFn.Pos()), what)
			} else {
				r.bad(key, p.Rel(closeFn.Pos()), what, "no loop in Close that calls the elements of Sorter.cleanups")
			}
			// nobody forgets a registered cleanup: a store that truncates or replaces
			// Sorter.cleanups is preceded, on every path, by a loop that runs them all
			for _, fn := range fns {
				n := 0
				for _, b := range fn.Blocks {
					for _, in := range b.Instrs {
						st, ok := in.(*ssa.Store)
						if !ok {
							continue
						}
						fa, ok := st.Addr.(*ssa.FieldAddr)
						if !ok || structField(fa.X.Type(), fa.Field) != cleanups {
							continue
						}
						if c, ok := st.Val.(*ssa.Call); ok && isBuiltin(c, "append") && len(c.Call.Args) > 0 && derivedFromField(c.Call.Args[0], cleanups) {
							continue // registration
						}
						key := fmt.Sprintf("%s|cleanups-dropped#%d", funcName(fn), n)
						n++
						what := "registered cleanups are run before the list is truncated or replaced"
						okRun := false
						why := "no loop that calls the elements of Sorter.cleanups precedes the store"
						for _, b2 := range fn.Blocks {
							for _, in2 := range b2.Instrs {
								c, ok := in2.(*ssa.Call)
								if !ok || c.Call.IsInvoke() || c.Call.StaticCallee() != nil || !derivedFromField(c.Call.Value, cleanups) {
									continue
								}
								h := enclosingLoop(b2)
								if h == nil {
									continue
								}
								early := false
								for e := range loopExitEdges(h) {
									if e.from != h {
										early = true
									}
								}
								if early {
									why = "the loop that runs the cleanups can be left early"
									continue
								}
								if _, reach := reachAfter(fn, nil, st, nil, map[ssa.Instruction]bool{h.Instrs[0]: true}); reach {
									why = "the store is reachable on a path that skips the loop running the cleanups"
									continue
								}
								okRun = true
							}
						}
						if okRun {
							r.ok(key, p.Rel(st.Pos()), what)
						} else {
							r.bad(key, p.Rel(st.Pos()), what, why+": the spill files registered so far stay open and on disk for good")
						}
					}
				}
			}
			return nil
		},
	})
}

func isRowLike(t types.Type) bool {
	sl, ok := t.Underlying().(*types.Slice)
	if !ok {
		return false
	}
	if b, ok := sl.Elem().Underlying().(*types.Basic); ok {
		return b.Kind() == types.String || b.Kind() == types.Byte || b.Kind() == types.Uint8
	}
	return false
}

// appendedClosure: v is append(xs, closure) — return the MakeClosure.
func appendedClosure(v ssa.Value) *ssa.MakeClosure {
	c, ok := v.(*ssa.Call)
	if !ok {
		return nil
	}
	if b, ok := c.Call.Value.(*ssa.Builtin); !ok || b.Name() != "append" || len(c.Call.Args) != 2 {
		return nil
	}
	// second arg is a slice of a varargs array holding the closure
	sl, ok := c.Call.Args[1].(*ssa.Slice)
	if !ok {
		return nil
	}
	al, ok := sl.X.(*ssa.Alloc)
	if !ok {
		return nil
	}
	for _, ref := range *al.Referrers() {
		if ia, ok := ref.(*ssa.IndexAddr); ok {
			for _, r2 := range *ia.Referrers() {
				if st, ok := r2.(*ssa.Store); ok {
					if mc, ok := st.Val.(*ssa.MakeClosure); ok {
						return mc
					}
					if ct, ok := st.Val.(*ssa.ChangeType); ok {
						if mc, ok := ct.X.(*ssa.MakeClosure); ok {
							return mc
						}
					}
				}
			}
		}
	}
	return nil
}

// successEdgesFail: the failure edges of the error test of call c (to cut, so that
// only the success continuation is explored).
func successEdgesFail(fn *ssa.Function, c *ssa.Call) []edge {
	var out []edge
	for _, e := range successEdges(fn, c) {
		out = append(out, edge{e.from, 1 - e.succ})
	}
	return out
}

// ---- C19-f: the de-duplication baseline is a real row before it is compared ----

func init() {
	register(&Rule{
		ID: "C19-f", Template: "typestate (use before initialisation of a comparison baseline)",
		Doc: "No row is dropped because it equals a placeholder: in pkg/sorter, where a key is compared for equality (slice.StringSliceEqual, directly or through a helper such as pkIsDifferent(cur, prev)) with a baseline that the same code refreshes with copy(baseline, …) — the 'previous key' of the duplicate filter, a local slice or a field of a filter object — the comparison is reachable only after the baseline was filled from a row, or under a 'have a previous row' flag (a local, a captured variable or a field) that is set only after such a fill. The first row is never compared against the freshly made all-empty slice, which equals a legal key made of empty strings.",
		Min: 2,
		Run: func(p *Program, r *RuleResult) error {
			eq, err := p.MustFuncs("pkg/slice.StringSliceEqual")
			if err != nil {
				return err
			}
			if _, err := p.SSAFunc("pkg/sorter.(*Sorter).SortedBlocks"); err != nil {
				return err
			}
			fns := p.FuncsInPkg("pkg/sorter")
			r.Analysed = len(fns)
			isCopyInto := func(in ssa.Instruction, dst ssa.Value) bool {
				call, ok := in.(*ssa.Call)
				if !ok {
					return false
				}
				bi, ok := call.Call.Value.(*ssa.Builtin)
				return ok && bi.Name() == "copy" && len(call.Call.Args) == 2 && sameObject(call.Call.Args[0], dst)
			}
			rootParam := func(fn *ssa.Function, v ssa.Value) int {
				v = stripConv(v)
				for i, prm := range fn.Params {
					if ssa.Value(prm) == v {
						return i
					}
				}
				return -1
			}
			type oblig struct {
				fn   *ssa.Function
				c    ssa.CallInstruction
				prev ssa.Value
			}
			var obs []oblig
			helpers := map[*ssa.Function]int{} // duplicate-test helper → index of its baseline parameter
			for _, fn := range fns {
				for _, c := range callsTo(fn, eq) {
					for _, a := range c.Common().Args {
						refreshed := false
						for _, b := range fn.Blocks {
							for _, in := range b.Instrs {
								if isCopyInto(in, a) {
									refreshed = true
								}
							}
						}
						if !refreshed {
							continue
						}
						if k := rootParam(fn, a); k >= 0 {
							helpers[fn] = k
						} else {
							obs = append(obs, oblig{fn, c, a})
						}
					}
				}
			}
			for _, fn := range fns {
				eachCall(fn, func(c ssa.CallInstruction) {
					if sc := c.Common().StaticCallee(); sc != nil {
						if k, ok := helpers[sc]; ok && k < len(c.Common().Args) {
							obs = append(obs, oblig{fn, c, c.Common().Args[k]})
						}
					}
				})
			}
			for _, o := range obs {
				fn, c, prev := o.fn, o.c, o.prev
				key := callKey(fn, c)
				what := "duplicate-key test runs only after the baseline holds a real row's key"
				// a filter method shared by k call sites stands for k duplicate tests
				if k := staticCallSites(p, fn); k > 1 {
					r.Shared += k - 1
				}
				writes := map[ssa.Instruction]bool{}
				for _, b := range fn.Blocks {
					for _, in := range b.Instrs {
						if isCopyInto(in, prev) {
							writes[in] = true
						}
					}
				}
				// a "have a previous row" flag that only becomes true after the baseline was
				// filled makes its true edge infeasible on paths that avoid the fill
				cut := cutSet{}
				for _, b := range fn.Blocks {
					if len(b.Instrs) == 0 {
						continue
					}
					ifi, ok := b.Instrs[len(b.Instrs)-1].(*ssa.If)
					if !ok {
						continue
					}
					cond, neg := ifi.Cond, false
					for {
						if u, ok := cond.(*ssa.UnOp); ok && u.Op == token.NOT {
							cond, neg = u.X, !neg
							continue
						}
						break
					}
					if flagTrueOnlyAfter(fn, cond, writes) || fieldFlagTrueOnlyAfter(p, fn, cond, writes) {
						if neg {
							cut[edge{b, 1}] = true
						} else {
							cut[edge{b, 0}] = true
						}
					}
				}
				// one baseline for the whole output: it is not picked per row (a field of
				// whichever run supplied the row, an element chosen by a varying index)
				perRow := false
				for x := range backward(pathOf(prev, nil).root, nil) {
					switch y := x.(type) {
					case *ssa.Phi:
						if enclosingLoop(y.Block()) != nil || isLoopHeader(y.Block()) {
							perRow = true
						}
					case *ssa.IndexAddr:
						if _, isConst := constInt(y.Index); !isConst {
							perRow = true
						}
					}
				}
				if perRow {
					r.bad(key, p.Rel(c.Pos()), what, "the baseline of the duplicate test is selected per row (it belongs to the run the row came from): equal keys that arrive from different runs — two spill files, or a spill file and the rows still in memory — are never compared with each other")
					continue
				}
				if path, reach := reachAfter(fn, nil, c, cut, writes); reach {
					r.bad(key, p.Rel(c.Pos()), what, fmtPath("the first row is compared against the placeholder baseline (a key made of empty strings equals it and the row is dropped)", path))
				} else {
					r.ok(key, p.Rel(c.Pos()), what)
				}
			}
			return nil
		},
	})
}

// fieldFlagTrueOnlyAfter: cond is a load of a bool field; every store of `true` into
// that field anywhere in the package is in fn and cannot be reached from fn's entry
// without passing one of `after`; the zero value (false) is what a new object has.
func fieldFlagTrueOnlyAfter(p *Program, fn *ssa.Function, cond ssa.Value, after map[ssa.Instruction]bool) bool {
	if len(after) == 0 {
		return false
	}
	u, ok := cond.(*ssa.UnOp)
	if !ok || u.Op != token.MUL {
		return false
	}
	fa, ok := u.X.(*ssa.FieldAddr)
	if !ok {
		return false
	}
	fld := structField(fa.X.Type(), fa.Field)
	if bt, ok := fld.Type().Underlying().(*types.Basic); !ok || bt.Kind() != types.Bool {
		return false
	}
	sawTrue := false
	for _, g := range p.FuncsInPkg(strings.TrimPrefix(fnPkgPath(fn), modPath+"/")) {
		for _, b := range g.Blocks {
			for _, in := range b.Instrs {
				st, ok := in.(*ssa.Store)
				if !ok {
					continue
				}
				fa2, ok := st.Addr.(*ssa.FieldAddr)
				if !ok || structField(fa2.X.Type(), fa2.Field) != fld {
					continue
				}
				c, ok := st.Val.(*ssa.Const)
				if !ok || c.Value == nil {
					return false
				}
				if c.Value.String() != "true" {
					continue
				}
				sawTrue = true
				if g != fn {
					return false
				}
				if _, reach := reachAfter(fn, nil, st, nil, after); reach {
					return false
				}
			}
		}
	}
	return sawTrue
}

// flagTrueOnlyAfter: cond is a bool built only from φs and constants, and every
// constant `true` that can flow into it is assigned in a block that cannot be
// reached from the function entry without passing one of `after`.
func flagTrueOnlyAfter(fn *ssa.Function, cond ssa.Value, after map[ssa.Instruction]bool) bool {
	if len(after) == 0 {
		return false
	}
	seen := map[ssa.Value]bool{}
	sawTrue := false
	var walk func(v ssa.Value) bool
	walk = func(v ssa.Value) bool {
		if seen[v] {
			return true
		}
		seen[v] = true
		switch x := v.(type) {
		case *ssa.Const:
			return x.Value != nil && (x.Value.String() == "true" || x.Value.String() == "false")
		case *ssa.Phi:
			for k, e := range x.Edges {
				if c, ok := e.(*ssa.Const); ok {
					if c.Value == nil {
						return false
					}
					if c.Value.String() == "true" {
						sawTrue = true
						pred := x.Block().Preds[k]
						if len(pred.Instrs) == 0 {
							return false
						}
						if _, reach := reachAfter(fn, nil, pred.Instrs[len(pred.Instrs)-1], nil, after); reach {
							return false
						}
					}
					continue
				}
				if !walk(e) {
					return false
				}
			}
			return true
		case *ssa.UnOp:
			// captured flag variable (closure cell): every stored value must qualify
			if x.Op == token.MUL {
				if cell := cellOf(x.X); cell != nil {
					for _, st := range cellStores(cell) {
						if c, ok := st.Val.(*ssa.Const); ok && c.Value != nil {
							if c.Value.String() == "true" {
								sawTrue = true
								if st.Parent() != fn {
									return false
								}
								if _, reach := reachAfter(fn, nil, st, nil, after); reach {
									return false
								}
							}
							continue
						}
						return false
					}
					return true
				}
			}
			return false
		}
		return false
	}
	return walk(cond) && sawTrue
}

func init() {
	register(&Rule{
		ID: "C19-i", Template: "T10 agreement (runs are sorted in the order the merge assumes)",
		Doc: "A run is sorted by the comparator the merge uses: every sort of rows in pkg/sorter (sort.Slice / sort.SliceStable / sort.Sort / sort.Stable applied to a [][]string, directly or through a sort.Interface wrapper) decides its order by calling objects.StringSliceIsLess — the same function the k-way merge of SortedRows uses, and the []string twin of StrList.LessThan used by SortedBlocks (their agreement is C19-a). A run sorted by any other order (a joined string key, a locale compare, only the first key column) is merged as if it were sorted canonically: rows come out of order as soon as something spills, and the table identifier depends on the run size.",
		Min: 1,
		Run: func(p *Program, r *RuleResult) error {
			canon, err := p.MustFuncs("pkg/objects.StringSliceIsLess")
			if err != nil {
				return err
			}
			if _, err := p.SSAFunc("pkg/sorter.SortRows"); err != nil {
				return err
			}
			fns := p.FuncsInPkg("pkg/sorter")
			r.Analysed = len(fns)
			isRows := func(t types.Type) bool {
				sl, ok := t.Underlying().(*types.Slice)
				if !ok {
					return false
				}
				in, ok := sl.Elem().Underlying().(*types.Slice)
				if !ok {
					return false
				}
				b, ok := in.Elem().Underlying().(*types.Basic)
				return ok && b.Kind() == types.String
			}
			var reaches func(f *ssa.Function, depth int) bool
			reaches = func(f *ssa.Function, depth int) bool {
				if f == nil || len(f.Blocks) == 0 {
					return false
				}
				found := false
				eachCall(f, func(c ssa.CallInstruction) {
					if cf := calleeFunc(c); cf != nil && canon[cf] {
						found = true
					} else if sc := c.Common().StaticCallee(); sc != nil && depth > 0 && isRepoPkgPath(fnPkgPath(sc)) && reaches(sc, depth-1) {
						found = true
					}
				})
				return found
			}
			n := 0
			for _, fn := range fns {
				eachCall(fn, func(c ssa.CallInstruction) {
					f := calleeFunc(c)
					if f == nil || f.Pkg() == nil || (f.Pkg().Path() != "sort" && f.Pkg().Path() != "slices") {
						return
					}
					args := c.Common().Args
					var less *ssa.Function
					sortsRows := false
					switch f.Name() {
					case "Slice", "SliceStable", "SortFunc", "SortStableFunc":
						if len(args) < 2 {
							return
						}
						x := args[0]
						if mi, ok := x.(*ssa.MakeInterface); ok {
							x = mi.X
						}
						sortsRows = isRows(x.Type())
						switch l := args[1].(type) {
						case *ssa.MakeClosure:
							less, _ = l.Fn.(*ssa.Function)
						case *ssa.Function:
							less = l
						}
					case "Sort", "Stable":
						if len(args) < 1 {
							return
						}
						mi, ok := args[0].(*ssa.MakeInterface)
						if !ok {
							return
						}
						t := mi.X.Type()
						// a wrapper type that carries rows: one of its fields (or itself) is a [][]string
						et := t
						if pt, ok := et.Underlying().(*types.Pointer); ok {
							et = pt.Elem()
						}
						if isRows(et) {
							sortsRows = true
						}
						if st, ok := et.Underlying().(*types.Struct); ok {
							for i := 0; i < st.NumFields(); i++ {
								if isRows(st.Field(i).Type()) {
									sortsRows = true
								}
							}
						}
						ms := p.SSA.MethodSets.MethodSet(t)
						if sel := ms.Lookup(nil, "Less"); sel != nil {
							less = p.SSA.MethodValue(sel)
						} else if named, ok := et.(*types.Named); ok {
							for i := 0; i < named.NumMethods(); i++ {
								if named.Method(i).Name() == "Less" {
									less = p.SSA.FuncValue(named.Method(i))
								}
							}
						}
					default:
						return
					}
					if !sortsRows {
						return
					}
					key := fmt.Sprintf("%s|sort-rows#%d", funcName(fn), n)
					n++
					what := "rows are sorted with the comparator the merge uses"
					if less != nil && reaches(less, 2) {
						r.ok(key, p.Rel(c.Pos()), what)
					} else {
						r.bad(key, p.Rel(c.Pos()), what, "the order of this sort is not decided by objects.StringSliceIsLess: a run sorted differently from what the k-way merge assumes comes out of order once something spills")
					}
				})
			}
			return nil
		},
	})
}

// elemOfStrings: v is a load of x[k] where x is a []string; returns the IndexAddr.
func elemOfStrings(v ssa.Value) *ssa.IndexAddr {
	u, ok := stripConv(v).(*ssa.UnOp)
	if !ok || u.Op != token.MUL {
		return nil
	}
	ia, ok := u.X.(*ssa.IndexAddr)
	if !ok {
		return nil
	}
	sl, ok := ia.X.Type().Underlying().(*types.Slice)
	if !ok {
		return nil
	}
	if b, ok := sl.Elem().Underlying().(*types.Basic); !ok || b.Info()&types.IsString == 0 {
		return nil
	}
	return ia
}
