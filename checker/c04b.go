package main

// C04-d, C04-e, C04-f: three more structural clauses of "diff reports exactly the rows
// added, removed and modified", written (round 7) from the code's shape before any seeded
// change for C04 had been seen.

import (
	"fmt"
	"go/token"
	"go/types"
	"sort"
	"strings"
	"unicode"

	"golang.org/x/tools/go/ssa"
)

// diffPasses returns the two iterateAndMatch calls of diffRows with, for each, the callback
// function and which Differ side (1 or 2; 0 unknown) the callback's first row parameter
// belongs to (taken from the `tbl1` argument of the call: a load of Differ.tbl1 / Differ.tbl2).
type diffPass struct {
	call   ssa.CallInstruction
	cb     *ssa.Function
	sideA  int
	holder *ssa.Function // the function the call sits in (diffRows or a helper it calls)
}

func diffPasses(p *Program) (*ssa.Function, []diffPass, error) {
	fn, err := p.SSAFunc("pkg/diff.(*Differ).diffRows")
	if err != nil {
		return nil, nil, err
	}
	iam, err := p.MustFuncs("pkg/diff.iterateAndMatch")
	if err != nil {
		return nil, nil, err
	}
	var out []diffPass
	// the passes of diffRows: its own calls of iterateAndMatch and those of the helpers of the
	// package it calls (a phase per method, refactoring A7-r1), in the order of diffRows' calls
	var collect func(f *ssa.Function, depth int)
	seen := map[*ssa.Function]bool{}
	collect = func(f *ssa.Function, depth int) {
		if seen[f] {
			return
		}
		seen[f] = true
		eachCall(f, func(c ssa.CallInstruction) {
			if fc := calleeFunc(c); fc != nil && iam[fc] {
				out = append(out, mkDiffPass(c, f))
				return
			}
			if sc := c.Common().StaticCallee(); sc != nil && depth > 0 && len(sc.Blocks) > 0 && fnPkgPath(sc) == fnPkgPath(fn) {
				collect(sc, depth-1)
			}
		})
	}
	collect(fn, 2)
	return fn, out, nil
}

func mkDiffPass(c ssa.CallInstruction, holder *ssa.Function) diffPass {
	args := c.Common().Args
	dp := diffPass{call: c, holder: holder}
	switch x := args[len(args)-1].(type) {
	case *ssa.MakeClosure:
		dp.cb, _ = x.Fn.(*ssa.Function)
	case *ssa.Function:
		dp.cb = x
	}
	// the first *objects.Table argument decides the orientation
	for _, a := range args {
		if !strings.HasSuffix(a.Type().String(), "objects.Table") {
			continue
		}
		if u, ok := stripConv(a).(*ssa.UnOp); ok && u.Op == token.MUL {
			if fa, ok := u.X.(*ssa.FieldAddr); ok {
				name := fieldNameOf(fa)
				switch {
				case strings.HasSuffix(name, "1"):
					dp.sideA = 1
				case strings.HasSuffix(name, "2"):
					dp.sideA = 2
				}
			}
		}
		break
	}
	return dp
}

// argToken names an argument so that the arguments of two calls in two methods of one receiver
// type can be compared: a load of a field of the method's receiver is that field.
func argToken(v ssa.Value, holder *ssa.Function) string {
	v = stripConv(v)
	if u, ok := v.(*ssa.UnOp); ok && u.Op == token.MUL {
		if fa, ok := u.X.(*ssa.FieldAddr); ok {
			base := fa.X
			if l, ok := base.(*ssa.UnOp); ok && l.Op == token.MUL {
				base = l.X // receiver captured by a closure
			}
			isRecv := false
			if holder != nil && holder.Signature.Recv() != nil && len(holder.Params) > 0 && base == ssa.Value(holder.Params[0]) {
				isRecv = true
			}
			if _, isFree := base.(*ssa.FreeVar); isFree {
				isRecv = true
			}
			// a receiver that a closure captures is spilled to a cell
			if al, ok := base.(*ssa.Alloc); ok && holder != nil && holder.Signature.Recv() != nil && len(holder.Params) > 0 {
				for _, st := range cellStores(al) {
					if st.Val == ssa.Value(holder.Params[0]) {
						isRecv = true
					}
				}
			}
			if isRecv {
				return "recv." + fieldNameOf(fa)
			}
		}
	}
	return fmt.Sprintf("%p", v)
}

func fieldNameOf(fa *ssa.FieldAddr) string {
	t := fa.X.Type().Underlying()
	if pt, ok := t.(*types.Pointer); ok {
		if st, ok := pt.Elem().Underlying().(*types.Struct); ok && fa.Field < st.NumFields() {
			return st.Field(fa.Field).Name()
		}
	}
	return ""
}

// cbSides maps the callback's parameters to sides: byte-slice parameters are (pk, A, B),
// integer parameters are (A, B) — the order iterateAndMatch's own signature gives them.
func cbSides(cb *ssa.Function) (pk *ssa.Parameter, side map[*ssa.Parameter]int) {
	side = map[*ssa.Parameter]int{}
	nb, ni := 0, 0
	for _, prm := range cb.Params {
		switch t := prm.Type().Underlying().(type) {
		case *types.Slice:
			if nb == 0 {
				pk = prm
			} else if nb <= 2 {
				side[prm] = nb // 1 = A, 2 = B
			}
			nb++
		case *types.Basic:
			if t.Info()&types.IsInteger != 0 {
				ni++
				if ni <= 2 {
					side[prm] = ni
				}
			}
		}
	}
	return
}

// rootParam follows conversions, re-slicings and single-valued φs back to a parameter.
func rootParam(v ssa.Value, depth int) *ssa.Parameter {
	if depth > 6 {
		return nil
	}
	switch x := v.(type) {
	case *ssa.Parameter:
		return x
	case *ssa.Convert:
		return rootParam(x.X, depth+1)
	case *ssa.ChangeType:
		return rootParam(x.X, depth+1)
	case *ssa.Slice:
		return rootParam(x.X, depth+1)
	case *ssa.Phi:
		var r *ssa.Parameter
		for _, e := range x.Edges {
			q := rootParam(e, depth+1)
			if q == nil || (r != nil && q != r) {
				return nil
			}
			r = q
		}
		return r
	}
	return nil
}

// diffLiterals: allocations of objects.Diff in fn with the values stored into their fields.
func diffLiterals(fn *ssa.Function) map[*ssa.Alloc]map[string]ssa.Value {
	out := map[*ssa.Alloc]map[string]ssa.Value{}
	for _, b := range fn.Blocks {
		for _, in := range b.Instrs {
			st, ok := in.(*ssa.Store)
			if !ok {
				continue
			}
			fa, ok := st.Addr.(*ssa.FieldAddr)
			if !ok {
				continue
			}
			al, ok := fa.X.(*ssa.Alloc)
			if !ok || !strings.HasSuffix(al.Type().String(), "objects.Diff") {
				continue
			}
			if out[al] == nil {
				out[al] = map[string]ssa.Value{}
			}
			out[al][fieldNameOf(fa)] = st.Val
		}
	}
	return out
}

func init() {
	register(&Rule{
		ID: "C04-d", Template: "T10 agreement (an event's fields come from the side they describe)",
		Doc: "Each event's offsets address the right rows: in the callbacks diffRows hands to its two passes, every objects.Diff that is built takes PK from the key parameter, Sum and Offset from the row and offset parameters of the Differ's first table, OldSum and OldOffset from those of its second table — which callback parameter is which table follows from the table argument of that pass (Differ.tbl1 / Differ.tbl2). A Sum paired with the other side's Offset, or a removed row reported as Sum, makes every consumer (merge, export of changes, the HTTP diff) fetch the wrong row. Values that are not plain (re-sliced, converted) parameters are not judged.",
		Min: 3,
		Run: func(p *Program, r *RuleResult) error {
			fn, passes, err := diffPasses(p)
			if err != nil {
				return err
			}
			r.Analysed = 1
			if len(passes) != 2 {
				return &AnchorError{"the two iterateAndMatch passes of diffRows"}
			}
			for pi, dp := range passes {
				if dp.cb == nil || dp.sideA == 0 {
					r.note("pass %d: callback or orientation not identified; not judged here (C04-b / C04-c look at the call)", pi)
					continue
				}
				r.Analysed++
				pk, side := cbSides(dp.cb)
				want := map[string]int{"Sum": 1, "Offset": 1, "OldSum": 2, "OldOffset": 2}
				lits := diffLiterals(dp.cb)
				n := 0
				for _, al := range sortedAllocs(lits) {
					fields := lits[al]
					n++
					key := fmt.Sprintf("%s|pass#%d|Diff#%s", funcName(fn), pi, litSig(fields))
					what := "fields of the event come from the table they describe"
					bad := ""
					for _, fname := range []string{"PK", "Sum", "Offset", "OldSum", "OldOffset"} {
						v, ok := fields[fname]
						if !ok {
							continue
						}
						rp := rootParam(v, 0)
						if rp == nil {
							continue
						}
						if fname == "PK" {
							if rp != pk {
								bad = fmt.Sprintf("PK is taken from parameter %s, not from the key parameter", rp.Name())
							}
							continue
						}
						s, ok := side[rp]
						if !ok {
							if rp == pk {
								bad = fmt.Sprintf("%s is taken from the key parameter", fname)
							}
							continue
						}
						// s is A(1)/B(2) of the callback; A is Differ side dp.sideA
						differSide := s
						if dp.sideA == 2 {
							differSide = 3 - s
						}
						if differSide != want[fname] {
							bad = fmt.Sprintf("%s is taken from parameter %s, which in this pass belongs to table %d of the Differ", fname, rp.Name(), differSide)
						}
					}
					if bad != "" {
						r.bad(key, p.Rel(al.Pos()), what, bad)
					} else {
						r.ok(key, p.Rel(al.Pos()), what)
					}
				}
				if n == 0 {
					r.note("pass %d: the callback builds no objects.Diff itself", pi)
				}
			}
			return nil
		},
	})

	register(&Rule{
		ID: "C04-e", Template: "T4 permit-cut (no event for identical rows)",
		Doc: "No event for identical rows: in the callback of the pass that reports rows present in both tables, an event carrying both Sum and OldSum is sent only through the 'not equal' outcome of a comparison of exactly the two row parameters (bytes.Equal, or == / != on their string conversions), or through a test of a configuration flag (a bool field of the Differ, a bool captured from diffRows: emitUnchangedRow, colsEqual). A comparison of anything else (a prefix, the same row twice, the key) does not count.",
		Min: 1,
		Run: func(p *Program, r *RuleResult) error {
			fn, passes, err := diffPasses(p)
			if err != nil {
				return err
			}
			r.Analysed = 1
			for pi, dp := range passes {
				if dp.cb == nil {
					continue
				}
				cb := dp.cb
				_, side := cbSides(cb)
				var rowA, rowB *ssa.Parameter
				for prm, s := range side {
					if _, ok := prm.Type().Underlying().(*types.Slice); ok {
						if s == 1 {
							rowA = prm
						} else {
							rowB = prm
						}
					}
				}
				if rowA == nil || rowB == nil {
					continue
				}
				exact := func(v ssa.Value) *ssa.Parameter {
					v = stripConv(v)
					if prm, ok := v.(*ssa.Parameter); ok {
						return prm
					}
					return nil
				}
				isPair := func(x, y ssa.Value) bool {
					a, b := exact(x), exact(y)
					return a != nil && b != nil && ((a == rowA && b == rowB) || (a == rowB && b == rowA))
				}
				var permits []edge
				flagIfs := map[*ssa.BasicBlock]bool{}
				for _, b := range cb.Blocks {
					if len(b.Instrs) == 0 {
						continue
					}
					ifi, ok := b.Instrs[len(b.Instrs)-1].(*ssa.If)
					if !ok {
						continue
					}
					cond, neg := ifi.Cond, false
					for {
						if u, ok := cond.(*ssa.UnOp); ok && u.Op == token.NOT {
							cond, neg = u.X, !neg
							continue
						}
						break
					}
					neqEdge := func(eqIsTrue bool) int {
						// edge index taken when the rows are NOT equal
						t := eqIsTrue
						if neg {
							t = !t
						}
						if t {
							return 1
						}
						return 0
					}
					switch x := cond.(type) {
					case *ssa.Call:
						if f := calleeFunc(x); f != nil && f.Pkg() != nil && f.Pkg().Path() == "bytes" && f.Name() == "Equal" && len(x.Call.Args) == 2 && isPair(x.Call.Args[0], x.Call.Args[1]) {
							permits = append(permits, edge{b, neqEdge(true)})
						}
					case *ssa.BinOp:
						if (x.Op == token.EQL || x.Op == token.NEQ) && isPair(x.X, x.Y) {
							permits = append(permits, edge{b, neqEdge(x.Op == token.EQL)})
						}
					case *ssa.UnOp:
						// a configuration flag: load of a captured bool or of a bool field. The edge
						// that by-passes every other kind of test is the flag's permit; the edge that
						// leads on to a comparison is not.
						if x.Op == token.MUL && isBoolType(x.Type()) {
							switch x.X.(type) {
							case *ssa.FreeVar, *ssa.FieldAddr:
								flagIfs[b] = true
							}
						}
					}
				}
				reachesOtherTest := func(start *ssa.BasicBlock) bool {
					seen := map[*ssa.BasicBlock]bool{start: true}
					q := []*ssa.BasicBlock{start}
					for len(q) > 0 {
						b := q[0]
						q = q[1:]
						if len(b.Instrs) > 0 {
							if _, ok := b.Instrs[len(b.Instrs)-1].(*ssa.If); ok && !flagIfs[b] {
								return true
							}
						}
						for _, s := range b.Succs {
							if !seen[s] {
								seen[s] = true
								q = append(q, s)
							}
						}
					}
					return false
				}
				for b := range flagIfs {
					for i, s := range b.Succs {
						if !reachesOtherTest(s) {
							permits = append(permits, edge{b, i})
						}
					}
				}
				lits := diffLiterals(cb)
				for _, b := range cb.Blocks {
					for _, in := range b.Instrs {
						snd, ok := in.(*ssa.Send)
						if !ok {
							continue
						}
						al, _ := snd.X.(*ssa.Alloc)
						f := lits[al]
						if f == nil || f["Sum"] == nil || f["OldSum"] == nil {
							continue
						}
						key := fmt.Sprintf("%s|pass#%d|send both-present", funcName(fn), pi)
						what := "an event for a row present in both tables needs the rows to differ (or a configuration flag)"
						if path, reach := reachAfter(cb, nil, snd, mkCut(permits), nil); reach {
							r.bad(key, p.Rel(snd.Pos()), what, fmtPath("the event is sent without the two row parameters having been found different", path))
						} else {
							r.ok(key, p.Rel(snd.Pos()), what)
						}
					}
				}
			}
			return nil
		},
	})

	register(&Rule{
		ID: "C04-f", Template: "T12 ownership (a cached window travels with its bounds)",
		Doc: "iterateAndMatch keeps the block indices of the other table's current window across iterations and hands them back to getBlockIndices together with the window's bounds, which re-uses the overlap instead of re-reading it. For every call, inside a loop, of a function of pkg/diff that has parameters `prevX` next to `X` (and a `prev…` slice next to its slice result): the value passed as prevX is loop-carried and, on every way round the loop, is exactly what was passed as X in the previous call (or unchanged); the slice passed as the previous window is the previous call's result. Bounds that lag, lead or are updated only sometimes make the copy in getBlockIndices take indices of other blocks: rows are looked up in the wrong block and reported as added and removed instead of unchanged.",
		Min: 2,
		Run: func(p *Program, r *RuleResult) error {
			fns := p.FuncsInPkg("pkg/diff")
			r.Analysed = len(fns)
			for _, fn := range fns {
				eachCall(fn, func(c ssa.CallInstruction) {
					callee := c.Common().StaticCallee()
					if callee == nil || fnPkgPath(callee) != fnPkgPath(fn) || c.Common().IsInvoke() {
						return
					}
					call, ok := c.(*ssa.Call)
					if !ok {
						return
					}
					hdr := enclosingLoop(call.Block())
					args := c.Common().Args
					byName := map[string]int{}
					for i, prm := range callee.Params {
						byName[prm.Name()] = i
					}
					for i, prm := range callee.Params {
						name := prm.Name()
						if !strings.HasPrefix(name, "prev") || len(name) <= 4 || !unicode.IsUpper(rune(name[4])) || i >= len(args) {
							continue
						}
						base := strings.ToLower(name[4:5]) + name[5:]
						key := fmt.Sprintf("%s|%s|%s", funcName(fn), callKey(fn, c), name)
						what := fmt.Sprintf("what is passed as %s is what the previous call got as its current value", name)
						var wantVal ssa.Value
						if j, ok := byName[base]; ok && j < len(args) && types.Identical(callee.Params[j].Type(), prm.Type()) {
							wantVal = args[j]
						} else if k := namedResult(callee, base, prm.Type()); k >= 0 {
							// the previous value of a named result of the same function
							wantVal = extractOf(call, k, callee.Signature.Results().Len())
						} else if _, isSlice := prm.Type().Underlying().(*types.Slice); isSlice {
							// the previous window itself: result of this call with the same type
							res := callee.Signature.Results()
							for k := 0; k < res.Len(); k++ {
								if types.Identical(res.At(k).Type(), prm.Type()) {
									wantVal = extractOf(call, k, res.Len())
									break
								}
							}
						}
						if wantVal == nil {
							continue
						}
						if fieldCarried(fn, args[i], wantVal, func(ok bool, why string) {
							if ok {
								r.okWhy(key, p.Rel(c.Pos()), what, why)
							} else {
								r.bad(key, p.Rel(c.Pos()), what, why)
							}
						}) {
							continue
						}
						if hdr == nil {
							continue
						}
						phi, ok := args[i].(*ssa.Phi)
						if !ok || phi.Block() != hdr {
							r.bad(key, p.Rel(c.Pos()), what, "the value is not carried round the loop of the call")
							continue
						}
						bad := ""
						for k, e := range phi.Edges {
							pred := hdr.Preds[k]
							if !hdr.Dominates(pred) {
								continue // entry edge
							}
							if e == wantVal || e == ssa.Value(phi) {
								continue
							}
							bad = fmt.Sprintf("on the way round the loop through block %d it is %s, not the previous call's %s", pred.Index, e.Name(), base)
						}
						if bad != "" {
							r.bad(key, p.Rel(c.Pos()), what, bad)
						} else {
							r.ok(key, p.Rel(c.Pos()), what)
						}
					}
				})
			}
			return nil
		},
	})
}

func sortedAllocs(m map[*ssa.Alloc]map[string]ssa.Value) []*ssa.Alloc {
	var out []*ssa.Alloc
	for a := range m {
		out = append(out, a)
	}
	sort.Slice(out, func(i, j int) bool { return out[i].Pos() < out[j].Pos() })
	return out
}

func namedResult(fn *ssa.Function, name string, t types.Type) int {
	res := fn.Signature.Results()
	for k := 0; k < res.Len(); k++ {
		if res.At(k).Name() == name && types.Identical(res.At(k).Type(), t) {
			return k
		}
	}
	return -1
}

func isBoolType(t types.Type) bool {
	b, ok := t.Underlying().(*types.Basic)
	return ok && b.Kind() == types.Bool
}

// extractOf finds the Extract of result k of a multi-result call (or the call itself).
func extractOf(call *ssa.Call, k, n int) ssa.Value {
	if n == 1 {
		return call
	}
	if call.Referrers() == nil {
		return nil
	}
	for _, ref := range *call.Referrers() {
		if ex, ok := ref.(*ssa.Extract); ok && ex.Index == k {
			return ex
		}
	}
	return nil
}

func litSig(fields map[string]ssa.Value) string {
	var parts []string
	for _, n := range []string{"PK", "Sum", "Offset", "OldSum", "OldOffset"} {
		if _, ok := fields[n]; ok {
			parts = append(parts, n)
		}
	}
	return strings.Join(parts, "+")
}

// fieldCarried: the previous window is kept in fields of an object (round 7, refactoring N1-r2:
// a blockWindow struct with a slide method). v is a load of a field; when the function also
// stores into that field, every such store must write `want`. A field that is only read here
// (written by a method elsewhere) is not judged. Reports through `out` and returns true when v
// has this form.
func fieldCarried(fn *ssa.Function, v, want ssa.Value, out func(ok bool, why string)) bool {
	u, ok := v.(*ssa.UnOp)
	if !ok || u.Op != token.MUL {
		return false
	}
	fa, ok := u.X.(*ssa.FieldAddr)
	if !ok {
		return false
	}
	n, bad := 0, ""
	for _, b := range fn.Blocks {
		for _, in := range b.Instrs {
			st, ok := in.(*ssa.Store)
			if !ok {
				continue
			}
			fb, ok := st.Addr.(*ssa.FieldAddr)
			if !ok || fb.Field != fa.Field || !(fb.X == fa.X || sameObject(fb.X, fa.X) || sameAddr(fb.X, fa.X)) {
				continue
			}
			n++
			if st.Val != want {
				bad = "the field that keeps the previous value is assigned " + st.Val.Name() + ", not what this call was given as the current value"
			}
		}
	}
	switch {
	case n == 0:
		// written elsewhere (or never): nothing to compare in this function
		return true
	case bad != "":
		out(false, bad)
	default:
		out(true, "kept in a field that is assigned exactly the current value after the call")
	}
	return true
}
