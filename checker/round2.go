package main

// Rules added after the second red-team round (second-order changes: helpers in
// other packages, error paths, unusual inputs, cooperating edits).

import (
	"fmt"
	"go/token"
	"go/types"
	"sort"
	"strings"

	"golang.org/x/tools/go/ssa"
)

// ifaceMethods returns the named methods of a repo interface type.
func ifaceMethods(p *Program, spec string, names ...string) (map[*types.Func]bool, error) {
	nt, err := p.NamedType(spec)
	if err != nil {
		return nil, err
	}
	iface, ok := nt.Underlying().(*types.Interface)
	if !ok {
		return nil, &AnchorError{spec + " is not an interface"}
	}
	out := map[*types.Func]bool{}
	for i := 0; i < iface.NumMethods(); i++ {
		for _, n := range names {
			if iface.Method(i).Name() == n {
				out[iface.Method(i)] = true
			}
		}
	}
	if len(out) != len(names) {
		return nil, &AnchorError{spec + " methods " + strings.Join(names, ",")}
	}
	return out, nil
}

// sliceLitElems: the elements of a slice literal value (nil for a nil constant;
// ok=false when v is neither).
func sliceLitElems(v ssa.Value) ([]ssa.Value, bool) {
	if isNilConst(v) {
		return nil, true
	}
	sl, ok := v.(*ssa.Slice)
	if !ok {
		return nil, false
	}
	al, ok := sl.X.(*ssa.Alloc)
	if !ok {
		return nil, false
	}
	var out []ssa.Value
	for _, ref := range *al.Referrers() {
		if ia, ok := ref.(*ssa.IndexAddr); ok {
			for _, r2 := range *ia.Referrers() {
				if st, ok := r2.(*ssa.Store); ok {
					out = append(out, st.Val)
				}
			}
		}
	}
	return out, true
}

func init() {
	register(&Rule{
		ID: "C10-i", Template: "constant arguments (complete listing of previous values)",
		Doc: "The update gates know every previous value: the remote ref listing that the push and fetch gates take as 'the refs that exist' (apiclient.Client.GetRefs called from cmd/wrgl, cmd/wrgl/utils, cmd/wrgl/fetch, cmd/wrgl/transaction) is requested with no prefix filter and excludes nothing but transaction refs (ref.TransactionRefPrefix). A ref left out of the listing looks new, and a new ref is written without ancestry, tag or force check.",
		Min: 2,
		Run: func(p *Program, r *RuleResult) error {
			getRefs, err := p.MustFuncs("pkg/api/client.(*Client).GetRefs")
			if err != nil {
				return err
			}
			fns := p.FuncsInPkg("cmd/wrgl", "cmd/wrgl/utils", "cmd/wrgl/fetch", "cmd/wrgl/transaction")
			r.Analysed = len(fns)
			for _, fn := range fns {
				for _, c := range callsTo(fn, getRefs) {
					args := c.Common().Args // receiver, prefixes, notPrefixes, opts
					what := "remote ref listing used as the set of previous values is complete"
					key := callKey(fn, c)
					if len(args) < 3 {
						r.bad(key, p.Rel(c.Pos()), what, "unexpected call shape")
						continue
					}
					if !isNilConst(args[1]) {
						r.bad(key, p.Rel(c.Pos()), what, "the listing is restricted by a prefix filter: refs outside it look new to the update gate")
						continue
					}
					els, ok := sliceLitElems(args[2])
					if !ok {
						r.bad(key, p.Rel(c.Pos()), what, "the exclusion list is not a literal: cannot show that only transaction refs are left out")
						continue
					}
					bad := ""
					for _, e := range els {
						if s, ok := constString(e); !ok || s != "txs/" {
							bad = fmt.Sprintf("the listing excludes %s: existing refs under it look new to the update gate and are overwritten without ancestry/tag/force check", valueLabel(e))
						}
					}
					if bad != "" {
						r.bad(key, p.Rel(c.Pos()), what, bad)
					} else {
						r.ok(key, p.Rel(c.Pos()), what)
					}
				}
			}
			return nil
		},
	})

	register(&Rule{
		ID: "C14-d", Template: "T2 never-follows (no roll-back after a failed commit)",
		Doc: "A transaction whose commit failed half way can be completed by running commit again: no production function reaches transaction.Discard (or ref.DeleteTransactionRefs) on a path that leaves a transaction.Commit call through its failure outcome. Discarding there deletes the staged refs of the branches that were not moved yet while the moved ones stay moved — neither all nor none, and not repeatable.",
		Min: 1,
		Run: func(p *Program, r *RuleResult) error {
			commit, err := p.MustFuncs("pkg/transaction.Commit")
			if err != nil {
				return err
			}
			undo, err := p.MustFuncs("pkg/transaction.Discard", "pkg/ref.DeleteTransactionRefs")
			if err != nil {
				return err
			}
			store, err := ifaceMethods(p, "pkg/ref.Store", "DeleteTransaction")
			if err != nil {
				return err
			}
			for f := range store {
				undo[f] = true
			}
			fns := p.ProdFuncs()
			r.Analysed = len(fns)
			for _, fn := range fns {
				for _, ci := range callsTo(fn, commit) {
					call, ok := ci.(*ssa.Call)
					if !ok {
						continue
					}
					key := callKey(fn, ci)
					what := "nothing is discarded after transaction.Commit failed"
					bad := false
					for _, u := range callsTo(fn, undo) {
						if path, reach := reachAfter(fn, call, u, mkCut(successEdges(fn, call)), nil); reach {
							r.bad(key, p.Rel(u.Pos()), what, fmtPath(shortObj(calleeFunc(u))+" is reachable from the failure outcome of transaction.Commit", path))
							bad = true
							break
						}
					}
					if !bad {
						r.ok(key, p.Rel(ci.Pos()), what)
					}
				}
			}
			return nil
		},
	})

	register(&Rule{
		ID: "C14-e", Template: "loop completeness (every staged branch is moved)",
		Doc: "Committing moves every branch staged in the transaction: in transaction.Commit no iteration of the per-branch loop can finish (reach the loop's back edge) without passing the logged ref update (ref.SaveRef / CommitHead) — other than through the 'already moved by this transaction' edge of the GetTransactionLogs lookup. A `continue` that skips a branch leaves it where it was while the transaction is marked committed.",
		Min: 1,
		Run: func(p *Program, r *RuleResult) error {
			fn, err := p.SSAFunc("pkg/transaction.Commit")
			if err != nil {
				return err
			}
			sr, err := p.MustFuncs("pkg/ref.SaveRef", "pkg/ref.CommitHead")
			if err != nil {
				return err
			}
			gtl, err := ifaceMethods(p, "pkg/ref.Store", "GetTransactionLogs")
			if err != nil {
				return err
			}
			r.Analysed = 1
			var logs []ssa.Value
			eachCall(fn, func(c ssa.CallInstruction) {
				if call, ok := c.(*ssa.Call); ok && c.Common().IsInvoke() && gtl[c.Common().Method] {
					for _, ref := range *call.Referrers() {
						if ex, ok := ref.(*ssa.Extract); ok && ex.Index == 0 {
							logs = append(logs, ex)
						}
					}
				}
			})
			logSet := forward(logs, fwdOpts{noBinOp: true})
			var okVals []ssa.Value
			for _, b := range fn.Blocks {
				for _, in := range b.Instrs {
					if lk, ok := in.(*ssa.Lookup); ok && lk.CommaOk && logSet[lk.X] {
						for _, ref := range *lk.Referrers() {
							if ex, ok := ref.(*ssa.Extract); ok && ex.Index == 1 {
								okVals = append(okVals, ex)
							}
						}
					}
				}
			}
			logged := boolEdges(fn, forward(okVals, fwdOpts{noBinOp: true}), true)
			// the update itself, or a helper of the package that returns success only after it
			sum := newSuccSummary(p, sr)
			// … or a helper that is handed the transaction's logs and returns success only after the
			// update or through the 'already moved' edge of its own lookup in them (round 7, N2-r8:
			// the whole per-branch body, lookup included, extracted into commitBranch)
			movesOrLogged := func(c ssa.CallInstruction, sc *ssa.Function) bool {
				args := c.Common().Args
				var seeds []ssa.Value
				for j, prm := range sc.Params {
					if j < len(args) && logSet[args[j]] {
						seeds = append(seeds, prm)
					}
				}
				if len(seeds) == 0 {
					return false
				}
				ls := forward(seeds, fwdOpts{noBinOp: true})
				var oks []ssa.Value
				for _, b := range sc.Blocks {
					for _, in := range b.Instrs {
						if lk, ok := in.(*ssa.Lookup); ok && lk.CommaOk && ls[lk.X] {
							for _, ref := range *lk.Referrers() {
								if ex, ok := ref.(*ssa.Extract); ok && ex.Index == 1 {
									oks = append(oks, ex)
								}
							}
						}
					}
				}
				block := map[ssa.Instruction]bool{}
				eachCall(sc, func(ic ssa.CallInstruction) {
					if f := calleeFunc(ic); f != nil && sr[f] {
						block[ic] = true
					} else if g := ic.Common().StaticCallee(); g != nil && len(g.Blocks) > 0 && sum.wrapper(g, wrapperDepth) {
						block[ic] = true
					}
				})
				if len(block) == 0 {
					return false
				}
				cut := mkCut(boolEdges(sc, forward(oks, fwdOpts{noBinOp: true}), true))
				ei := errorResultIndex(sc.Signature)
				for _, ret := range returnsOf(sc) {
					if ei >= 0 && ei < len(ret.Results) && (definitelyNonNilError(retVal(ret, ei)) || nonNilByGuard(sc, ret, retVal(ret, ei))) {
						continue
					}
					if _, reach := reachAfter(sc, nil, ret, cut, block); reach {
						return false
					}
				}
				return true
			}
			var sites []ssa.CallInstruction
			eachCall(fn, func(c ssa.CallInstruction) {
				if f := calleeFunc(c); f != nil && sr[f] {
					sites = append(sites, c)
				} else if sc := c.Common().StaticCallee(); sc != nil && len(sc.Blocks) > 0 && fnPkgPath(sc) == fnPkgPath(fn) && (sum.wrapper(sc, wrapperDepth) || movesOrLogged(c, sc)) {
					sites = append(sites, c)
				}
			})
			if len(sites) == 0 {
				r.missing("pkg/transaction.Commit|ref update", "transaction.Commit contains no ref.SaveRef / CommitHead call")
				return nil
			}
			block := map[ssa.Instruction]bool{}
			for _, s := range sites {
				block[s] = true
			}
			done := map[*ssa.BasicBlock]bool{}
			for _, s := range sites {
				h := enclosingLoop(s.Block())
				if h == nil {
					r.bad(callKey(fn, s), p.Rel(s.Pos()), "the ref update runs once per staged branch", "the ref update is not inside a loop")
					continue
				}
				if done[h] {
					continue
				}
				done[h] = true
				body := loopBody(h)
				cut := mkCut(logged)
				for e := range loopExitEdges(h) {
					cut[e] = true
				}
				key := funcName(fn) + "|per-branch-loop"
				what := "every iteration moves its branch (or finds it already moved by this transaction)"
				bad := false
				for _, pr := range h.Preds {
					if !body[pr] || len(pr.Instrs) == 0 {
						continue
					}
					if path, reach := reachAfter(fn, h.Instrs[0], pr.Instrs[len(pr.Instrs)-1], cut, block); reach {
						r.bad(key, p.Rel(s.Pos()), what, fmtPath("an iteration reaches the loop's back edge without the logged ref update", path))
						bad = true
						break
					}
				}
				if !bad {
					r.ok(key, p.Rel(s.Pos()), what)
				}
			}
			return nil
		},
	})

	register(&Rule{
		ID: "C06-f", Template: "T1 must-traverse (a save writes)",
		Doc: "What is written reads back: the writers of objects whose key is NOT derived from their content (objects.SaveTableIndex, objects.SaveTableProfile — stored under the table's sum and rewritten by `wrgl profile --refresh`, reingest and the receiver) return success only after objects.Store.Set succeeded. An 'already there, skip the write' shortcut is sound for content-addressed objects only; here it silently keeps the old bytes.",
		Min: 2,
		Run: func(p *Program, r *RuleResult) error {
			set, err := ifaceMethods(p, "pkg/objects.Store", "Set")
			if err != nil {
				return err
			}
			sum := newSuccSummary(p, set)
			r.Analysed = 2
			for _, name := range []string{"pkg/objects.SaveTableIndex", "pkg/objects.SaveTableProfile"} {
				fn, err := p.SSAFunc(name)
				if err != nil {
					return err
				}
				what := "every success return is preceded by a successful Store.Set"
				if sum.wrapper(fn, wrapperDepth) {
					r.ok(funcName(fn)+"|writes", p.Rel(fn.Pos()), what)
				} else {
					r.bad(funcName(fn)+"|writes", p.Rel(fn.Pos()), what, "a success return of "+funcName(fn)+" (or of the helper it delegates to) is reachable without a successful objects.Store.Set: the caller is told the new bytes are stored while the old ones stay")
				}
			}
			return nil
		},
	})

	register(&Rule{
		ID: "C08-e", Template: "T2 never-follows (no failure after a want was taken off the list)",
		Doc: "A wanted commit is never silently dropped: in (*ClosedSetsFinder).enqueueWants, once an entry has been removed from the pending Wants map (delete, or the map being replaced) no failure return is reachable any more in that activation. A want that is taken off the list before its walk has succeeded is lost when the walk fails: later rounds send nothing for it.",
		Min: 1,
		Run: func(p *Program, r *RuleResult) error {
			fn, err := p.SSAFunc("pkg/api/utils.(*ClosedSetsFinder).enqueueWants")
			if err != nil {
				return err
			}
			wants, err := p.Field("pkg/api/utils.ClosedSetsFinder.Wants")
			if err != nil {
				return err
			}
			r.Analysed = 1
			ei := errorResultIndex(fn.Signature)
			var removals []ssa.Instruction
			for _, b := range fn.Blocks {
				for _, in := range b.Instrs {
					switch x := in.(type) {
					case *ssa.Store:
						if fa, ok := x.Addr.(*ssa.FieldAddr); ok && structField(fa.X.Type(), fa.Field) == wants {
							removals = append(removals, x)
						}
					case *ssa.Call:
						if isBuiltin(x, "delete") && len(x.Call.Args) == 2 {
							if u, ok := x.Call.Args[0].(*ssa.UnOp); ok && u.Op == token.MUL {
								if fa, ok := u.X.(*ssa.FieldAddr); ok && structField(fa.X.Type(), fa.Field) == wants {
									removals = append(removals, x)
								}
							}
						}
					}
				}
			}
			if len(removals) == 0 {
				r.missing(funcName(fn)+"|removal", "enqueueWants no longer clears ClosedSetsFinder.Wants")
				return nil
			}
			for i, rm := range removals {
				key := fmt.Sprintf("%s|wants-removal#%d", funcName(fn), i)
				what := "no failure return after a want left the pending set"
				bad := false
				for _, ret := range returnsOf(fn) {
					if ei >= 0 {
						if v := retVal(ret, ei); v == nil || isNilConst(v) {
							continue
						}
					}
					if path, reach := reachAfter(fn, rm, ret, nil, nil); reach {
						r.bad(key, p.Rel(rm.Pos()), what, fmtPath("error return at "+p.Rel(ret.Pos())+" reachable after the removal", path))
						bad = true
						break
					}
				}
				if !bad {
					r.ok(key, p.Rel(rm.Pos()), what)
				}
			}
			return nil
		},
	})

	register(&Rule{
		ID: "C18-b", Template: "T3 who-may-call (no read-ahead on a caller's stream)",
		Doc: "A decoder consumes exactly the bytes of its object: no function of pkg/encoding/... or pkg/objects puts a buffering reader (bufio.NewReader / NewReaderSize / NewReadWriter / NewScanner) in front of a stream — a read-ahead buffer swallows bytes that belong to whatever the caller (or a sibling decoder reading the same stream directly) decodes next.",
		Min: 1,
		Run: func(p *Program, r *RuleResult) error {
			if _, err := p.Func("pkg/encoding.NewParser"); err != nil {
				return err
			}
			var fns []*ssa.Function
			for _, fn := range p.ProdFuncs() {
				pkg := strings.TrimPrefix(fnPkgPath(fn), modPath+"/")
				if pkg == "pkg/objects" || pkg == "pkg/encoding" || strings.HasPrefix(pkg, "pkg/encoding/") {
					fns = append(fns, fn)
				}
			}
			r.Analysed = len(fns)
			n := 0
			for _, fn := range fns {
				eachCall(fn, func(c ssa.CallInstruction) {
					f := calleeFunc(c)
					if f == nil || f.Pkg() == nil || f.Pkg().Path() != "bufio" {
						return
					}
					switch f.Name() {
					case "NewReader", "NewReaderSize", "NewReadWriter", "NewScanner":
						n++
						r.bad(callKey(fn, c), p.Rel(c.Pos()), "decoders read their input unbuffered", funcName(fn)+" wraps a stream in bufio."+f.Name()+": bytes beyond the object are pulled into a private buffer and lost to every other reader of the stream")
					}
				})
			}
			if n == 0 {
				r.ok("pkg/encoding+pkg/objects|no-bufio", "", "decoders read their input unbuffered")
			}
			return nil
		},
	})
}

func valueLabel(v ssa.Value) string {
	if s, ok := constString(v); ok {
		return fmt.Sprintf("%q", s)
	}
	return v.String()
}

var _ = sort.Strings

// ---- sender: what counts as "the destination already has it" ----

// backwardCalls: backward slice that also continues through the arguments of calls.
func backwardCalls(v ssa.Value) map[ssa.Value]bool {
	set := map[ssa.Value]bool{}
	var work []ssa.Value
	push := func(x ssa.Value) {
		if x != nil && !set[x] {
			work = append(work, x)
		}
	}
	push(v)
	for len(work) > 0 {
		x := work[len(work)-1]
		work = work[:len(work)-1]
		for y := range backward(x, nil) {
			if set[y] {
				continue
			}
			set[y] = true
			if c, ok := y.(*ssa.Call); ok {
				for _, a := range c.Call.Args {
					push(a)
				}
			}
			// range over a slice/map: the Next tuple comes from the Range of the collection
			if n, ok := y.(*ssa.Next); ok {
				push(n.Iter)
			}
			if rg, ok := y.(*ssa.Range); ok {
				push(rg.X)
			}
		}
	}
	return set
}

// objectPushKind classifies list pushes of pkg/api/utils.object values by their
// constant Type field ("ObjectTable", …; "" when c is not such a push).
func objectPushKind(p *Program) (func(ci ssa.CallInstruction) string, error) {
	typeField, err := p.Field("pkg/api/utils.object.Type")
	if err != nil {
		return nil, err
	}
	objT, err := p.NamedType("pkg/api/utils.object")
	if err != nil {
		return nil, err
	}
	pf, err := p.TypesPkg("pkg/encoding/packfile")
	if err != nil {
		return nil, err
	}
	kindOf := map[int64]string{}
	for _, n := range []string{"ObjectCommit", "ObjectTable", "ObjectBlock"} {
		c, ok := pf.Scope().Lookup(n).(*types.Const)
		if !ok {
			return nil, &AnchorError{"packfile." + n}
		}
		v, _ := constInt(ssa.NewConst(c.Val(), c.Type()))
		kindOf[v] = n
	}
	return func(ci ssa.CallInstruction) string {
		f := calleeFunc(ci)
		if f == nil || f.Pkg() == nil || f.Pkg().Path() != "container/list" || !strings.HasPrefix(f.Name(), "Push") {
			return ""
		}
		args := ci.Common().Args
		v := stripConv(args[len(args)-1])
		u, ok := v.(*ssa.UnOp)
		if !ok || !types.Identical(u.Type(), objT) {
			return ""
		}
		al, ok := u.X.(*ssa.Alloc)
		if !ok {
			return "?"
		}
		for _, ref := range *al.Referrers() {
			if fa, ok := ref.(*ssa.FieldAddr); ok && structField(fa.X.Type(), fa.Field) == typeField {
				for _, r2 := range *fa.Referrers() {
					if st, ok := r2.(*ssa.Store); ok {
						if k, ok := constInt(st.Val); ok {
							return kindOf[k]
						}
					}
				}
			}
		}
		return "?"
	}, nil
}

func init() {
	register(&Rule{
		ID: "C09-h", Template: "T1 must-traverse (the table object is always sent)",
		Doc: "A commit never arrives without its table object when the sender has it: in every function of pkg/api/utils that queues a table object (PushBack of object{Type: ObjectTable}), each successful return lies behind that push — except on the 'table is not in the local store' edge (errors.Is(err, objects.ErrKeyNotFound)). An early `nothing to send` return (empty table, all blocks common) makes the receiver take the commit for a shallow one: refs are updated, the hole is permanent.",
		Min: 1,
		Run: func(p *Program, r *RuleResult) error {
			kind, err := objectPushKind(p)
			if err != nil {
				return err
			}
			if _, err := p.SSAFunc("pkg/api/utils.(*ObjectSender).enqueueTable"); err != nil {
				return err
			}
			fns := p.FuncsInPkg("pkg/api/utils")
			r.Analysed = len(fns)
			for _, fn := range fns {
				block := map[ssa.Instruction]bool{}
				eachCall(fn, func(c ssa.CallInstruction) {
					if kind(c) == "ObjectTable" {
						block[c] = true
					}
				})
				if len(block) == 0 {
					continue
				}
				ei := errorResultIndex(fn.Signature)
				// table absent locally
				var absent []edge
				for _, call := range errCalls(fn) {
					vals := errValuesOfCall(call)
					if vals == nil {
						continue
					}
					absent = append(absent, testEdges(fn, eofTestsOn(fn, vals, modPath+"/pkg/objects", "ErrKeyNotFound"), true)...)
				}
				for i, ret := range returnsOf(fn) {
					if ei >= 0 {
						v := retVal(ret, ei)
						if v != nil && (definitelyNonNilError(v) || nonNilByGuard(fn, ret, v)) {
							continue
						}
					}
					key := fmt.Sprintf("%s|return#%d", funcName(fn), i)
					what := "a successful return means the table object was queued"
					if path, reach := reachAfter(fn, nil, ret, mkCut(absent), block); reach {
						r.bad(key, p.Rel(ret.Pos()), what, fmtPath("return reachable without queueing the table object (and not on the table-absent edge)", path))
					} else {
						r.ok(key, p.Rel(ret.Pos()), what)
					}
				}
			}
			return nil
		},
	})

	register(&Rule{
		ID: "C09-i", Template: "T3 who-may-write + provenance (what the destination is assumed to have)",
		Doc: "The sender leaves out only what the destination really has. ObjectSender.commonTables / commonBlocks are filled (a) by the constructor's seeding functions from the tables of the acknowledged common commits themselves — no value read from Commit.Parents flows into a key (a have promises its own table, not its ancestors': they may be shallow); (b) in methods, a table is marked common only after the function that queues its table object succeeded, and a block only right after the block itself was queued. Anything else (e.g. 'not in tablesToSend, so the destination must have it' — false for depth-limited transfers) silently withholds blocks and the receiver cannot complete the table.",
		Min: 4,
		Run: func(p *Program, r *RuleResult) error {
			kind, err := objectPushKind(p)
			if err != nil {
				return err
			}
			ct, err := p.Field("pkg/api/utils.ObjectSender.commonTables")
			if err != nil {
				return err
			}
			cb, err := p.Field("pkg/api/utils.ObjectSender.commonBlocks")
			if err != nil {
				return err
			}
			parents, err := p.Field("pkg/objects.Commit.Parents")
			if err != nil {
				return err
			}
			fns := p.FuncsInPkg("pkg/api/utils")
			r.Analysed = len(fns)
			// table queuers
			queuers := map[*types.Func]bool{}
			for _, fn := range fns {
				isQ := false
				eachCall(fn, func(c ssa.CallInstruction) {
					if kind(c) == "ObjectTable" {
						isQ = true
					}
				})
				if isQ && fn.Object() != nil {
					if f, ok := fn.Object().(*types.Func); ok {
						queuers[f] = true
					}
				}
			}
			if len(queuers) == 0 {
				return &AnchorError{"function that queues a table object"}
			}
			gc := &guardCheck{p: p, pre: newSuccSummary(p, queuers)}
			// seeding functions: their result is stored into the fields
			seeders := map[*ssa.Function]*types.Var{}
			fieldOfMap := func(m ssa.Value) *types.Var {
				if u, ok := m.(*ssa.UnOp); ok && u.Op == token.MUL {
					if fa, ok := u.X.(*ssa.FieldAddr); ok {
						f := structField(fa.X.Type(), fa.Field)
						if f == ct || f == cb {
							return f
						}
					}
				}
				return nil
			}
			for _, fn := range fns {
				for _, b := range fn.Blocks {
					for _, in := range b.Instrs {
						st, ok := in.(*ssa.Store)
						if !ok {
							continue
						}
						fa, ok := st.Addr.(*ssa.FieldAddr)
						if !ok {
							continue
						}
						f := structField(fa.X.Type(), fa.Field)
						if f != ct && f != cb {
							continue
						}
						if ex, ok := st.Val.(*ssa.Extract); ok {
							if call, ok := ex.Tuple.(*ssa.Call); ok {
								if sc := call.Call.StaticCallee(); sc != nil && len(sc.Blocks) > 0 {
									seeders[sc] = f
								}
							}
						}
					}
				}
			}
			for _, fn := range fns {
				nUpd := 0
				for _, b := range fn.Blocks {
					for _, in := range b.Instrs {
						mu, ok := in.(*ssa.MapUpdate)
						if !ok {
							continue
						}
						if f := fieldOfMap(mu.Map); f != nil {
							key := fmt.Sprintf("%s|%s[·]=#%d", funcName(fn), f.Name(), nUpd)
							nUpd++
							if f == ct {
								what := "a table is marked as present at the destination only after its table object was queued"
								tblPush := map[ssa.Instruction]bool{}
								eachCall(fn, func(c ssa.CallInstruction) {
									if kind(c) == "ObjectTable" {
										tblPush[c] = true
									}
								})
								if len(tblPush) > 0 {
									// the queueing function itself: after its own push
									if path, reach := reachAfter(fn, nil, mu, nil, tblPush); reach {
										r.bad(key, p.Rel(mu.Pos()), what, fmtPath("commonTables is written on a path that has not queued the table object", path))
									} else {
										r.ok(key, p.Rel(mu.Pos()), what)
									}
								} else if ok, why := gc.check(fn, mu, wrapperDepth); ok {
									r.ok(key, p.Rel(mu.Pos()), what)
								} else {
									r.bad(key, p.Rel(mu.Pos()), what, why)
								}
							} else {
								what := "a block is marked as present at the destination only right after it was queued"
								block := map[ssa.Instruction]bool{}
								eachCall(fn, func(c ssa.CallInstruction) {
									if kind(c) == "ObjectBlock" {
										block[c] = true
									}
								})
								if path, reach := reachAfter(fn, nil, mu, nil, block); reach || len(block) == 0 {
									r.bad(key, p.Rel(mu.Pos()), what, fmtPath("commonBlocks is written on a path that queued no block", path))
								} else {
									r.ok(key, p.Rel(mu.Pos()), what)
								}
							}
							continue
						}
						if f, ok := seeders[fn]; ok {
							key := fmt.Sprintf("%s|seed %s#%d", funcName(fn), f.Name(), nUpd)
							nUpd++
							what := "the common sets are seeded from the acknowledged commits' own tables"
							viaParents := false
							// the seeding function does not follow parent links at all (a queue or
							// any other container would hide the flow from a key-provenance check)
							for _, b2 := range fn.Blocks {
								for _, i2 := range b2.Instrs {
									switch y := i2.(type) {
									case *ssa.FieldAddr:
										if structField(y.X.Type(), y.Field) == parents {
											viaParents = true
										}
									case *ssa.Field:
										if structField(y.X.Type(), y.Field) == parents {
											viaParents = true
										}
									}
								}
							}
							for x := range backwardCalls(mu.Key) {
								switch y := x.(type) {
								case *ssa.FieldAddr:
									if structField(y.X.Type(), y.Field) == parents {
										viaParents = true
									}
								case *ssa.Field:
									if structField(y.X.Type(), y.Field) == parents {
										viaParents = true
									}
								}
							}
							if viaParents {
								r.bad(key, p.Rel(mu.Pos()), what, "the key is derived from Commit.Parents: the table of an ancestor of a common commit is assumed present, but ancestors of a have may be shallow at the destination")
							} else {
								r.ok(key, p.Rel(mu.Pos()), what)
							}
						}
					}
				}
			}
			return nil
		},
	})
}

// ---- sorter life cycle ----

func init() {
	register(&Rule{
		ID: "C19-g", Template: "T2 never-follows (key fixed before the first row)",
		Doc: "Every run of a sort is ordered by the same key: in every production function that both assigns Sorter.PK and adds rows to that sorter ((*Sorter).AddRow), no assignment of PK is reachable after an AddRow call unless a Reset lies in between. AddRow sorts and spills a full run with the key in force at that moment; a key assigned later leaves the spilled runs in a different order than the one the k-way merge assumes, so rows come out unsorted and duplicate keys survive.",
		Min: 2,
		Run: func(p *Program, r *RuleResult) error {
			pk, err := p.Field("pkg/sorter.Sorter.PK")
			if err != nil {
				return err
			}
			addRow, err := p.MustFuncs("pkg/sorter.(*Sorter).AddRow")
			if err != nil {
				return err
			}
			reset, err := p.MustFuncs("pkg/sorter.(*Sorter).Reset")
			if err != nil {
				return err
			}
			fns := p.ProdFuncs()
			r.Analysed = len(fns)
			for _, fn := range fns {
				// AddRow itself, or a helper of the package that (transitively) calls it — a row
				// loop moved into loadRows() is still a row loop (round 7, C02-r7m3)
				var adds []ssa.CallInstruction
				seenSite := map[ssa.CallInstruction]bool{}
				for _, e := range effSites(p, fn, addRow, inlineDepth) {
					if !seenSite[e.site] {
						seenSite[e.site] = true
						adds = append(adds, e.site)
					}
				}
				if len(adds) == 0 {
					continue
				}
				var stores []*ssa.Store
				for _, b := range fn.Blocks {
					for _, in := range b.Instrs {
						if st, ok := in.(*ssa.Store); ok {
							if fa, ok := st.Addr.(*ssa.FieldAddr); ok && structField(fa.X.Type(), fa.Field) == pk {
								stores = append(stores, st)
							}
						}
					}
				}
				block := map[ssa.Instruction]bool{}
				for _, c := range callsTo(fn, reset) {
					block[c] = true
				}
				for i, st := range stores {
					key := fmt.Sprintf("%s|Sorter.PK=#%d", funcName(fn), i)
					what := "the sort key is not changed once rows have been added"
					bad := false
					for _, a := range adds {
						if path, reach := reachAfter(fn, a, st, nil, block); reach {
							r.bad(key, p.Rel(st.Pos()), what, fmtPath("Sorter.PK is assigned after AddRow at "+p.Rel(a.Pos())+": runs spilled so far were sorted by the previous key", path))
							bad = true
							break
						}
					}
					if !bad {
						r.ok(key, p.Rel(st.Pos()), what)
					}
				}
			}
			return nil
		},
	})

	register(&Rule{
		ID: "C19-h", Template: "pairing (collector created / sorter closed)",
		Doc: "The merge's result sorter is closed: every production function that creates a row collector (merge.CreateRowCollector — it owns the sorter that spills the merged rows) registers, on every path after the successful creation, a deferred call from which (*sorter.Sorter).Close is reachable in the call graph (the returned cleanup, or Merger.Close). With neither, the spill files of every merge stay on disk.",
		Min: 1,
		Run: func(p *Program, r *RuleResult) error {
			crc, err := p.MustFuncs("pkg/merge.CreateRowCollector")
			if err != nil {
				return err
			}
			sclose, err := p.SSAFunc("pkg/sorter.(*Sorter).Close")
			if err != nil {
				return err
			}
			fns := p.ProdFuncs()
			r.Analysed = len(fns)
			reachesClose := func(fn *ssa.Function, d *ssa.Defer) bool {
				var roots []*ssa.Function
				roots = append(roots, p.Callees(fn, d)...)
				if mc, ok := d.Call.Value.(*ssa.MakeClosure); ok {
					if f, ok := mc.Fn.(*ssa.Function); ok {
						roots = append(roots, f)
					}
				}
				if len(roots) == 0 {
					return false
				}
				return p.Reachable(p.CG, roots...)[sclose]
			}
			for _, fn := range fns {
				for _, ci := range callsTo(fn, crc) {
					call, ok := ci.(*ssa.Call)
					if !ok {
						continue
					}
					key := callKey(fn, ci)
					what := "a deferred call that reaches Sorter.Close is registered on every path after the collector was created"
					block := map[ssa.Instruction]bool{}
					for _, b := range fn.Blocks {
						for _, in := range b.Instrs {
							if d, ok := in.(*ssa.Defer); ok {
								if reachesClose(fn, d) {
									r.note("%s: deferred call at %s reaches (*Sorter).Close", funcName(fn), p.Rel(d.Pos()))
									block[d] = true
								}
							}
						}
					}
					if len(block) == 0 {
						r.bad(key, p.Rel(ci.Pos()), what, "no deferred call in "+funcName(fn)+" reaches (*sorter.Sorter).Close: the collector's sorter is never closed and its spill files are never removed")
						continue
					}
					// the collector can hold rows (and spill files) once something it was
					// handed to has succeeded: from there on every return needs the close
					var coll ssa.Value
					for _, ref := range *call.Referrers() {
						if ex, ok := ref.(*ssa.Extract); ok && ex.Index == 0 {
							coll = ex
						}
					}
					var users []*ssa.Call
					if coll != nil {
						cv := forward([]ssa.Value{coll}, fwdOpts{noBinOp: true})
						eachCall(fn, func(c ssa.CallInstruction) {
							uc, ok := c.(*ssa.Call)
							if !ok || uc == call {
								return
							}
							for _, a := range uc.Call.Args {
								if cv[a] {
									users = append(users, uc)
									return
								}
							}
						})
					}
					bad := false
					for _, u := range users {
						// a close registered on every path leading to the use covers it
						if _, reach := reachAfter(fn, nil, u, nil, block); !reach {
							continue
						}
						for _, ret := range returnsOf(fn) {
							if path, reach := reachAfter(fn, u, ret, mkCut(successEdgesFail(fn, u)), block); reach {
								r.bad(key, p.Rel(ret.Pos()), what, fmtPath("after the collector was handed to "+calleeLabel(u)+" a return is reachable without a registered close", path))
								bad = true
								break
							}
						}
						if bad {
							break
						}
					}
					if !bad {
						r.ok(key, p.Rel(ci.Pos()), what)
					}
				}
			}
			return nil
		},
	})
}

// ---- merge: inputs have their tables ----

func init() {
	register(&Rule{
		ID: "C13-j", Template: "T4 permit-cut (a branch never ends up on a commit without its table)",
		Doc: "Branches written by merge never point at a commit lacking its table: in every function of cmd/wrgl that computes a merge base (ref.SeekCommonAncestor) and writes a ref — directly or through a local helper that creates the merge commit — either every commit admitted to the merge (appended to the list handed to SeekCommonAncestor from a ref.InterpretCommitName result) is admitted only behind the 'exists' edge of objects.TableExist on that commit's table, or the write itself lies behind such an edge on every path. A shallow commit (fetched with --depth) has no table: fast-forwarding to it, or creating a --no-ff merge commit that reuses its table sum, leaves the branch unusable.",
		Min: 2,
		Run: func(p *Program, r *RuleResult) error {
			sca, err := p.MustFuncs("pkg/ref.SeekCommonAncestor")
			if err != nil {
				return err
			}
			icn, err := p.MustFuncs("pkg/ref.InterpretCommitName")
			if err != nil {
				return err
			}
			te, err := p.MustFuncs("pkg/objects.TableExist")
			if err != nil {
				return err
			}
			writers, err := p.MustFuncs("pkg/ref.SaveRef", "pkg/ref.CommitMerge", "pkg/ref.CommitHead")
			if err != nil {
				return err
			}
			gt, err := p.MustFuncs("pkg/objects.GetTable")
			if err != nil {
				return err
			}
			getTbl := newSuccSummary(p, gt)
			fns := p.FuncsInPkg("cmd/wrgl")
			r.Analysed = len(fns)
			// local helpers that write a ref
			helper := map[*ssa.Function]bool{}
			for _, fn := range fns {
				if len(callsTo(fn, writers)) > 0 {
					helper[fn] = true
				}
			}
			for _, fn := range fns {
				scas := callsTo(fn, sca)
				if len(scas) == 0 {
					continue
				}
				var sites []ssa.CallInstruction
				eachCall(fn, func(c ssa.CallInstruction) {
					if f := calleeFunc(c); f != nil && writers[f] {
						sites = append(sites, c)
						return
					}
					if sc := c.Common().StaticCallee(); sc != nil && sc != fn && helper[sc] {
						sites = append(sites, c)
					}
				})
				if len(sites) == 0 {
					continue
				}
				// TableExist 'exists' edges, per InterpretCommitName call and overall
				var allTE []edge
				teOf := map[*ssa.Call][]edge{}
				ics := callsTo(fn, icn)
				for _, t := range callsTo(fn, te) {
					tc, ok := t.(*ssa.Call)
					if !ok {
						continue
					}
					edges := boolEdges(fn, forward([]ssa.Value{tc}, fwdOpts{noBinOp: true}), true)
					allTE = append(allTE, edges...)
					if len(tc.Call.Args) < 2 {
						continue
					}
					bs := backward(tc.Call.Args[1], nil)
					for _, ic := range ics {
						if call, ok := ic.(*ssa.Call); ok && bs[call] {
							teOf[call] = append(teOf[call], edges...)
						}
					}
				}
				// loading a commit's table (objects.GetTable, directly or through a local
				// helper) establishes its presence as well
				eachCall(fn, func(c ssa.CallInstruction) {
					if call, ok := c.(*ssa.Call); ok && getTbl.matches(call, wrapperDepth) {
						allTE = append(allTE, successEdges(fn, call)...)
					}
				})
				// admissions
				admitted := true
				var whyNot string
				nAdm := 0
				for _, sc := range scas {
					args := sc.Common().Args
					if len(args) < 2 {
						continue
					}
					listVals := backward(args[len(args)-1], nil)
					for v := range listVals {
						ap, ok := v.(*ssa.Call)
						if !ok || !isBuiltin(ap, "append") || len(ap.Call.Args) < 2 {
							continue
						}
						els, ok := sliceLitElems(ap.Call.Args[1])
						if !ok {
							continue
						}
						for _, e := range els {
							be := backward(e, nil)
							for _, ic := range ics {
								call, ok := ic.(*ssa.Call)
								if !ok || !be[call] {
									continue
								}
								nAdm++
								if path, reach := reachAfter(fn, call, ap, mkCut(teOf[call]), nil); reach {
									admitted = false
									whyNot = fmtPath(fmt.Sprintf("the commit resolved at %s is admitted to the merge without objects.TableExist on its table", p.Rel(call.Pos())), path)
								}
							}
						}
					}
				}
				if nAdm == 0 {
					admitted = false
					whyNot = "no admission of a resolved commit found"
				}
				for _, s := range sites {
					key := callKey(fn, s)
					what := "ref written by merge points at a commit whose table exists"
					if admitted {
						r.okWhy(key, p.Rel(s.Pos()), what, "every commit admitted to the merge passed objects.TableExist")
						continue
					}
					if path, reach := reachAfter(fn, nil, s, mkCut(allTE), nil); reach {
						r.bad(key, p.Rel(s.Pos()), what, whyNot+"; and "+fmtPath("this write is reachable without any objects.TableExist 'exists' edge", path))
					} else {
						r.okWhy(key, p.Rel(s.Pos()), what, "the write itself lies behind objects.TableExist")
					}
				}
			}
			return nil
		},
	})
}

// ---- SQL schema of the ref store ----

// ddlConsts: CREATE TABLE statements found as string constants in a package
// (including its initialiser and closures), by table name.
func ddlConsts(p *Program, rel string) map[string][]ddlText {
	out := map[string][]ddlText{}
	pkgPath := modPath + "/" + rel
	for _, pkg := range p.SSA.AllPackages() {
		if pkg.Pkg == nil || pkg.Pkg.Path() != pkgPath {
			continue
		}
		var fns []*ssa.Function
		var add func(f *ssa.Function)
		add = func(f *ssa.Function) {
			fns = append(fns, f)
			for _, af := range f.AnonFuncs {
				add(af)
			}
		}
		for _, m := range pkg.Members {
			if f, ok := m.(*ssa.Function); ok {
				add(f)
			}
			if t, ok := m.(*ssa.Type); ok {
				for _, ms := range []*types.MethodSet{p.SSA.MethodSets.MethodSet(t.Type()), p.SSA.MethodSets.MethodSet(types.NewPointer(t.Type()))} {
					for i := 0; i < ms.Len(); i++ {
						if f := p.SSA.MethodValue(ms.At(i)); f != nil && f.Pkg == pkg {
							add(f)
						}
					}
				}
			}
		}
		seen := map[*ssa.Const]bool{}
		for _, fn := range fns {
			for _, b := range fn.Blocks {
				for _, in := range b.Instrs {
					for _, op := range in.Operands(nil) {
						c, ok := (*op).(*ssa.Const)
						if !ok || seen[c] {
							continue
						}
						seen[c] = true
						s, ok := constString(c)
						if !ok {
							continue
						}
						norm := normSQL(s)
						if !strings.HasPrefix(norm, "create table ") {
							continue
						}
						name := strings.Fields(strings.TrimPrefix(norm, "create table "))[0]
						name = strings.TrimPrefix(name, "if not exists ")
						name = strings.Trim(name, "(")
						pos := in.Pos()
						if !pos.IsValid() {
							pos = fn.Pos()
						}
						out[name] = append(out[name], ddlText{norm, p.Rel(pos)})
					}
				}
			}
		}
	}
	return out
}

type ddlText struct{ text, pos string }

// normSQL: lower-case, comments removed, whitespace collapsed.
func normSQL(s string) string {
	var lines []string
	for _, l := range strings.Split(s, "\n") {
		if i := strings.Index(l, "--"); i >= 0 {
			l = l[:i]
		}
		lines = append(lines, l)
	}
	s = strings.ToLower(strings.Join(strings.Fields(strings.Join(lines, " ")), " "))
	s = strings.ReplaceAll(s, "( ", "(")
	s = strings.ReplaceAll(s, " )", ")")
	return s
}

func init() {
	register(&Rule{
		ID: "C15-e", Template: "T10 agreement (schema text)",
		Doc: "Names are matched literally and a log entry is never replaced: the CREATE TABLE text that production repositories get (pkg/migrate) equals, per table, the text the store is developed and tested against (pkg/ref/sql CreateTableStmts), and neither contains COLLATE (NOCASE would make `Main` and `main` one ref and prefix listings case-insensitive) nor an ON CONFLICT clause (a primary-key conflict on (ref, ordinal) must fail the transaction, not silently replace or drop a log row).",
		Min: 6,
		Run: func(p *Program, r *RuleResult) error {
			if _, err := p.Func("pkg/ref/sql.(*Store).Filter"); err != nil {
				return err
			}
			dev := ddlConsts(p, "pkg/ref/sql")
			prod := ddlConsts(p, "pkg/migrate")
			r.Analysed = len(dev) + len(prod)
			for _, tbl := range []string{"refs", "reflogs", "transactions"} {
				d, okd := dev[tbl]
				pr, okp := prod[tbl]
				key := "schema|" + tbl
				what := "CREATE TABLE " + tbl + ": the migrated (production) schema equals the store's own"
				if !okd || !okp {
					r.missing(key, fmt.Sprintf("CREATE TABLE %s not found in both pkg/ref/sql (%v) and pkg/migrate (%v)", tbl, okd, okp))
					continue
				}
				same := true
				for _, x := range pr {
					if x.text != d[0].text {
						same = false
						r.bad(key, x.pos, what, "the statement in pkg/migrate differs from pkg/ref/sql.CreateTableStmts ("+d[0].pos+"): the suite exercises a schema that production repositories do not have")
						break
					}
				}
				if same {
					r.ok(key, pr[0].pos, what)
				}
				for i, x := range append(append([]ddlText{}, d...), pr...) {
					k2 := fmt.Sprintf("schema|%s|clauses#%d", tbl, i)
					w2 := "CREATE TABLE " + tbl + " has no COLLATE / ON CONFLICT clause"
					var bad []string
					for _, w := range sqlWords(x.text) {
						if w == "COLLATE" || w == "NOCASE" {
							bad = append(bad, w)
						}
					}
					if strings.Contains(x.text, "on conflict") {
						bad = append(bad, "ON CONFLICT")
					}
					if len(bad) > 0 {
						r.bad(k2, x.pos, w2, "schema uses "+strings.Join(bad, ", ")+": ref names stop being matched literally / a conflicting log row is replaced instead of failing the update")
					} else {
						r.ok(k2, x.pos, w2)
					}
				}
			}
			return nil
		},
	})
}

// ---- sorter output: full blocks ----

func init() {
	register(&Rule{
		ID: "C01-g", Template: "T4 permit-cut (block size invariant)",
		Doc: "Every block but the last holds exactly 255 rows: in pkg/sorter a sorter.Block that is created inside the row loop of a producer is reachable, within one iteration, only through the true edge of `len(rows) == 255`. Row positions are computed as block×255+offset everywhere (table index, diff, export paging); a block closed early on any other condition shifts every later row and makes rows unreachable by position.",
		Min: 1,
		Run: func(p *Program, r *RuleResult) error {
			blockT, err := p.NamedType("pkg/sorter.Block")
			if err != nil {
				return err
			}
			fns := p.FuncsInPkg("pkg/sorter")
			r.Analysed = len(fns)
			// constructors: functions of the package that return a *Block they allocate
			ctors := map[*ssa.Function]bool{}
			// (whatever they return: a helper that builds the block and sends it is one too);
			// a function whose Block literal sits inside a loop of its own is a producer, not a constructor
			for _, fn := range fns {
				if fn.Parent() != nil {
					continue
				}
				inLoop, outside := false, false
				for _, b := range fn.Blocks {
					for _, in := range b.Instrs {
						if a, ok := in.(*ssa.Alloc); ok {
							if apt, ok := a.Type().(*types.Pointer); ok && types.Identical(apt.Elem(), blockT) {
								if enclosingLoop(b) != nil {
									inLoop = true
								} else {
									outside = true
								}
							}
						}
					}
				}
				if outside && !inLoop && staticCallSites(p, fn) > 0 {
					ctors[fn] = true
				}
			}
			for _, fn := range fns {
				// full-block tests
				var full []ssa.Value
				for _, b := range fn.Blocks {
					for _, in := range b.Instrs {
						bo, ok := in.(*ssa.BinOp)
						if !ok || (bo.Op != token.EQL && bo.Op != token.GEQ && bo.Op != token.LEQ) {
							continue
						}
						x, y := bo.X, bo.Y
						op := bo.Op
						if _, ok := constInt(x); ok {
							x, y = y, x
							if op == token.LEQ {
								op = token.GEQ
							} else if op == token.GEQ {
								op = token.LEQ
							}
						}
						if op == token.LEQ {
							continue
						}
						if k, ok := constInt(y); !ok || k != 255 {
							continue
						}
						if c, ok := stripConv(x).(*ssa.Call); ok && isBuiltin(c, "len") {
							full = append(full, bo)
						}
					}
				}
				cutFull := boolEdges(fn, forward(full, fwdOpts{noBinOp: true}), true)
				n := 0
				for _, b := range fn.Blocks {
					for _, in := range b.Instrs {
						// a block is created here: a Block literal, or a call of a constructor of
						// the package (a function returning *Block that builds one)
						var al ssa.Instruction
						switch x := in.(type) {
						case *ssa.Alloc:
							if pt, ok := x.Type().(*types.Pointer); ok && types.Identical(pt.Elem(), blockT) && !ctors[fn] {
								al = x
							}
						case *ssa.Call:
							if sc := x.Call.StaticCallee(); sc != nil && ctors[sc] {
								al = x
							}
						}
						if al == nil {
							continue
						}
						h := enclosingLoop(b)
						if h == nil {
							r.note("%s: Block created outside any loop at %s (the last, partial block)", funcName(fn), p.Rel(al.Pos()))
							continue // the last, partial block after the loop
						}
						key := fmt.Sprintf("%s|Block-in-loop#%d", funcName(fn), n)
						n++
						what := "a block emitted inside the row loop is full (255 rows)"
						cut := mkCut(cutFull)
						for e := range loopExitEdges(h) {
							cut[e] = true
						}
						if path, reach := reachAfter(fn, h.Instrs[0], al, cut, nil); reach {
							r.bad(key, p.Rel(al.Pos()), what, fmtPath("the block is created on a path of the iteration that does not pass `len(·) == 255`", path))
						} else {
							r.ok(key, p.Rel(al.Pos()), what)
						}
					}
				}
			}
			return nil
		},
	})

	register(&Rule{
		ID: "C16-h", Template: "T2 never-follows (no report after cancellation)",
		Doc: "A producer that has seen its context cancelled does not report on the error channel any more: in the goroutines of pkg/sorter, pkg/ingest, pkg/diff and pkg/merge no send on an error channel is reachable from the `<-ctx.Done()` case of a select. Cancellation is how the consumer says it has gone away — it closes (or stops reading) the error channel right before it cancels, so a send there panics with 'send on closed channel' or blocks forever.",
		Min: 2,
		Run: func(p *Program, r *RuleResult) error {
			fns := p.FuncsInPkg("pkg/sorter", "pkg/ingest", "pkg/diff", "pkg/merge")
			r.Analysed = len(fns)
			for _, fn := range fns {
				n := 0
				for _, b := range fn.Blocks {
					for _, in := range b.Instrs {
						sel, ok := in.(*ssa.Select)
						if !ok {
							continue
						}
						for si, st := range sel.States {
							if st.Dir != types.RecvOnly || !isCtxDone(st.Chan) {
								continue
							}
							key := fmt.Sprintf("%s|ctx.Done-case#%d", funcName(fn), n)
							n++
							what := "nothing is sent on an error channel after cancellation was observed"
							// the block entered when case si fires
							start := selectCaseBlock(sel, si)
							if start == nil {
								r.ok(key, p.Rel(sel.Pos()), what)
								continue
							}
							var bad ssa.Instruction
							seen := map[*ssa.BasicBlock]bool{}
							stack := []*ssa.BasicBlock{start}
							for len(stack) > 0 && bad == nil {
								x := stack[len(stack)-1]
								stack = stack[:len(stack)-1]
								if seen[x] {
									continue
								}
								seen[x] = true
								for _, i2 := range x.Instrs {
									if sd, ok := i2.(*ssa.Send); ok && isErrorChan(sd.Chan.Type()) {
										bad = sd
										break
									}
								}
								stack = append(stack, x.Succs...)
							}
							if bad != nil {
								r.bad(key, p.Rel(bad.Pos()), what, "a send on an error channel is reachable from the `<-ctx.Done()` case at "+p.Rel(sel.Pos())+": the consumer that cancelled has already closed or abandoned that channel")
							} else {
								r.ok(key, p.Rel(sel.Pos()), what)
							}
						}
					}
				}
			}
			return nil
		},
	})
}

func isCtxDone(v ssa.Value) bool {
	c, ok := v.(*ssa.Call)
	if !ok {
		return false
	}
	cc := c.Common()
	if cc.IsInvoke() && cc.Method.Name() == "Done" && cc.Method.Pkg() != nil && cc.Method.Pkg().Path() == "context" {
		return true
	}
	return false
}

func isErrorChan(t types.Type) bool {
	ch, ok := t.Underlying().(*types.Chan)
	return ok && isErrorType(ch.Elem())
}

// selectCaseBlock: the block control reaches when state idx of sel is chosen. go/ssa
// lowers a select into a chain of `if index == k` tests on Extract #0.
func selectCaseBlock(sel *ssa.Select, idx int) *ssa.BasicBlock {
	var index ssa.Value
	for _, ref := range *sel.Referrers() {
		if ex, ok := ref.(*ssa.Extract); ok && ex.Index == 0 {
			index = ex
		}
	}
	if index == nil {
		return nil
	}
	for _, ref := range *index.Referrers() {
		bo, ok := ref.(*ssa.BinOp)
		if !ok || bo.Op != token.EQL {
			continue
		}
		k, ok := constInt(bo.Y)
		if !ok || int(k) != idx {
			continue
		}
		for _, r2 := range *bo.Referrers() {
			if ifi, ok := r2.(*ssa.If); ok {
				return ifi.Block().Succs[0]
			}
		}
	}
	return nil
}

// enclosingLoop: header of the innermost natural loop whose body contains b.
func enclosingLoop(b *ssa.BasicBlock) *ssa.BasicBlock {
	var best *ssa.BasicBlock
	for _, h := range b.Parent().Blocks {
		if !h.Dominates(b) {
			continue
		}
		isHeader := false
		for _, p := range h.Preds {
			if h.Dominates(p) {
				isHeader = true
			}
		}
		if !isHeader || !loopBody(h)[b] {
			continue
		}
		if best == nil || best.Dominates(h) {
			best = h
		}
	}
	return best
}

// ---- merge: column layout bookkeeping and the discarded-row set ----

func init() {
	register(&Rule{
		ID: "C05-e", Template: "T10 agreement (positions and position-keyed sets move together)",
		Doc: "The per-layer Added / Removed / Moved sets of diff.ColDiff are keyed by position in ColDiff.Names. In CompareColumns, once a layer has been added (addLayer) every later step that can reorder or replace Names (any function of pkg/diff reachable from it in the call graph that stores into Names or its elements — today only Swap, driven by sort.Stable in hoistPKToStart) also re-keys all three sets. Otherwise a column added or dropped in front of the key keeps its pre-hoist position and designates a different column: the merge drops the key column, or treats a removed column as an edited cell.",
		Min: 1,
		Run: func(p *Program, r *RuleResult) error {
			cc, err := p.SSAFunc("pkg/diff.CompareColumns")
			if err != nil {
				return err
			}
			addLayer, err := p.MustFuncs("pkg/diff.(*ColDiff).addLayer")
			if err != nil {
				return err
			}
			var fields [4]*types.Var
			for i, n := range []string{"Names", "Added", "Removed", "Moved"} {
				if fields[i], err = p.Field("pkg/diff.ColDiff." + n); err != nil {
					return err
				}
			}
			names := fields[0]
			writesNames := func(fn *ssa.Function) bool {
				for _, b := range fn.Blocks {
					for _, in := range b.Instrs {
						st, ok := in.(*ssa.Store)
						if !ok {
							continue
						}
						switch a := st.Addr.(type) {
						case *ssa.FieldAddr:
							if structField(a.X.Type(), a.Field) == names {
								return true
							}
						case *ssa.IndexAddr:
							if derivesFromField(a.X, names) {
								return true
							}
						}
					}
				}
				return false
			}
			rekeys := func(fn *ssa.Function) (bool, string) {
				for _, f := range fields[1:] {
					found := false
					for _, b := range fn.Blocks {
						for _, in := range b.Instrs {
							if mu, ok := in.(*ssa.MapUpdate); ok && derivesFromField(mu.Map, f) {
								found = true
							}
						}
					}
					if !found {
						return false, f.Name()
					}
				}
				return true, ""
			}
			r.Analysed = 1
			adds := callsTo(cc, addLayer)
			if len(adds) == 0 {
				r.missing("pkg/diff.CompareColumns|addLayer", "CompareColumns no longer calls addLayer")
				return nil
			}
			diffPkg := modPath + "/pkg/diff"
			n := 0
			eachCall(cc, func(c ssa.CallInstruction) {
				sc := c.Common().StaticCallee()
				if sc == nil || fnPkgPath(sc) != diffPkg || addLayer[calleeFunc(c)] {
					return
				}
				after := false
				for _, a := range adds {
					if _, reach := reachAfter(cc, a, c, nil, nil); reach {
						after = true
					}
				}
				if !after {
					return
				}
				key := fmt.Sprintf("%s|after-addLayer#%d", callKey(cc, c), n)
				n++
				what := "a step after addLayer that reorders Names re-keys Added, Removed and Moved"
				bad := ""
				for _, w := range sortedFuncs(p.Reachable(p.CG, sc)) {
					if fnPkgPath(w) != diffPkg || !writesNames(w) {
						continue
					}
					if ok, missing := rekeys(w); !ok {
						bad = fmt.Sprintf("%s (reached from %s) changes ColDiff.Names but does not update ColDiff.%s: the per-layer sets keep pre-move positions", funcName(w), funcName(sc), missing)
					}
				}
				if bad != "" {
					r.bad(key, p.Rel(c.Pos()), what, bad)
				} else {
					r.ok(key, p.Rel(c.Pos()), what)
				}
			})
			return nil
		},
	})

	register(&Rule{
		ID: "C05-d", Template: "provenance (the discarded-row set starts empty)",
		Doc: "Rows untouched by every branch are kept: the on-disk set of discarded keys that the merge's row collector consults (index.NewHashSet loads whatever the file already holds) is backed, at every production call site, by a file that is new by construction — ioutil.TempFile / os.CreateTemp / testutils.TempFile, os.Create, or os.OpenFile with O_TRUNC or O_EXCL. A file with a predictable name that may survive an interrupted merge makes the next merge skip base rows nobody touched.",
		Min: 1,
		Run: func(p *Program, r *RuleResult) error {
			nhs, err := p.MustFuncs("pkg/index.NewHashSet")
			if err != nil {
				return err
			}
			fns := p.ProdFuncs()
			r.Analysed = len(fns)
			fresh := map[string]bool{"io/ioutil.TempFile": true, "os.CreateTemp": true, "os.Create": true, modPath + "/pkg/testutils.TempFile": true}
			for _, fn := range fns {
				for _, c := range callsTo(fn, nhs) {
					key := callKey(fn, c)
					what := "the hash set's backing file is new by construction"
					args := c.Common().Args
					if len(args) == 0 {
						continue
					}
					ok, why := false, "the backing store is not the result of a temp-file constructor"
					for v := range backward(args[0], nil) {
						call, isCall := v.(*ssa.Call)
						if !isCall {
							continue
						}
						f := calleeFunc(call)
						if f == nil || f.Pkg() == nil {
							continue
						}
						full := f.Pkg().Path() + "." + f.Name()
						if fresh[full] {
							ok = true
						}
						if full == "os.OpenFile" && len(call.Call.Args) >= 2 {
							if flags, isC := constInt(call.Call.Args[1]); isC {
								if flags&int64(0x200) != 0 || flags&int64(0x80) != 0 { // O_TRUNC, O_EXCL (linux)
									ok = true
								} else {
									why = "os.OpenFile without O_TRUNC / O_EXCL: an existing file (left by an interrupted merge) is loaded as the initial set"
								}
							} else {
								why = "os.OpenFile with non-constant flags"
							}
						}
					}
					if ok {
						r.ok(key, p.Rel(c.Pos()), what)
					} else {
						r.bad(key, p.Rel(c.Pos()), what, why)
					}
				}
			}
			return nil
		},
	})
}

func init() {
	register(&Rule{
		ID: "C13-k", Template: "T3 who-may-call (only the collector deletes objects)",
		Doc: "Objects are content-addressed and shared between commits, so only a reachability analysis can tell that one is unreferenced: objects.DeleteBlock / DeleteBlockIndex / DeleteTable / DeleteTableIndex / DeleteTableProfile / DeleteCommit are called only from pkg/prune (behind its marks, C12-c). An error path of commit, merge or receive that 'cleans up' what it has just written deletes a table that an earlier commit with the same content still points to — and the retry that would repair it never comes.",
		Min: 5,
		Run: func(p *Program, r *RuleResult) error {
			del, err := p.MustFuncs("pkg/objects.DeleteBlock", "pkg/objects.DeleteBlockIndex", "pkg/objects.DeleteTable", "pkg/objects.DeleteTableIndex", "pkg/objects.DeleteTableProfile", "pkg/objects.DeleteCommit")
			if err != nil {
				return err
			}
			fns := p.ProdFuncs()
			r.Analysed = len(fns)
			for _, fn := range fns {
				for _, c := range callsTo(fn, del) {
					what := "stored objects are deleted only by prune's mark-and-sweep"
					pkg := strings.TrimPrefix(fnPkgPath(fn), modPath+"/")
					if pkg == "pkg/prune" || pkg == "pkg/objects" {
						r.ok(callKey(fn, c), p.Rel(c.Pos()), what)
					} else {
						r.bad(callKey(fn, c), p.Rel(c.Pos()), what, funcName(fn)+" deletes a stored object without knowing whether another commit or table shares it")
					}
				}
			}
			return nil
		},
	})
}

// ---- SQL ref store: failed statements abort, no in-memory state ----

func init() {
	register(&Rule{
		ID: "C15-f", Template: "T5-strong (a failed statement aborts the transaction)",
		Doc: "A ref operation happens completely or not at all: inside every sqlutil.RunInTx closure of pkg/ref/sql, when a write or multi-row read on the transaction ((*sql.Tx).Exec / Query / Prepare) fails, every path from the failure leaves the closure with a non-nil error (single-row Scans are out of scope: a failed Scan is how this store learns that a ref does not exist). An error that is examined and then answered with a second, different statement (INSERT failed → UPDATE instead) commits a half-intended result: a rename onto a taken name overwrites it instead of failing.",
		Min: 8,
		Run: func(p *Program, r *RuleResult) error {
			runInTx, err := runInTxFunc(p)
			if err != nil {
				return err
			}
			fns := p.FuncsInPkg("pkg/ref/sql")
			r.Analysed = len(fns)
			for _, fn := range fns {
				for cl := range txClosures(fn, runInTx) {
					for _, call := range errCalls(cl) {
						f := calleeFunc(call)
						if f == nil || f.Pkg() == nil || f.Pkg().Path() != "database/sql" {
							continue
						}
						// writes and multi-row reads; a failed single-row Scan is this store's
						// way of learning that the ref does not exist (old value nil)
						if n := f.Name(); n != "Exec" && n != "ExecContext" && n != "Query" && n != "QueryContext" && n != "Prepare" {
							continue
						}
						vals := errValuesOfCall(call)
						if vals == nil {
							continue
						}
						key := callKey(cl, call)
						what := "a failed statement makes the transaction closure return an error"
						// failure edges of this call's error tests
						fail := successEdgesFail(cl, call)
						if len(fail) == 0 {
							// the error is returned directly (return tx.Exec(...)) or not tested at all
							direct := false
							for _, ret := range returnsOf(cl) {
								if v := retVal(ret, errorResultIndex(cl.Signature)); v != nil && vals[v] {
									direct = true
								}
							}
							if direct {
								r.ok(key, p.Rel(call.Pos()), what)
							} else {
								r.bad(key, p.Rel(call.Pos()), what, "the statement's error is neither tested nor returned")
							}
							continue
						}
						noRows := testEdges(cl, eofTestsOn(cl, vals, "database/sql", "ErrNoRows"), true)
						bad := ""
						for _, e := range fail {
							succ := e.from.Succs[e.succ]
							if !failsOnly(cl, succ, mkCut(noRows), vals, map[*ssa.BasicBlock]bool{}) {
								bad = fmt.Sprintf("after %s failed (%s) the closure can go on and return nil: the transaction commits although a statement of it did not happen", shortObj(f), p.Rel(call.Pos()))
							}
						}
						if bad != "" {
							r.bad(key, p.Rel(call.Pos()), what, bad)
						} else {
							r.ok(key, p.Rel(call.Pos()), what)
						}
					}
				}
			}
			return nil
		},
	})

	register(&Rule{
		ID: "C15-g", Template: "T3 who-may-write (the store has no memory of its own)",
		Doc: "The ref store is the database: no method of pkg/ref/sql.Store stores into a field of the Store or updates a map or slice held in one (outside the constructor). Ordinals, old values and listings are read from the tables inside the transaction that uses them; a cache kept in the Store object goes stale as soon as a rename, copy, delete — or another process sharing the SQLite file — changes the rows behind it.",
		Min: 1,
		Run: func(p *Program, r *RuleResult) error {
			st, err := p.NamedType("pkg/ref/sql.Store")
			if err != nil {
				return err
			}
			fns := p.FuncsInPkg("pkg/ref/sql")
			r.Analysed = len(fns)
			n := 0
			isStoreField := func(addr ssa.Value) (*types.Var, bool) {
				fa, ok := addr.(*ssa.FieldAddr)
				if !ok {
					return nil, false
				}
				if nt, ok := derefType(fa.X.Type()).(*types.Named); !ok || nt.Obj() != st.Obj() {
					return nil, false
				}
				return structField(fa.X.Type(), fa.Field), true
			}
			for _, fn := range fns {
				if fn.Name() == "NewStore" || fn.Signature.Recv() == nil && fn.Parent() == nil {
					continue
				}
				for _, b := range fn.Blocks {
					for _, in := range b.Instrs {
						switch x := in.(type) {
						case *ssa.Store:
							if f, ok := isStoreField(x.Addr); ok {
								n++
								r.bad(fmt.Sprintf("%s|Store.%s=", funcName(fn), f.Name()), p.Rel(x.Pos()), "the SQL ref store keeps no state outside the database", funcName(fn)+" assigns Store."+f.Name())
							}
						case *ssa.MapUpdate:
							if u, ok := x.Map.(*ssa.UnOp); ok && u.Op == token.MUL {
								if f, ok := isStoreField(u.X); ok {
									n++
									r.bad(fmt.Sprintf("%s|Store.%s[·]=", funcName(fn), f.Name()), p.Rel(x.Pos()), "the SQL ref store keeps no state outside the database", funcName(fn)+" updates the map Store."+f.Name()+": an in-memory shadow of table contents that renames, copies, deletes and other processes do not keep current")
								}
							}
						}
					}
				}
			}
			if n == 0 {
				r.ok("pkg/ref/sql.Store|stateless", "", "the SQL ref store keeps no state outside the database")
			}
			return nil
		},
	})
}

// failsOnly: every path from b ends in a return of a non-nil error (or passes a cut
// edge, which ends the obligation).
func failsOnly(fn *ssa.Function, b *ssa.BasicBlock, exempt cutSet, errVals map[ssa.Value]bool, seen map[*ssa.BasicBlock]bool) bool {
	if seen[b] {
		return false
	}
	seen[b] = true
	defer delete(seen, b)
	if len(b.Instrs) == 0 {
		return false
	}
	switch t := b.Instrs[len(b.Instrs)-1].(type) {
	case *ssa.Return:
		ei := errorResultIndex(fn.Signature)
		if ei < 0 {
			return false
		}
		v := retVal(t, ei)
		if v == nil || isNilConst(v) {
			return false
		}
		return errVals[v] || definitelyNonNilError(v) || nonNilByGuard(fn, t, v) || isGlobalLoad(v)
	case *ssa.Panic:
		return true
	default:
		if len(b.Succs) == 0 {
			return false
		}
		for i, s := range b.Succs {
			if exempt[edge{b, i}] {
				continue
			}
			if !failsOnly(fn, s, exempt, errVals, seen) {
				return false
			}
		}
		return true
	}
}
