package main

// C05: column-layout consistency of the merge result pipeline. Values are
// classified as base/branch layout (rows read from stored blocks, Table.PK) or
// merged layout (results of ColDiff.Rearrange*/PKIndices, Merge.ResolvedRow); a
// base/branch-layout value must not reach the result sorter unchanged.

import (
	"fmt"
	"go/token"
	"go/types"
	"sort"
	"strings"

	"golang.org/x/tools/go/ssa"
)

type layoutCtx struct {
	p          *Program
	merged     map[*types.Func]bool // ColDiff.RearrangeRow, RearrangeBaseRow, PKIndices
	baseRows   map[*types.Func]bool // objects.GetBlock, BlockBuffer.GetRow: result #0 holds stored rows
	resolved   *types.Var           // merge.Merge.ResolvedRow
	tablePK    *types.Var           // objects.Table.PK
	sorterPK   *types.Var           // sorter.Sorter.PK
	resolvedRS *types.Var           // merge.RowCollector.resolvedRows
}

func newLayoutCtx(p *Program) (*layoutCtx, error) {
	c := &layoutCtx{p: p}
	var err error
	if c.merged, err = p.MustFuncs("pkg/diff.(*ColDiff).RearrangeRow", "pkg/diff.(*ColDiff).RearrangeBaseRow", "pkg/diff.(*ColDiff).PKIndices"); err != nil {
		return nil, err
	}
	if c.baseRows, err = p.MustFuncs("pkg/objects.GetBlock", "pkg/diff.(*BlockBuffer).GetRow"); err != nil {
		return nil, err
	}
	if c.resolved, err = p.Field("pkg/merge.Merge.ResolvedRow"); err != nil {
		return nil, err
	}
	if c.tablePK, err = p.Field("pkg/objects.Table.PK"); err != nil {
		return nil, err
	}
	if c.sorterPK, err = p.Field("pkg/sorter.Sorter.PK"); err != nil {
		return nil, err
	}
	if c.resolvedRS, err = p.Field("pkg/merge.RowCollector.resolvedRows"); err != nil {
		return nil, err
	}
	return c, nil
}

// origins classifies where a slice value comes from.
func (c *layoutCtx) origins(v ssa.Value, depth int, seen map[ssa.Value]bool, out map[string]string) {
	if v == nil || seen[v] || depth > 6 {
		if depth > 6 {
			out["unknown"] = "depth"
		}
		return
	}
	seen[v] = true
	switch x := v.(type) {
	case *ssa.Call:
		if f := calleeFunc(x); f != nil {
			if c.merged[f] {
				out["merged"] = shortObj(f)
				return
			}
			if c.baseRows[f] {
				out["base"] = "result of " + shortObj(f)
				return
			}
		}
		out["unknown"] = "call"
	case *ssa.Extract:
		c.origins(x.Tuple, depth, seen, out)
	case *ssa.Phi:
		for _, e := range x.Edges {
			c.origins(e, depth, seen, out)
		}
	case *ssa.ChangeType:
		c.origins(x.X, depth, seen, out)
	case *ssa.Slice:
		c.origins(x.X, depth, seen, out)
	case *ssa.UnOp:
		if x.Op != token.MUL {
			out["unknown"] = "unop"
			return
		}
		switch a := x.X.(type) {
		case *ssa.FieldAddr:
			fv := structField(a.X.Type(), a.Field)
			switch fv {
			case c.resolved:
				out["merged"] = "Merge.ResolvedRow"
			case c.tablePK:
				out["base"] = "objects.Table.PK"
			default:
				out["unknown"] = "field " + fv.Name()
			}
		case *ssa.IndexAddr:
			// element of a collection: a row of a block
			sub := map[string]string{}
			c.origins(a.X, depth, seen, sub)
			for k, w := range sub {
				if k == "base" {
					out["base"] = "row of " + w
				} else {
					out[k] = w
				}
			}
		case *ssa.Alloc, *ssa.FreeVar:
			if cell := cellOf(a); cell != nil {
				sts := cellStores(cell)
				if len(sts) == 0 {
					out["unknown"] = "cell"
				}
				for _, st := range sts {
					c.origins(st.Val, depth, seen, out)
				}
			} else {
				out["unknown"] = "cell"
			}
		default:
			out["unknown"] = "load"
		}
	case *ssa.Parameter:
		fn := x.Parent()
		idx := -1
		for i, par := range fn.Params {
			if par == x {
				idx = i
			}
		}
		n := c.p.CG.Nodes[fn]
		found := false
		if n != nil && idx >= 0 {
			for _, e := range n.In {
				if e.Site == nil || !c.p.IsProd(e.Caller.Func) {
					continue
				}
				args := e.Site.Common().Args
				ai := idx
				if e.Site.Common().IsInvoke() {
					ai = idx - 1
				}
				if ai >= 0 && ai < len(args) {
					found = true
					c.origins(args[ai], depth+1, seen, out)
				}
			}
		}
		if !found {
			out["unknown"] = "parameter without callers"
		}
	case *ssa.Const:
		// nil
	default:
		out["unknown"] = fmt.Sprintf("%T", v)
	}
}

// isResultSorter: the *Sorter value is (loaded from) RowCollector.resolvedRows, or a
// local that is stored into that field.
func (c *layoutCtx) isResultSorter(v ssa.Value) bool {
	v = stripConv(v)
	if u, ok := v.(*ssa.UnOp); ok && u.Op == token.MUL {
		if fa, ok := u.X.(*ssa.FieldAddr); ok && structField(fa.X.Type(), fa.Field) == c.resolvedRS {
			return true
		}
	}
	// value stored into the field somewhere in its function
	if v.Referrers() != nil {
		for _, ref := range *v.Referrers() {
			if st, ok := ref.(*ssa.Store); ok && st.Val == v {
				if fa, ok := st.Addr.(*ssa.FieldAddr); ok && structField(fa.X.Type(), fa.Field) == c.resolvedRS {
					return true
				}
			}
		}
	}
	if ex, ok := v.(*ssa.Extract); ok {
		return c.isResultSorter2(ex)
	}
	return false
}

func (c *layoutCtx) isResultSorter2(v ssa.Value) bool {
	if v.Referrers() == nil {
		return false
	}
	for _, ref := range *v.Referrers() {
		if st, ok := ref.(*ssa.Store); ok && st.Val == v {
			if fa, ok := st.Addr.(*ssa.FieldAddr); ok && structField(fa.X.Type(), fa.Field) == c.resolvedRS {
				return true
			}
		}
	}
	return false
}

func fmtOrigins(m map[string]string) string {
	var ks []string
	for k, v := range m {
		ks = append(ks, k+" ("+v+")")
	}
	sort.Strings(ks)
	return strings.Join(ks, ", ")
}

func init() {
	register(&Rule{
		ID: "C05-a", Template: "T6 layout typestate",
		Doc: "Merge result pipeline: every row added to the result sorter (RowCollector.resolvedRows) and the key positions stored into its PK field are in the merged column layout (results of ColDiff.RearrangeRow / RearrangeBaseRow / PKIndices, Merge.ResolvedRow); a row read from a stored block or objects.Table.PK never reaches them unchanged. Otherwise untouched base rows appear under the wrong column names and the sorter keys on the wrong column whenever the key is not the first base column.",
		Min: 3,
		Run: func(p *Program, r *RuleResult) error {
			c, err := newLayoutCtx(p)
			if err != nil {
				return err
			}
			addRow, err := p.MustFuncs("pkg/sorter.(*Sorter).AddRow")
			if err != nil {
				return err
			}
			fns := p.FuncsInPkg("pkg/merge")
			r.Analysed = len(fns)
			totalPK := 0
			for _, fn := range fns {
				nPK := 0
				for _, ci := range callsTo(fn, addRow) {
					args := ci.Common().Args
					if len(args) < 2 || !c.isResultSorter(args[0]) {
						continue
					}
					key := callKey(fn, ci)
					what := "row added to the merge result sorter is in the merged column layout"
					o := map[string]string{}
					c.origins(args[1], 0, map[ssa.Value]bool{}, o)
					if w, bad := o["base"]; bad {
						r.bad(key, p.Rel(ci.Pos()), what, "the row is a "+w+" passed on unchanged: it is still in the base table's column order (origins: "+fmtOrigins(o)+")")
					} else {
						r.okWhy(key, p.Rel(ci.Pos()), what, "origins: "+fmtOrigins(o))
					}
				}
				for _, b := range fn.Blocks {
					for _, in := range b.Instrs {
						st, ok := in.(*ssa.Store)
						if !ok {
							continue
						}
						fa, ok := st.Addr.(*ssa.FieldAddr)
						if !ok || structField(fa.X.Type(), fa.Field) != c.sorterPK {
							continue
						}
						if !c.isResultSorter(fa.X) {
							continue
						}
						key := fmt.Sprintf("%s|store Sorter.PK#%d", funcName(fn), nPK)
						nPK++
						totalPK++
						what := "key positions of the merge result sorter are positions in the merged column layout"
						o := map[string]string{}
						c.origins(st.Val, 0, map[ssa.Value]bool{}, o)
						if w, bad := o["base"]; bad {
							r.bad(key, p.Rel(st.Pos()), what, "the positions come from "+w+": valid for the base table's own column order only")
						} else if _, ok := o["merged"]; ok {
							r.okWhy(key, p.Rel(st.Pos()), what, "origins: "+fmtOrigins(o))
						} else {
							r.okWhy(key, p.Rel(st.Pos()), what, "origin not classified (treated as unknown): "+fmtOrigins(o))
						}
					}
				}
			}
			if totalPK == 0 {
				r.missing("store Sorter.PK", "no store of key positions into the merge result sorter was found")
			}
			return nil
		},
	})
}
