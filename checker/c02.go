package main

// C02: a table's identity depends only on its logical content. The identity is a
// hash of bytes built from the rows, so "equal for every permutation / spill count /
// worker count / delimiter" is a relation between two executions and not decided
// here. Four mechanisms behind it have a shape in the source:
//
//   C02-a  the "nothing changed" outcome of a commit is reached only through a
//          comparison of two table identifiers;
//   C02-b  no environment value (clock, host, pid, random numbers, CPU count,
//          environment variables) is read in the packages that form the identity;
//   C02-c  configuration (run size, delimiter, worker count) never becomes data:
//          it is compared, counted with and handed to the CSV reader, but no value
//          computed from it is stored into a row, a block, a table or handed to an
//          encoder;
//   C02-d  a row has the same bytes whether it went through a spill file or stayed
//          in memory: both paths encode the untouched stored row with the same
//          encoder, and the spill file receives exactly the encoder's bytes.
//
// Together with the rules listed from C01/C06/C16/C19 (full blocks only, offset sort
// of the workers' results, content-addressed keys, canonical comparators, sort before
// merge) these are the structural part of the property.

import (
	"fmt"
	"go/token"
	"go/types"
	"sort"
	"strings"

	"golang.org/x/tools/go/ssa"
)

var c02Pkgs = []string{"pkg/sorter", "pkg/ingest", "pkg/objects", "pkg/slice", "pkg/encoding/objline"}

// envSources: functions whose result differs between machines, processes or runs.
func isEnvSource(f *types.Func) (string, bool) {
	if f == nil || f.Pkg() == nil {
		return "", false
	}
	pkg, name := f.Pkg().Path(), f.Name()
	switch pkg {
	case "time":
		if name == "Now" || name == "Since" || name == "Until" {
			return "time." + name, true
		}
	case "os":
		switch name {
		case "Hostname", "Getpid", "Getppid", "Getuid", "Geteuid", "Getgid", "Getenv", "LookupEnv", "Environ", "Getwd", "Executable", "UserHomeDir":
			return "os." + name, true
		}
	case "math/rand", "math/rand/v2", "crypto/rand":
		return pkg + "." + name, true
	case "runtime":
		switch name {
		case "NumCPU", "GOMAXPROCS", "NumGoroutine":
			return "runtime." + name, true
		}
	case "os/user":
		return pkg + "." + name, true
	}
	if strings.HasSuffix(pkg, "/uuid") && strings.HasPrefix(name, "New") {
		return "uuid." + name, true
	}
	return "", false
}

func init() {
	register(&Rule{
		ID: "C02-a", Template: "T4 permit-cut (unchanged ⇔ same table identifier)",
		Doc: "Re-committing unchanged data is detected by identity and by nothing else: in cmd/wrgl.commitIfBranchFileHasChanged every successful return that did not go through commitWithTable (the 'no change' answer) is reachable only through the 'equal' outcome of a comparison whose two operands are the Table fields of two different commits read with objects.GetCommit — not commit sums (they contain the time), not file names or modification times.",
		Min: 1,
		Run: func(p *Program, r *RuleResult) error {
			fn, err := p.SSAFunc("cmd/wrgl.commitIfBranchFileHasChanged")
			if err != nil {
				return err
			}
			cwt, err := p.MustFuncs("cmd/wrgl.commitWithTable")
			if err != nil {
				return err
			}
			getCommit, err := p.MustFuncs("pkg/objects.GetCommit")
			if err != nil {
				return err
			}
			table, err := p.Field("pkg/objects.Commit.Table")
			if err != nil {
				return err
			}
			r.Analysed = 1
			commitsOf := func(v ssa.Value) map[ssa.Value]bool {
				out := map[ssa.Value]bool{}
				for x := range backward(v, nil) {
					if c, ok := x.(*ssa.Call); ok {
						if f := calleeFunc(c); f != nil && getCommit[f] {
							out[c] = true
						}
					}
				}
				return out
			}
			distinct := func(a, b ssa.Value) bool {
				if !derivesFromField(a, table) || !derivesFromField(b, table) {
					return false
				}
				ca, cb := commitsOf(a), commitsOf(b)
				if len(ca) == 0 || len(cb) == 0 {
					return false
				}
				for x := range ca {
					if cb[x] {
						return false
					}
				}
				return true
			}
			// a helper of the package that answers whether two commits have the same table:
			// returns the indices of the two parameters it compares
			sameTableHelper := func(h *ssa.Function) (int, int, bool) {
				if h == nil || len(h.Blocks) == 0 || fnPkgPath(h) != fnPkgPath(fn) || h.Signature.Results().Len() != 1 {
					return 0, 0, false
				}
				if bt, ok := h.Signature.Results().At(0).Type().Underlying().(*types.Basic); !ok || bt.Kind() != types.Bool {
					return 0, 0, false
				}
				paramOf := func(v ssa.Value) int {
					if !derivesFromField(v, table) {
						return -1
					}
					for x := range backward(v, nil) {
						for i, prm := range h.Params {
							if x == ssa.Value(prm) {
								return i
							}
						}
					}
					return -1
				}
				pi, pj, n := -1, -1, 0
				for _, ret := range returnsOf(h) {
					res := ret.Results[0]
					if c, ok := res.(*ssa.Const); ok && c.Value != nil && c.Value.String() == "false" {
						continue
					}
					var a, b ssa.Value
					switch x := stripConv(res).(type) {
					case *ssa.Call:
						if f := calleeFunc(x); f != nil && f.Pkg() != nil && f.Pkg().Path() == "bytes" && f.Name() == "Equal" && len(x.Call.Args) == 2 {
							a, b = x.Call.Args[0], x.Call.Args[1]
						}
					case *ssa.BinOp:
						if x.Op == token.EQL {
							a, b = x.X, x.Y
						}
					}
					if a == nil {
						return 0, 0, false
					}
					i, j := paramOf(a), paramOf(b)
					if i < 0 || j < 0 || i == j {
						return 0, 0, false
					}
					pi, pj = i, j
					n++
				}
				return pi, pj, n > 0
			}
			// the equal edges
			var eq []edge
			var eqVals []ssa.Value
			for _, b := range fn.Blocks {
				for _, in := range b.Instrs {
					switch x := in.(type) {
					case *ssa.Call:
						if f := calleeFunc(x); f != nil && f.Pkg() != nil && f.Pkg().Path() == "bytes" && f.Name() == "Equal" && len(x.Call.Args) == 2 && distinct(x.Call.Args[0], x.Call.Args[1]) {
							eqVals = append(eqVals, x)
						}
						if i, j, ok := sameTableHelper(x.Call.StaticCallee()); ok && i < len(x.Call.Args) && j < len(x.Call.Args) {
							ca, cb := commitsOf(x.Call.Args[i]), commitsOf(x.Call.Args[j])
							same := len(ca) == 0 || len(cb) == 0
							for y := range ca {
								if cb[y] {
									same = true
								}
							}
							if !same {
								eqVals = append(eqVals, x)
							}
						}
					case *ssa.BinOp:
						if (x.Op == token.EQL || x.Op == token.NEQ) && distinct(x.X, x.Y) {
							if x.Op == token.EQL {
								eqVals = append(eqVals, x)
							} else {
								eq = append(eq, boolEdges(fn, map[ssa.Value]bool{x: true}, false)...)
							}
						}
					}
				}
			}
			eq = append(eq, boolEdges(fn, forward(eqVals, fwdOpts{noBinOp: true}), true)...)
			cut := mkCut(eq)
			ei := errorResultIndex(fn.Signature)
			commitSites := effSites(p, fn, cwt, inlineDepth)
			n := 0
			for _, ret := range returnsOf(fn) {
				if v := retVal(ret, ei); v != nil && (definitelyNonNilError(v) || nonNilByGuard(fn, ret, v)) {
					continue
				}
				// a return that hands on the result of the commit
				viaCommit := false
				for _, res := range ret.Results {
					for x := range backward(res, nil) {
						for _, e := range commitSites {
							if c, ok := e.site.(*ssa.Call); ok && x == ssa.Value(c) {
								viaCommit = true
							}
						}
					}
				}
				if viaCommit {
					continue
				}
				key := fmt.Sprintf("%s|no-change#%d", funcName(fn), n)
				n++
				what := "'no change' is answered only when the two table identifiers are equal"
				if len(eq) == 0 {
					r.bad(key, p.Rel(ret.Pos()), what, "no comparison of the Table fields of two commits in "+funcName(fn))
				} else if path, reach := reachAfter(fn, nil, ret, cut, nil); reach {
					r.bad(key, p.Rel(ret.Pos()), what, fmtPath("the 'no change' return is reachable without the two table identifiers having been found equal", path))
				} else {
					r.ok(key, p.Rel(ret.Pos()), what)
				}
			}
			if len(commitSites) == 0 {
				r.bad(funcName(fn)+"|commits", p.Rel(fn.Pos()), "a changed table is committed", "commitWithTable is not reached from "+funcName(fn))
			}
			return nil
		},
	})

	register(&Rule{
		ID: "C02-b", Template: "T3 who-may-call (no environment in identity-forming code)",
		Doc: "Which machine, process or moment ingested a table leaves no trace in it: no function of pkg/sorter, pkg/ingest, pkg/objects, pkg/slice or pkg/encoding/objline calls a clock, host, process, user, environment-variable, random-number, UUID or CPU-count source. One exception, one symbol wide: pkg/sorter.getRunSize reads the machine's memory to size the sort runs (decided separately: the run size never becomes data, C02-c).",
		Min: 1,
		Run: func(p *Program, r *RuleResult) error {
			if _, err := p.SSAFunc("pkg/sorter.getRunSize"); err != nil {
				return err
			}
			fns := p.FuncsInPkg(c02Pkgs...)
			r.Analysed = len(fns)
			if len(fns) < 100 {
				return &AnchorError{"identity-forming packages (pkg/sorter, pkg/ingest, pkg/objects, pkg/slice, pkg/encoding/objline)"}
			}
			// package-level variable initialisers run in the synthetic init
			for _, pkg := range p.SSA.AllPackages() {
				if pkg.Pkg == nil {
					continue
				}
				for _, rel := range c02Pkgs {
					if pkg.Pkg.Path() == modPath+"/"+rel {
						if in := pkg.Func("init"); in != nil && len(in.Blocks) > 0 {
							fns = append(fns, in)
						}
					}
				}
			}
			n := 0
			for _, fn := range fns {
				eachCall(fn, func(c ssa.CallInstruction) {
					if name, ok := isEnvSource(calleeFunc(c)); ok {
						n++
						r.bad(callKey(fn, c), p.Rel(c.Pos()), "identity-forming code reads nothing from its environment", funcName(fn)+" calls "+name+": the same rows ingested elsewhere or later can differ in what is stored")
					}
				})
			}
			if n == 0 {
				r.ok("identity-forming packages|environment-free", "", "identity-forming code reads nothing from its environment")
			}
			return nil
		},
	})

	register(&Rule{
		ID: "C02-c", Template: "T6 taint → sink (configuration never becomes data)",
		Doc: "Run size, delimiter and worker count change how the work is done, not what is stored: in pkg/sorter and pkg/ingest no value computed (by arithmetic, conversion, formatting, through calls and results inside the two packages) from Sorter.runSize, Sorter.size, Sorter.delimiter, Inserter.numWorkers or the machine's memory figures is stored into an element of a row / block (string, []string, []byte data), into a field of objects.Table, sorter.Block, sorter.Rows or ingest.asyncBlock, appended to such a slice, or passed to a function of pkg/objects, pkg/slice or a hash. Comparisons, loop bounds, allocation sizes, csv.Reader.Comma and the configuration fields themselves are the only places these values go.",
		Min: 4,
		Run: func(p *Program, r *RuleResult) error {
			var cfg []*types.Var
			for _, spec := range []string{"pkg/sorter.Sorter.runSize", "pkg/sorter.Sorter.size", "pkg/sorter.Sorter.delimiter", "pkg/ingest.Inserter.numWorkers"} {
				f, err := p.Field(spec)
				if err != nil {
					return err
				}
				cfg = append(cfg, f)
			}
			isCfg := func(f *types.Var) bool {
				for _, c := range cfg {
					if c == f {
						return true
					}
				}
				return false
			}
			fns := p.FuncsInPkg("pkg/sorter", "pkg/ingest")
			r.Analysed = len(fns)
			inScope := map[*ssa.Function]bool{}
			for _, fn := range fns {
				inScope[fn] = true
			}
			taint := map[ssa.Value]string{}
			var work []ssa.Value
			add := func(v ssa.Value, why string) {
				if v == nil {
					return
				}
				if _, ok := taint[v]; ok {
					return
				}
				taint[v] = why
				work = append(work, v)
			}
			nSeeds := 0
			for _, fn := range fns {
				for _, b := range fn.Blocks {
					for _, in := range b.Instrs {
						switch x := in.(type) {
						case *ssa.UnOp:
							if x.Op == token.MUL {
								if fa, ok := x.X.(*ssa.FieldAddr); ok {
									if f := structField(fa.X.Type(), fa.Field); isCfg(f) {
										nSeeds++
										add(x, f.Name()+" read at "+p.Rel(x.Pos()))
									}
								}
							}
						case *ssa.Field:
							if f := structField(x.X.Type(), x.Field); isCfg(f) {
								nSeeds++
								add(x, f.Name()+" read at "+p.Rel(x.Pos()))
							}
						case *ssa.Call:
							if f := calleeFunc(x); f != nil && f.Pkg() != nil && strings.HasSuffix(f.Pkg().Path(), "/pkg/mem") {
								nSeeds++
								add(x, "mem."+f.Name()+" at "+p.Rel(x.Pos()))
							}
						}
					}
				}
			}
			isCompare := func(op token.Token) bool {
				switch op {
				case token.EQL, token.NEQ, token.LSS, token.LEQ, token.GTR, token.GEQ:
					return true
				}
				return false
			}
			for len(work) > 0 {
				v := work[len(work)-1]
				work = work[:len(work)-1]
				why := taint[v]
				refs := v.Referrers()
				if refs == nil {
					continue
				}
				for _, ref := range *refs {
					switch x := ref.(type) {
					case *ssa.Phi, *ssa.Extract, *ssa.ChangeType, *ssa.Convert, *ssa.MakeInterface, *ssa.ChangeInterface, *ssa.TypeAssert:
						add(x.(ssa.Value), why)
					case *ssa.BinOp:
						if !isCompare(x.Op) {
							add(x, why)
						}
					case *ssa.UnOp:
						if x.Op != token.MUL && x.Op != token.ARROW {
							add(x, why)
						}
					case *ssa.Slice:
						if x.X == v {
							add(x, why)
						}
					case *ssa.Store:
						if x.Val != v {
							continue
						}
						if al, ok := x.Addr.(*ssa.Alloc); ok {
							for _, lr := range *al.Referrers() {
								if u, ok := lr.(*ssa.UnOp); ok && u.Op == token.MUL && u.X == ssa.Value(al) {
									add(u, why)
								}
							}
						}
						// an element of a local array literal (variadic / append lowering): the slice of it carries the value
						if ia, ok := x.Addr.(*ssa.IndexAddr); ok {
							if al, ok := ia.X.(*ssa.Alloc); ok {
								for _, lr := range *al.Referrers() {
									if sl, ok := lr.(*ssa.Slice); ok && sl.X == ssa.Value(al) {
										add(sl, why)
									}
								}
							}
						}
					case *ssa.Return:
						fn := x.Parent()
						for i, res := range x.Results {
							if res != v {
								continue
							}
							if node := p.CG.Nodes[fn]; node != nil {
								for _, e := range node.In {
									call, ok := e.Site.(*ssa.Call)
									if !ok || !inScope[e.Caller.Func] {
										continue
									}
									if fn.Signature.Results().Len() == 1 {
										add(call, why+" → result of "+funcName(fn))
									} else {
										for _, r2 := range *call.Referrers() {
											if ex, ok := r2.(*ssa.Extract); ok && ex.Index == i {
												add(ex, why+" → result of "+funcName(fn))
											}
										}
									}
								}
							}
						}
					case ssa.CallInstruction:
						cc := x.Common()
						isArg := false
						for _, a := range cc.Args {
							if a == v {
								isArg = true
							}
						}
						if !isArg {
							continue
						}
						if sc := cc.StaticCallee(); sc != nil && inScope[sc] {
							for ai, a := range cc.Args {
								if a == v && ai < len(sc.Params) {
									add(sc.Params[ai], why+" → argument of "+funcName(sc))
								}
							}
							continue
						}
						if b, ok := cc.Value.(*ssa.Builtin); ok {
							if b.Name() == "append" {
								if call, ok := x.(*ssa.Call); ok {
									add(call, why)
								}
							}
							continue
						}
						// a function outside the two packages: what it returns is computed from it
						// (strconv, fmt.Sprint, math …) — except allocation-like and synchronisation calls
						if f := calleeFunc(x); f != nil && f.Pkg() != nil {
							switch f.Pkg().Path() {
							case "sync", "sync/atomic", "context", "bufio", "io", "os":
								continue
							}
						}
						if call, ok := x.(*ssa.Call); ok {
							add(call, why)
						}
					}
				}
			}
			// sinks
			dataElem := func(t types.Type) bool {
				switch u := t.Underlying().(type) {
				case *types.Basic:
					return u.Kind() == types.String || u.Kind() == types.Uint8
				case *types.Slice:
					if b, ok := u.Elem().Underlying().(*types.Basic); ok {
						return b.Kind() == types.String || b.Kind() == types.Uint8
					}
				}
				return false
			}
			dataStruct := func(t types.Type) string {
				if pt, ok := t.Underlying().(*types.Pointer); ok {
					t = pt.Elem()
				}
				n, ok := t.(*types.Named)
				if !ok || n.Obj().Pkg() == nil {
					return ""
				}
				q := strings.TrimPrefix(n.Obj().Pkg().Path(), modPath+"/") + "." + n.Obj().Name()
				switch q {
				case "pkg/objects.Table", "pkg/sorter.Block", "pkg/sorter.Rows", "pkg/ingest.asyncBlock", "pkg/objects.TableProfile":
					return q
				}
				return ""
			}
			nBad := 0
			type finding struct{ key, pos, wit string }
			var found []finding
			for v, why := range taint {
				refs := v.Referrers()
				if refs == nil {
					continue
				}
				fn := v.Parent()
				if fn == nil {
					continue
				}
				for _, ref := range *refs {
					switch x := ref.(type) {
					case *ssa.Store:
						if x.Val != v {
							continue
						}
						switch a := x.Addr.(type) {
						case *ssa.IndexAddr:
							if et := a.Type().Underlying().(*types.Pointer).Elem(); dataElem(et) {
								found = append(found, finding{funcName(fn) + "|store-into-row-data", p.Rel(x.Pos()), why + " is stored into an element of " + shortType(a.X.Type())})
							}
						case *ssa.FieldAddr:
							if q := dataStruct(a.X.Type()); q != "" {
								f := structField(a.X.Type(), a.Field)
								found = append(found, finding{funcName(fn) + "|store-into-" + q + "." + f.Name(), p.Rel(x.Pos()), why + " is stored into " + q + "." + f.Name()})
							}
						}
					case ssa.CallInstruction:
						cc := x.Common()
						isArg := false
						for _, a := range cc.Args {
							if a == v {
								isArg = true
							}
						}
						if !isArg {
							continue
						}
						if b, ok := cc.Value.(*ssa.Builtin); ok {
							if b.Name() == "append" && len(cc.Args) > 1 && cc.Args[0] != v {
								if sl, ok := cc.Args[0].Type().Underlying().(*types.Slice); ok && dataElem(sl.Elem()) {
									found = append(found, finding{funcName(fn) + "|append-to-row-data", p.Rel(x.Pos()), why + " is appended to a " + shortType(cc.Args[0].Type())})
								}
							}
							if b.Name() == "copy" && len(cc.Args) == 2 && cc.Args[1] == v {
								found = append(found, finding{funcName(fn) + "|copy-into-row-data", p.Rel(x.Pos()), why + " is copied into a " + shortType(cc.Args[0].Type())})
							}
							continue
						}
						f := calleeFunc(x)
						if f == nil || f.Pkg() == nil {
							continue
						}
						pp := f.Pkg().Path()
						if strings.HasSuffix(pp, "/pkg/objects") || strings.HasSuffix(pp, "/pkg/slice") || strings.HasSuffix(pp, "/meow") || strings.HasSuffix(pp, "/pkg/encoding/objline") {
							found = append(found, finding{callKey(fn, x) + "|config-argument", p.Rel(x.Pos()), why + " is passed to " + shortObj(f)})
						}
					}
				}
			}
			sort.Slice(found, func(i, j int) bool { return found[i].key+found[i].pos < found[j].key+found[j].pos })
			for _, f := range found {
				nBad++
				r.bad(f.key, f.pos, "configuration never becomes stored data", f.wit)
			}
			r.note("configuration reads (seeds): %d; values computed from them: %d", nSeeds, len(taint))
			// one obligation per seed-carrying field so that the floor means something
			perField := map[string]int{}
			for v, why := range taint {
				_ = v
				perField[strings.SplitN(why, " ", 2)[0]]++
			}
			var names []string
			for n := range perField {
				names = append(names, n)
			}
			sort.Strings(names)
			for _, n := range names {
				hit := false
				for _, f := range found {
					if strings.HasPrefix(f.wit, n+" ") {
						hit = true
					}
				}
				if !hit {
					r.ok("config|"+n, "", "configuration never becomes stored data")
				}
			}
			return nil
		},
	})

	register(&Rule{
		ID: "C02-d", Template: "value provenance (one codec on the spill path and in memory)",
		Doc: "A row has the same bytes whether or not it went through a spill file: in pkg/sorter every argument of (*objects.StrListEncoder).Encode is a row taken as it is from the sorter's row store (an element of Sorter.current, or of the parameter it is passed as) — no call lies between the stored row and the encoder; the bytes written to a spill file are exactly the encoder's result; and AddRow stores a copy of exactly the row it was given. A transformation on one of the two paths makes the table identifier depend on the run size.",
		Min: 3,
		Run: func(p *Program, r *RuleResult) error {
			enc, err := p.MustFuncs("pkg/objects.(*StrListEncoder).Encode")
			if err != nil {
				return err
			}
			wc, err := p.SSAFunc("pkg/sorter.writeChunk")
			if err != nil {
				return err
			}
			addRow, err := p.SSAFunc("pkg/sorter.(*Sorter).AddRow")
			if err != nil {
				return err
			}
			current, err := p.Field("pkg/sorter.Sorter.current")
			if err != nil {
				return err
			}
			fns := p.FuncsInPkg("pkg/sorter")
			r.Analysed = len(fns)
			// calls on the way of a value, not counting builtins, the codec of pkg/objects when
			// allowed, and helpers of pkg/sorter that only hand a value on
			var foreign func(v ssa.Value, codecOK bool, depth int) []*ssa.Call
			foreign = func(v ssa.Value, codecOK bool, depth int) []*ssa.Call {
				var out []*ssa.Call
				for x := range backward(v, nil) {
					c, ok := x.(*ssa.Call)
					if !ok {
						continue
					}
					if _, isB := c.Call.Value.(*ssa.Builtin); isB {
						continue
					}
					f := calleeFunc(c)
					if codecOK && f != nil && f.Pkg() != nil && strings.HasSuffix(f.Pkg().Path(), "/pkg/objects") {
						if sig, ok := f.Type().(*types.Signature); ok && sig.Recv() != nil {
							rt := sig.Recv().Type()
							if pt, ok := rt.(*types.Pointer); ok {
								rt = pt.Elem()
							}
							if n, ok := rt.(*types.Named); ok && strings.HasPrefix(n.Obj().Name(), "StrList") {
								// the decoded / edited row is computed from the call's own arguments
								for _, a := range c.Call.Args[1:] {
									out = append(out, foreign(a, codecOK, depth)...)
								}
								continue
							}
						}
					}
					if h := c.Call.StaticCallee(); h != nil && depth > 0 && len(h.Blocks) > 0 && strings.HasSuffix(fnPkgPath(h), "/pkg/sorter") {
						inner := 0
						for _, ret := range returnsOf(h) {
							for _, res := range ret.Results {
								inner += len(foreign(res, codecOK, depth-1))
							}
						}
						if inner == 0 {
							for _, a := range c.Call.Args {
								out = append(out, foreign(a, codecOK, depth)...)
							}
							continue
						}
					}
					out = append(out, c)
				}
				return out
			}
			callsIn := func(v ssa.Value) []*ssa.Call { return foreign(v, false, 2) }
			for _, fn := range fns {
				for _, c := range callsTo(fn, enc) {
					args := c.Common().Args
					row := args[len(args)-1]
					key := callKey(fn, c) + "|untouched-row"
					what := "the encoder is given the stored row as it is"
					if cs := callsIn(row); len(cs) > 0 {
						r.bad(key, p.Rel(c.Pos()), what, fmt.Sprintf("the row passes through %s (%s) on its way to the encoder: rows that take this path differ from rows that do not", calleeLabel(cs[0]), p.Rel(cs[0].Pos())))
						continue
					}
					if !fromStoreVal(row, current, 2) {
						r.bad(key, p.Rel(c.Pos()), what, "the encoded row is not an element of the sorter's row store")
						continue
					}
					r.ok(key, p.Rel(c.Pos()), what)
				}
			}
			// what goes into a block / a row batch of the merge comes from the codec only
			for _, fn := range fns {
				if fn.Parent() == nil || (fn.Parent().Name() != "SortedBlocks" && fn.Parent().Name() != "SortedRows") {
					continue
				}
				n := 0
				eachCall(fn, func(c ssa.CallInstruction) {
					call, ok := c.(*ssa.Call)
					if !ok {
						return
					}
					var src ssa.Value
					switch {
					case isBuiltin(call, "copy") && len(call.Call.Args) == 2:
						if ia, ok := stripConv(call.Call.Args[0]).(*ssa.UnOp); ok && ia.Op == token.MUL {
							if x, ok := ia.X.(*ssa.IndexAddr); ok {
								if sl, ok := x.X.Type().Underlying().(*types.Slice); ok {
									if in, ok := sl.Elem().Underlying().(*types.Slice); ok {
										if b, ok := in.Elem().Underlying().(*types.Basic); ok && b.Kind() == types.Uint8 {
											src = call.Call.Args[1]
										}
									}
								}
							}
						}
					case isBuiltin(call, "append") && len(call.Call.Args) == 2:
						if sl, ok := call.Call.Args[0].Type().Underlying().(*types.Slice); ok {
							if in, ok := sl.Elem().Underlying().(*types.Slice); ok {
								if b, ok := in.Elem().Underlying().(*types.Basic); ok && b.Kind() == types.String {
									src = call.Call.Args[1]
								}
							}
						}
					}
					if src == nil {
						return
					}
					// append(rows, x) is lowered to a one-element slice literal
					var vals []ssa.Value
					if els, _ := sliceLitElems(src); len(els) > 0 {
						vals = els
					} else {
						vals = []ssa.Value{src}
					}
					key := fmt.Sprintf("%s|merged-row#%d", funcName(fn), n)
					n++
					what := "a merged row reaches its block through the row codec only"
					var bad []*ssa.Call
					for _, v := range vals {
						bad = append(bad, foreign(v, true, 2)...)
					}
					if len(bad) > 0 {
						r.bad(key, p.Rel(c.Pos()), what, fmt.Sprintf("the row passes through %s (%s) before it is put into the block", calleeLabel(bad[0]), p.Rel(bad[0].Pos())))
					} else {
						r.ok(key, p.Rel(c.Pos()), what)
					}
				})
			}
			// the spill file receives exactly the encoder's bytes
			nW := 0
			eachCall(wc, func(c ssa.CallInstruction) {
				f := calleeFunc(c)
				if f == nil || f.Name() != "Write" {
					return
				}
				args := c.Common().Args
				data := args[len(args)-1]
				key := fmt.Sprintf("%s|spill-bytes#%d", funcName(wc), nW)
				nW++
				what := "the spill file receives exactly the encoder's bytes"
				cs := foreign(data, false, 2)
				okEnc := len(cs) == 1 && calleeFunc(cs[0]) != nil && enc[calleeFunc(cs[0])]
				if okEnc {
					r.ok(key, p.Rel(c.Pos()), what)
				} else if len(cs) == 0 {
					r.bad(key, p.Rel(c.Pos()), what, "the written bytes do not come from StrListEncoder.Encode")
				} else {
					r.bad(key, p.Rel(c.Pos()), what, fmt.Sprintf("the written bytes pass through %s", calleeLabel(cs[len(cs)-1])))
				}
			})
			if nW == 0 {
				// written through a helper / bufio: accept a call that is handed the encoder's result
				r.missing(funcName(wc)+"|spill-bytes", "writeChunk contains no Write call")
			}
			// AddRow keeps a copy of exactly the row it was given
			nC := 0
			rowParam := addRow.Params[len(addRow.Params)-1]
			eachCall(addRow, func(c ssa.CallInstruction) {
				call, ok := c.(*ssa.Call)
				if !ok || !isBuiltin(call, "copy") || len(call.Call.Args) != 2 {
					return
				}
				if !derivesFromField(call.Call.Args[0], current) {
					return
				}
				key := fmt.Sprintf("%s|stored-row#%d", funcName(addRow), nC)
				nC++
				what := "AddRow stores a copy of exactly the row it was given"
				// … into a slot of exactly the row's length: on every path to the copy the slot was
				// made with len(row) or re-sliced to it — a recycled slot that keeps its old length
				// keeps the trailing cells of a wider row of an earlier table (round 7, C02-r7m2)
				exact := map[ssa.Instruction]bool{}
				isRowLen := func(v ssa.Value) bool {
					x := lenArgOf(v)
					return x != nil && stripConv(x) == ssa.Value(rowParam)
				}
				for _, b := range addRow.Blocks {
					for _, in := range b.Instrs {
						st, ok := in.(*ssa.Store)
						if !ok {
							continue
						}
						if ia, ok := st.Addr.(*ssa.IndexAddr); !ok || !derivesFromField(ia.X, current) {
							continue
						}
						switch v := st.Val.(type) {
						case *ssa.MakeSlice:
							if isRowLen(v.Len) {
								exact[in] = true
							}
						case *ssa.Slice:
							if v.Low == nil && v.High != nil && isRowLen(v.High) {
								exact[in] = true
							}
						}
					}
				}
				if stripConv(call.Call.Args[1]) != ssa.Value(rowParam) {
					r.bad(key, p.Rel(c.Pos()), what, "what is copied into the row store is not the row parameter itself")
				} else if path, reach := reachAfter(addRow, nil, call, nil, exact); reach && len(exact) > 0 {
					r.bad(key, p.Rel(c.Pos()), what, fmtPath("the copy is reachable without the slot having been made or re-sliced to len(row): a recycled slot keeps its previous length and with it the trailing cells of an earlier, wider row", path))
				} else if stripConv(call.Call.Args[1]) == ssa.Value(rowParam) {
					r.ok(key, p.Rel(c.Pos()), what)
				} else {
					r.bad(key, p.Rel(c.Pos()), what, "what is copied into the row store is not the row parameter itself")
				}
			})
			return nil
		},
	})
}

// fromStoreVal: v is an element of the sorter's row store: derived from the field, from
// a [][]string parameter (the store passed to a helper), or the result of a helper of
// the package all of whose results are.
func fromStoreVal(v ssa.Value, current *types.Var, depth int) bool {
	if derivesFromField(v, current) {
		return true
	}
	for x := range backward(v, nil) {
		switch y := x.(type) {
		case *ssa.Parameter:
			if sl, ok := y.Type().Underlying().(*types.Slice); ok {
				if _, nested := sl.Elem().Underlying().(*types.Slice); nested {
					return true
				}
			}
		case *ssa.Call:
			h := y.Call.StaticCallee()
			if h == nil || depth <= 0 || len(h.Blocks) == 0 || !strings.HasSuffix(fnPkgPath(h), "/pkg/sorter") {
				continue
			}
			all, n := true, 0
			for _, ret := range returnsOf(h) {
				for _, res := range ret.Results {
					n++
					if !fromStoreVal(res, current, depth-1) {
						all = false
					}
				}
			}
			if all && n > 0 {
				return true
			}
		}
	}
	return false
}
