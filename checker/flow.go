package main

// SSA data-flow and control-flow helpers shared by the rule templates.

import (
	"go/constant"
	"go/token"
	"go/types"

	"golang.org/x/tools/go/ssa"
)

// ---------- value derivation (forward slice) ----------

type fwdOpts struct {
	throughCalls bool // result of a call is derived from its arguments
	throughIndex bool // x[i] / &x[i] is derived from x
	throughField bool // x.f is derived from x
	noBinOp      bool // do not propagate through arithmetic/comparison
	// stop returns true for values the slice must not extend through
	stop func(v ssa.Value) bool
}

// forward computes the set of SSA values (within the functions the seeds live in)
// that are data-derived from the seeds. Stores into local Allocs (named results,
// captured variables that stay in the function) propagate to the loads of the
// same Alloc.
func forward(seeds []ssa.Value, o fwdOpts) map[ssa.Value]bool {
	set := map[ssa.Value]bool{}
	var work []ssa.Value
	add := func(v ssa.Value) {
		if v == nil || set[v] {
			return
		}
		if o.stop != nil && o.stop(v) {
			return
		}
		set[v] = true
		work = append(work, v)
	}
	for _, s := range seeds {
		add(s)
	}
	for len(work) > 0 {
		v := work[len(work)-1]
		work = work[:len(work)-1]
		refs := v.Referrers()
		if refs == nil {
			continue
		}
		for _, r := range *refs {
			switch x := r.(type) {
			case *ssa.Phi, *ssa.Extract, *ssa.ChangeType, *ssa.Convert, *ssa.ChangeInterface,
				*ssa.MakeInterface, *ssa.TypeAssert, *ssa.Slice, *ssa.MultiConvert, *ssa.SliceToArrayPointer:
				add(x.(ssa.Value))
			case *ssa.UnOp:
				if x.Op == token.MUL {
					// load: only if the address itself is derived (pointer deref of derived pointer)
					if o.throughField {
						add(x)
					}
				} else if x.Op == token.ARROW {
					// receive from derived channel: not data-derived
				} else if !o.noBinOp {
					add(x)
				}
			case *ssa.BinOp:
				if !o.noBinOp {
					add(x)
				}
			case *ssa.Field:
				if o.throughField {
					add(x)
				}
			case *ssa.FieldAddr:
				if o.throughField {
					add(x)
				}
			case *ssa.Index, *ssa.Lookup:
				if o.throughIndex {
					add(x.(ssa.Value))
				}
			case *ssa.IndexAddr:
				if o.throughIndex {
					add(x)
				}
			case *ssa.Call:
				if o.throughCalls {
					// only if v is an argument (not the callee)
					for _, a := range x.Call.Args {
						if a == v {
							add(x)
						}
					}
				}
			case *ssa.Store:
				if x.Val == v {
					// propagate to loads of the same local cell
					if al, ok := x.Addr.(*ssa.Alloc); ok {
						for _, lr := range *al.Referrers() {
							if u, ok := lr.(*ssa.UnOp); ok && u.Op == token.MUL && u.X == al {
								add(u)
							}
						}
					}
				}
			}
		}
	}
	return set
}

// ---------- error-success edges ----------

type edge struct {
	from *ssa.BasicBlock
	succ int
}

func isNilConst(v ssa.Value) bool {
	c, ok := v.(*ssa.Const)
	return ok && c.Value == nil && !isBasic(c.Type())
}

func isBasic(t types.Type) bool {
	_, ok := t.Underlying().(*types.Basic)
	return ok
}

// nilTestEdge: if the If tests `v == nil` / `v != nil` for v in vals, return the
// successor index taken when v IS nil.
func nilTestEdge(ifi *ssa.If, vals map[ssa.Value]bool) (int, bool) {
	cond := ifi.Cond
	neg := false
	for {
		if u, ok := cond.(*ssa.UnOp); ok && u.Op == token.NOT {
			neg = !neg
			cond = u.X
			continue
		}
		break
	}
	b, ok := cond.(*ssa.BinOp)
	if !ok || (b.Op != token.EQL && b.Op != token.NEQ) {
		return 0, false
	}
	var other ssa.Value
	switch {
	case vals[b.X]:
		other = b.Y
	case vals[b.Y]:
		other = b.X
	default:
		return 0, false
	}
	if !isNilConst(other) {
		return 0, false
	}
	nilOnTrue := b.Op == token.EQL
	if neg {
		nilOnTrue = !nilOnTrue
	}
	if nilOnTrue {
		return 0, true
	}
	return 1, true
}

// errValuesOfCall returns the SSA values that carry the error result of call c
// (the call itself when it returns a single error; the Extract otherwise), plus
// everything they flow to through φ / local cells / interface conversions.
func errValuesOfCall(c *ssa.Call) map[ssa.Value]bool {
	sig := c.Call.Signature()
	res := sig.Results()
	var seeds []ssa.Value
	if res.Len() == 1 {
		if isErrorType(res.At(0).Type()) {
			seeds = append(seeds, c)
		}
	} else {
		for _, r := range *c.Referrers() {
			if ex, ok := r.(*ssa.Extract); ok && isErrorType(res.At(ex.Index).Type()) {
				seeds = append(seeds, ex)
			}
		}
	}
	if len(seeds) == 0 {
		return nil
	}
	return forward(seeds, fwdOpts{noBinOp: true})
}

func isErrorType(t types.Type) bool {
	n, ok := t.(*types.Named)
	return ok && n.Obj().Pkg() == nil && n.Obj().Name() == "error"
}

func errorResultIndex(sig *types.Signature) int {
	r := sig.Results()
	for i := r.Len() - 1; i >= 0; i-- {
		if isErrorType(r.At(i).Type()) {
			return i
		}
	}
	return -1
}

// successEdges returns the CFG edges of fn on which the error returned by call c
// is known to be nil: the nil-edge of every If that tests a value derived from
// c's error result.
func successEdges(fn *ssa.Function, c *ssa.Call) []edge {
	vals := errValuesOfCall(c)
	if vals == nil {
		return nil
	}
	var out []edge
	for _, b := range fn.Blocks {
		if len(b.Instrs) == 0 {
			continue
		}
		ifi, ok := b.Instrs[len(b.Instrs)-1].(*ssa.If)
		if !ok {
			continue
		}
		if s, ok := nilTestEdge(ifi, vals); ok {
			out = append(out, edge{b, s})
		}
	}
	return out
}

// boolEdges returns, for every If whose condition is (possibly negated) a value
// in vals, the edge taken when the value is `want`.
func boolEdges(fn *ssa.Function, vals map[ssa.Value]bool, want bool) []edge {
	var out []edge
	for _, b := range fn.Blocks {
		if len(b.Instrs) == 0 {
			continue
		}
		ifi, ok := b.Instrs[len(b.Instrs)-1].(*ssa.If)
		if !ok {
			continue
		}
		cond := ifi.Cond
		neg := false
		for {
			if u, ok := cond.(*ssa.UnOp); ok && u.Op == token.NOT {
				neg = !neg
				cond = u.X
				continue
			}
			break
		}
		if !vals[cond] {
			continue
		}
		w := want
		if neg {
			w = !w
		}
		if w {
			out = append(out, edge{b, 0})
		} else {
			out = append(out, edge{b, 1})
		}
	}
	return out
}

// ---------- instruction-level reachability with cut edges ----------

func instrIndex(in ssa.Instruction) int {
	b := in.Block()
	for i, x := range b.Instrs {
		if x == in {
			return i
		}
	}
	return -1
}

type cutSet map[edge]bool

func mkCut(es ...[]edge) cutSet {
	c := cutSet{}
	for _, l := range es {
		for _, e := range l {
			c[e] = true
		}
	}
	return c
}

// reachAfter reports whether instruction `to` can execute after instruction
// `from` (from == nil: function entry) along a CFG path that uses no edge of cut
// and does not pass through any instruction in `block` (instructions that stop a
// path, e.g. the required predecessor event). It returns a witness block path.
func reachAfter(fn *ssa.Function, from, to ssa.Instruction, cut cutSet, block map[ssa.Instruction]bool) ([]int, bool) {
	if len(fn.Blocks) == 0 {
		return nil, false
	}
	scan := func(b *ssa.BasicBlock, start int) (found, passes bool) {
		for i := start; i < len(b.Instrs); i++ {
			if b.Instrs[i] == to {
				return true, false
			}
			if block[b.Instrs[i]] {
				return false, false
			}
		}
		return false, true
	}
	var startB *ssa.BasicBlock
	startI := 0
	if from == nil {
		startB = fn.Blocks[0]
	} else {
		startB = from.Block()
		startI = instrIndex(from) + 1
	}
	found, passes := scan(startB, startI)
	if found {
		return []int{startB.Index}, true
	}
	if !passes {
		return nil, false
	}
	prev := map[*ssa.BasicBlock]*ssa.BasicBlock{}
	seen := map[*ssa.BasicBlock]bool{}
	var queue []*ssa.BasicBlock
	pushSuccs := func(b *ssa.BasicBlock) {
		for i, s := range b.Succs {
			if cut[edge{b, i}] {
				continue
			}
			if !seen[s] {
				seen[s] = true
				prev[s] = b
				queue = append(queue, s)
			}
		}
	}
	pushSuccs(startB)
	for len(queue) > 0 {
		b := queue[0]
		queue = queue[1:]
		found, passes := scan(b, 0)
		if found {
			path := []int{b.Index}
			for x := prev[b]; x != nil; x = prev[x] {
				path = append([]int{x.Index}, path...)
				if x == startB {
					break
				}
			}
			return path, true
		}
		if passes {
			pushSuccs(b)
		}
	}
	return nil, false
}

// exits returns the Return instructions of fn.
func returnsOf(fn *ssa.Function) []*ssa.Return {
	var out []*ssa.Return
	for _, b := range fn.Blocks {
		if len(b.Instrs) == 0 {
			continue
		}
		if r, ok := b.Instrs[len(b.Instrs)-1].(*ssa.Return); ok {
			out = append(out, r)
		}
	}
	return out
}

// ---------- constants ----------

func constInt(v ssa.Value) (int64, bool) {
	c, ok := v.(*ssa.Const)
	if !ok || c.Value == nil || c.Value.Kind() != constant.Int {
		return 0, false
	}
	i, ok := constant.Int64Val(c.Value)
	return i, ok
}

func constString(v ssa.Value) (string, bool) {
	c, ok := v.(*ssa.Const)
	if !ok || c.Value == nil || c.Value.Kind() != constant.String {
		return "", false
	}
	return constant.StringVal(c.Value), true
}

// stripConv follows value-preserving conversions backwards.
func stripConv(v ssa.Value) ssa.Value {
	for {
		switch x := v.(type) {
		case *ssa.ChangeType:
			v = x.X
		case *ssa.Convert:
			v = x.X
		case *ssa.ChangeInterface:
			v = x.X
		case *ssa.MakeInterface:
			v = x.X
		default:
			return v
		}
	}
}

// backward: set of values v is derived from (backward slice within function),
// through the same operators as forward().
func backward(v ssa.Value, through func(ssa.Value) bool) map[ssa.Value]bool {
	set := map[ssa.Value]bool{}
	var rec func(ssa.Value)
	rec = func(x ssa.Value) {
		if x == nil || set[x] {
			return
		}
		set[x] = true
		if through != nil && !through(x) {
			return
		}
		switch y := x.(type) {
		case *ssa.Phi:
			for _, e := range y.Edges {
				rec(e)
			}
		case *ssa.Extract:
			rec(y.Tuple)
		case *ssa.ChangeType:
			rec(y.X)
		case *ssa.Convert:
			rec(y.X)
		case *ssa.ChangeInterface:
			rec(y.X)
		case *ssa.MakeInterface:
			rec(y.X)
		case *ssa.TypeAssert:
			rec(y.X)
		case *ssa.Slice:
			rec(y.X)
		case *ssa.BinOp:
			rec(y.X)
			rec(y.Y)
		case *ssa.UnOp:
			if y.Op == token.MUL {
				if al, ok := y.X.(*ssa.Alloc); ok {
					for _, r := range *al.Referrers() {
						if st, ok := r.(*ssa.Store); ok && st.Addr == al {
							rec(st.Val)
						}
					}
				} else {
					rec(y.X)
				}
			} else {
				rec(y.X)
			}
		case *ssa.Alloc:
			// address-taken local (e.g. an array that is sliced): what was stored into it
			for _, r := range *y.Referrers() {
				if st, ok := r.(*ssa.Store); ok && st.Addr == y {
					rec(st.Val)
				}
			}
		case *ssa.FieldAddr:
			rec(y.X)
		case *ssa.Field:
			rec(y.X)
		case *ssa.IndexAddr:
			rec(y.X)
			rec(y.Index)
		case *ssa.Index:
			rec(y.X)
			rec(y.Index)
		case *ssa.Lookup:
			rec(y.X)
			rec(y.Index)
		}
	}
	rec(v)
	return set
}

// retVal resolves result i of a Return through go/ssa's defer spill: in functions
// with defers, results are stored into local cells and reloaded after rundefers.
func retVal(ret *ssa.Return, i int) ssa.Value {
	if i < 0 || i >= len(ret.Results) {
		return nil
	}
	v := ret.Results[i]
	u, ok := v.(*ssa.UnOp)
	if !ok || u.Op != token.MUL {
		return v
	}
	al, ok := u.X.(*ssa.Alloc)
	if !ok {
		return v
	}
	b := ret.Block()
	for k := len(b.Instrs) - 1; k >= 0; k-- {
		if st, ok := b.Instrs[k].(*ssa.Store); ok && st.Addr == al {
			return st.Val
		}
	}
	return v
}

// ---------- captured variables (cells) ----------

// cellOf maps a FreeVar (or Alloc) to the Alloc in the enclosing function that
// it is bound to, following MakeClosure bindings outwards.
func cellOf(v ssa.Value) *ssa.Alloc {
	for depth := 0; depth < 8; depth++ {
		switch x := v.(type) {
		case *ssa.Alloc:
			return x
		case *ssa.FreeVar:
			fn := x.Parent()
			par := fn.Parent()
			if par == nil {
				return nil
			}
			idx := -1
			for i, fv := range fn.FreeVars {
				if fv == x {
					idx = i
				}
			}
			var bound ssa.Value
			for _, b := range par.Blocks {
				for _, in := range b.Instrs {
					if mc, ok := in.(*ssa.MakeClosure); ok && mc.Fn == fn && idx >= 0 && idx < len(mc.Bindings) {
						bound = mc.Bindings[idx]
					}
				}
			}
			if bound == nil {
				return nil
			}
			v = bound
		default:
			return nil
		}
	}
	return nil
}

// cellAccessors returns every value (the Alloc itself in its function and the
// FreeVars bound to it in nested closures) that denotes the cell.
func cellAccessors(al *ssa.Alloc) []ssa.Value {
	out := []ssa.Value{al}
	var visit func(fn *ssa.Function, v ssa.Value)
	visit = func(fn *ssa.Function, v ssa.Value) {
		for _, b := range fn.Blocks {
			for _, in := range b.Instrs {
				mc, ok := in.(*ssa.MakeClosure)
				if !ok {
					continue
				}
				cf := mc.Fn.(*ssa.Function)
				for i, bd := range mc.Bindings {
					if bd == v && i < len(cf.FreeVars) {
						out = append(out, cf.FreeVars[i])
						visit(cf, cf.FreeVars[i])
					}
				}
			}
		}
	}
	visit(al.Parent(), al)
	return out
}

// cellStores returns the values stored into the cell anywhere (parent and closures).
func cellStores(al *ssa.Alloc) []*ssa.Store {
	var out []*ssa.Store
	for _, acc := range cellAccessors(al) {
		refs := acc.Referrers()
		if refs == nil {
			continue
		}
		for _, r := range *refs {
			if st, ok := r.(*ssa.Store); ok && st.Addr == acc {
				out = append(out, st)
			}
		}
	}
	return out
}
