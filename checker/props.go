package main

// Property → rules table. Texts are copied into the evidence files.

func init() {
	props["C01"] = &propSpec{
		Rules:      []string{"C01-a", "C01-b", "C01-e", "C01-f"},
		Decides:    "structural necessary conditions of 'no row is dropped, truncated or altered': no storage/sorter/ingest error is dropped (C01-a); 16-bit lengths/offsets in the row codec are bounded before narrowing (C01-b); worker-shared accumulation of blocks and row count is synchronised (C16-a).",
		NotDecided: "equality of the stored row set with the input row set, key order, de-duplication correctness, export fidelity (value-dependent).",
	}
	props["C06"] = &propSpec{
		Rules:      []string{"C06-a", "C06-b", "C06-c", "C06-d"},
		Decides:    "content addressing: every content-addressed store uses the hash of the bytes it was given, and callers of SaveCompressedBlock pass matching content/compressed pairs (C06-a); raw store mutations only from pkg/objects (C06-b); 16-bit string lengths are bounded by ≤ 65535 before narrowing and over-limit values are rejected by an error (C06-c); writer and reader label tables agree (C06-d).",
		NotDecided: "decode(encode(x)) = x for all x; the packfile varint header arithmetic.",
	}
	props["C07"] = &propSpec{
		Rules:      []string{"C07-a", "C07-b", "C07-c", "C07-d", "C07-f", "C06-a", "C13-a", "C13-h"},
		Decides:    "the receiver's validation and ordering mechanisms: blocks validated before being stored (C07-a), no commit stored while a parent is missing (C07-b), rebuilt block indices compared with the table's recorded sums (C07-c), sender pushes blocks before table before commit (C07-d), blocks stored under the hash of the decoded content (C07-e).",
		NotDecided: "byte identity of source and destination stores; packfile splitting arithmetic.",
	}
	props["C13"] = &propSpec{
		Rules:      []string{"C13-a", "C13-b", "C13-c", "C13-g", "C13-h", "C13-i", "C07-b", "C09-a", "C09-g", "C12-e", "C15-c"},
		Decides:    "write-order necessary conditions of crash consistency on every path: the table object is written after its derived indices (C13-a), after the worker join (C13-b); refs are written with a sum that is data-dependent on SaveCommit (C13-c); fetch saves refs after objects (C09-a); prune deletes commits last (C12-e); no commit before its parents (C07-b); SQL multi-statement writes run in one transaction (C13-g).",
		NotDecided: "repeatability of the operation after a crash; effects of a crash inside a multi-branch pull; atomicity of the underlying stores (trusted).",
	}
	props["C10"] = &propSpec{
		Rules:      []string{"C10-a", "C10-b", "C10-c", "C10-d", "C10-e", "C10-f"},
		Decides:    "every ref-update site in fetch and push is reachable only through a fast-forward, force, new-ref or delete permit (C10-a); existing tags additionally need force (C10-b); ref writes go through the logging API only (C10-c); the reflog's old value is read inside the same SQL transaction (C10-d); merge writes refs only after the merge base was computed (C10-e, weak).",
		NotDecided: "that IsAncestorOf answers correctly (C11); merge's fast-forward condition (control-dependent on SeekCommonAncestor); pull's new-branch detection; the remote side of push.",
	}
	props["C09"] = &propSpec{
		Rules:      []string{"C09-a", "C09-b", "C09-c", "C09-e", "C09-f", "C09-g", "C10-c"},
		Decides:    "ordering/completion mechanisms of fetch and push: refs saved only after objects were fetched successfully (C09-a); the upload-pack session ends only when the receiver reports all expected commits (C09-b); a push session is created only after the shallow-commit check (C09-c); ref writes go through pkg/ref's logging API (C10-c).",
		NotDecided: "completeness of the transferred history, object identity on both sides, idempotence of a repeated fetch/push.",
	}
	props["C12"] = &propSpec{
		Rules:      []string{"C12-a", "C12-b", "C12-c", "C12-d", "C12-e", "C12-f", "C13-i"},
		Decides:    "structural mechanisms of prune safety: roots are seeded from an unfiltered ref listing (C12-a); no ref/object-store error is dropped while marking (C12-b); every delete lies under a not-marked edge (C12-c); sort.Search hits are bounds- and equality-checked before marks are written (C12-d); commits are deleted last (C12-e).",
		NotDecided: "that the marked set equals the reachable set for every repository (graph-valued).",
	}
	props["C14"] = &propSpec{
		Rules:      []string{"C14-a", "C14-b", "C14-c", "C13-g", "C10-d", "C15-c"},
		Decides:    "typestate guard: Commit and Discard test the transaction's status before any mutation (C14-a); Commit's per-branch ref update is skipped for branches already logged under this transaction, so a failed commit can be completed by re-running without duplicating commits (C14-b); no branch mutation is reachable from Discard (C14-c).",
		NotDecided: "the outcome of every crash point; log contents; atomicity of a single run (the per-branch loop is not one store transaction).",
	}
	props["C15"] = &propSpec{
		Rules:      []string{"C15-a", "C13-g", "C10-d", "C15-c", "C15-d"},
		Decides:    "the SQL ref store's text and transaction discipline: no pattern operator (LIKE/GLOB/…) in any query, so prefix listing is literal and case-sensitive (C15-a); multi-statement writes run on one *sql.Tx (C13-g); the reflog's old value is read in the same transaction (C10-d); rename/copy/delete change ref and log rows together (C15-c).",
		NotDecided: "sequence semantics of the store against a map model; the file store (pkg/ref/fs is imported only by tests and is outside the production call graph).",
	}
	props["C16"] = &propSpec{
		Rules:      []string{"C16-a", "C16-b", "C16-c", "C16-d", "C16-e", "C16-f"},
		Decides:    "for goroutines started in several instances on shared operands, every write to the shared state is synchronised (C16-a); the concurrently read progress-tracker fields are accessed atomically (C16-b); the ingest pool's error channel has room for one error per worker and a worker sends at most once (C16-c); no error is dropped in goroutine bodies (C16-d).",
		NotDecided: "termination, deadlock freedom, equality with the sequential result, absence of every race (no may-happen-in-parallel analysis for main-vs-goroutine pairs).",
	}
	props["C18"] = &propSpec{
		Rules:      []string{"C18-a"},
		Decides:    "a sufficient shape for chunk-independence of what decoders see: no decoder calls Read once and assumes a full buffer (C18-a).",
		NotDecided: "equality of the decoded object sequences under every partition of the stream (behavioural); readers handed to third-party decoders (gzip, json).",
	}
	props["C19"] = &propSpec{
		Rules:      []string{"C19-a", "C19-b", "C19-d", "C19-e", "C01-a", "C01-b"},
		Decides:    "structural necessary conditions of 'every distinct key once, in key order': position-wise row comparators are two-sided (C19-a); the key is extracted in the column layout its positions were computed for (C19-b); spill errors are not dropped and the row codec does not wrap (C01-a, C01-b); every spill file has a close+remove cleanup registered that Close runs (C19-d).",
		NotDecided: "sortedness and de-duplication of the output for all row multisets and memory limits (value-dependent).",
	}
	props["C17"] = &propSpec{
		Rules:      []string{"C17-a", "C17-b", "C17-c", "C17-d", "C07-b"},
		Decides:    "in the hostile-reachable set: no unbounded stream-decoded count sizes an allocation (C17-a); fixed-width reads from caller-supplied byte slices are length-guarded (C17-b); constant indices into decoded collections are length-guarded (C17-c); results that can be nil together with an error are not dereferenced before the error test (C17-d).",
		NotDecided: "implicit index panics with non-constant indices, loop termination, 'nothing from a rejected packfile is left referenced'.",
	}
	props["C05"] = &propSpec{
		Rules:      []string{"C05-a", "C05-b", "C05-c"},
		Decides:    "column-layout consistency of the merge result pipeline: rows and key positions that reach the result sorter are in the merged layout, never raw base-table rows or base key positions (C05-a).",
		NotDecided: "the cell-wise resolution rules, conflict marking, commutativity, keyless tables and renamed columns (value-dependent).",
	}
	props["C08"] = &propSpec{
		Rules:      []string{"C08-a", "C08-b"},
		Decides:    "one clause only: wants are accepted only after the reachability check succeeded (C08-a) and that check walks from an unfiltered ref listing (C08-b).",
		NotDecided: "closedness, parent-first order, minimality, depth selection, polynomial termination — all statements about DAG values.",
	}
	props["C11"] = &propSpec{
		Rules:      []string{"C11-a", "C11-b", "C11-c", "C11-d", "C11-e"},
		Decides:    "'whatever the commit timestamps say' for the ancestor test: Commit.Time influences only the ordering of the frontier (C11-a); a negative answer is given only when the frontier is exhausted (C11-b); every parent is offered to the frontier (C11-c).",
		NotDecided: "correctness of SeekCommonAncestor's lock-step elimination; visit-exactly-once (graph-valued).",
	}
}
