package main

// Property → rules table. Texts are copied into the evidence files.

func init() {
	props["C01"] = &propSpec{
		Rules:      []string{"C01-a", "C01-b", "C01-e", "C01-f", "C19-f", "C19-g", "C01-g", "C16-a"},
		Decides:    "Decides, on every path of every production function, structural necessary conditions of 'no row is dropped, truncated or altered': no error from the sorter / ingest / object store / on-disk index is dropped. It does not decide equality of stored and input rows (value-dependent); level 'other' because it is exhaustive over code paths but establishes a necessary condition only. Also decided: the workers' blocks are sorted by offset on every path before the table's block list is built, and the ingest CSV reader is configured only with loss-free options.",
		NotDecided: "equality of the stored row set with the input row set, key order, de-duplication correctness, export fidelity (value-dependent).",
	}
	props["C06"] = &propSpec{
		Rules:      []string{"C06-a", "C06-b", "C06-c", "C06-d", "C17-f", "C16-g", "C06-f"},
		Decides:    "Decides structural necessary conditions of 'objects round-trip and are stored under their hash': every content-addressed store in pkg/objects uses meow.Checksum of a parameter as key and stores that parameter, its s2 encoding, or (SaveCompressedBlock) a second parameter that every caller pairs with its decompression; raw Store.Set/Delete/Clear only inside pkg/objects; every uint16(len(.)) in the labelled-field and row encoders is dominated by a len <= 65535 test whose failing edge returns an error; the ordered label lists of each object's writer and reader agree. Does not decide decode(encode(x)) = x nor the varint header arithmetic.",
		NotDecided: "decode(encode(x)) = x for all x; the packfile varint header arithmetic.",
	}
	props["C07"] = &propSpec{
		Rules:      []string{"C07-a", "C07-b", "C07-c", "C07-d", "C07-f", "C06-a", "C13-a", "C13-h", "C17-f", "C17-g", "C09-h", "C09-i", "C16-i", "C08-c", "C08-f"},
		Decides:    "Decides the receiver's validation/ordering mechanisms and the sender's queue order on every path: received blocks are stored only after ValidateBlockBytes succeeded on the same buffer and under the hash of the decompressed bytes; a commit is stored only after every parent was found; rebuilt block-index sums are compared with the table's recorded sums before the table index is written; the sender appends blocks before their table and the commit after its table. Does not decide byte identity of the two stores or packfile splitting. Also decided: the sender passes the enqueue-next-commit step before leaving WriteObjects; the receiver writes the table object last and never skips its index.",
		NotDecided: "byte identity of source and destination stores; packfile splitting arithmetic.",
	}
	props["C13"] = &propSpec{
		Rules:      []string{"C13-a", "C13-b", "C13-c", "C13-g", "C13-h", "C13-i", "C07-b", "C09-a", "C09-g", "C12-e", "C15-c", "C13-j", "C13-k"},
		Decides:    "Decides write-order necessary conditions of crash consistency on every path: no derived-index write after the table object (the table object is the commit point); the table is written only after the worker join and an empty error channel; every ref written by a function that saves a commit carries the sum returned by SaveCommit and lies behind its success edge; SQL multi-statement writes run on one *sql.Tx which commits only on success; plus the shared ordering rules of C07-b (no commit before its parents), C09-a (fetch refs after objects) and C12-e (prune deletes commits last). Does not enumerate crash points, does not decide repeatability; store atomicity is trusted. Also decided: SaveTable happens only after a successful table-index write (never skipped); prune deletes a table object before its derived objects; every successful fetch return has saved the refs.",
		NotDecided: "repeatability of the operation after a crash; effects of a crash inside a multi-branch pull; atomicity of the underlying stores (trusted).",
	}
	props["C10"] = &propSpec{
		Rules:      []string{"C10-a", "C10-b", "C10-c", "C10-d", "C10-e", "C10-f", "C10-g", "C10-h", "C10-i"},
		Decides:    "Decides that every ref-update site in fetch and push is unreachable once the fast-forward / force / new-ref / delete permit edges are removed, that existing tags additionally need a force permit, that unlogged ref writes are confined to tags and transaction refs, that the reflog's old value is read inside the SQL transaction that updates the ref, and that merge writes refs only after the merge base was computed. Does not decide IsAncestorOf's correctness (C11), merge's fast-forward condition, pull's new-branch detection or the remote side of push. Also decided: force permits are tests of the flag itself (not of a loop-carried accumulation); the fast-forward ref write takes the single input that differs from the merge base.",
		NotDecided: "that IsAncestorOf answers correctly (C11); merge's fast-forward condition (control-dependent on SeekCommonAncestor); pull's new-branch detection; the remote side of push.",
	}
	props["C09"] = &propSpec{
		Rules:      []string{"C09-a", "C09-b", "C09-c", "C09-e", "C09-f", "C09-g", "C10-c", "C08-c", "C17-f", "C09-h", "C09-i"},
		Decides:    "Decides ordering/completion mechanisms: fetched refs are saved only on the success edge of the object fetch; the upload-pack session returns its terminal state only on Receive's done==true edge; a push session is created only after the shallow-commit check; refs are written only through pkg/ref's logging API. Does not decide completeness of the transferred history or idempotence. Also decided: tables are acknowledged only under TableExist; the receiver is given the freshly computed wants; every successful return of Fetch has saved the refs.",
		NotDecided: "completeness of the transferred history, object identity on both sides, idempotence of a repeated fetch/push.",
	}
	props["C12"] = &propSpec{
		Rules:      []string{"C12-a", "C12-b", "C12-c", "C12-d", "C12-e", "C12-f", "C13-i", "C17-e", "C17-f", "C13-k", "C11-c", "C11-d"},
		Decides:    "Decides structural mechanisms of prune safety on every path: roots come from an unfiltered ref listing; no ref/object-store error is dropped while marking; every delete lies under a not-marked edge of a []bool mark (commits: come from a list filled only under such an edge); every sort.Search hit is bounds-checked before use and equality-checked before a mark is written; commits are deleted in the last step. Does not decide that the marked set equals the reachable set (graph-valued). Also decided: configuration fields with a defaulting getter (transaction TTL) are read only through it; prune deletes the table object before its index and profile.",
		NotDecided: "that the marked set equals the reachable set for every repository (graph-valued).",
	}
	props["C14"] = &propSpec{
		Rules:      []string{"C14-a", "C14-b", "C14-c", "C13-g", "C10-d", "C15-c", "C14-d", "C14-e"},
		Decides:    "Decides that Commit and Discard test Transaction.Status before any ref/transaction mutation with an outcome that avoids the mutations; that Commit's per-branch ref update is reachable only through the not-yet-logged edge of a GetTransactionLogs lookup (re-run completes without duplicating commits); that no branch mutation is reachable from Discard. Does not decide the outcome of every crash point or the atomicity of a single run. Also decided: the already-moved lookup is keyed by the same ref name the update is logged under; the per-branch update runs as one SQL transaction that reads the old value itself.",
		NotDecided: "the outcome of every crash point; log contents; atomicity of a single run (the per-branch loop is not one store transaction).",
	}
	props["C15"] = &propSpec{
		Rules:      []string{"C15-a", "C13-g", "C10-d", "C15-c", "C15-d", "C15-e"},
		Decides:    "Decides that no query of the SQL ref store uses LIKE/GLOB/REGEXP/MATCH (prefix listing is literal and case-sensitive for this code base, which opens SQLite without case_sensitive_like); that multi-statement writes run on one *sql.Tx and RunInTx commits only on success and rolls back otherwise; that the reflog's old value comes from a Scan in the same transaction; that rename/copy/delete change ref and log rows together. Does not decide sequence semantics against a map model; the file store is test-only and not analysed. Also decided: namespace prefixes handed to the store by pkg/ref provably end with '/'.",
		NotDecided: "sequence semantics of the store against a map model; the file store (pkg/ref/fs is imported only by tests and is outside the production call graph).",
	}
	props["C16"] = &propSpec{
		Rules:      []string{"C16-a", "C16-b", "C16-c", "C16-d", "C16-e", "C16-f", "C16-g", "C16-h", "C16-i", "C16-j"},
		Decides:    "Decides that, for goroutines started in several instances on shared operands (go in a loop, or in a function called from a loop), every field/variable/map write reached from the shared operands is under a mutex reached from the same operands, inside sync.Once.Do, atomic or a channel operation; that SingleTracker's concurrently read counters are only accessed atomically; that the ingest pool's error channel is sized by the same value as its worker loop and a worker sends at most once; that no error is dropped in pipeline goroutines. Does not decide termination, deadlock freedom, equality with the sequential result or absence of every race. Also decided: workers read lock-guarded shared fields under the lock; no error send after closing the data channel; data channel fields are closed by their sender.",
		NotDecided: "termination, deadlock freedom, equality with the sequential result, absence of every race (no may-happen-in-parallel analysis for main-vs-goroutine pairs).",
	}
	props["C18"] = &propSpec{
		Rules:      []string{"C18-a", "C16-g", "C18-b"},
		Decides:    "Decides a sufficient shape for chunk-independence of the byte stream decoders see: in pkg/encoding/..., pkg/objects, pkg/api/client and pkg/api/utils every direct Read call is inside a delegating Read method or inside a loop that accumulates the byte count and consumes n before any successful exit; all other reads go through io.ReadFull/ReadAtLeast/ReadAll/Copy. Its negation is a defect for iotest.OneByteReader/DataErrReader-like transports. Does not decide equality of decoded sequences under every partition. An accumulating read loop may not exit on a plain iteration counter.",
		NotDecided: "equality of the decoded object sequences under every partition of the stream (behavioural); readers handed to third-party decoders (gzip, json).",
	}
	props["C19"] = &propSpec{
		Rules:      []string{"C19-a", "C19-b", "C19-d", "C19-e", "C19-f", "C01-a", "C01-b", "C19-g", "C19-h"},
		Decides:    "Decides structural necessary conditions of 'every distinct key once, in key order': every loop that compares two rows position by position is two-sided (a '<' decision is paired with a '>'/'!=' test on the same operands before the next position); pre-removal key positions are never applied to a row after column removal; every spill file gets a close+remove cleanup that Close runs; spill errors are not dropped; the row codec does not wrap. Does not decide sortedness/de-duplication of the output for all multisets and memory limits. Also decided: fields set by AddRow/Close are re-armed by Reset.",
		NotDecided: "sortedness and de-duplication of the output for all row multisets and memory limits (value-dependent).",
	}
	props["C17"] = &propSpec{
		Rules:      []string{"C17-a", "C17-b", "C17-c", "C17-d", "C17-e", "C17-f", "C07-b", "C17-g", "C16-i", "C17-h", "C17-i"},
		Decides:    "Decides, over the functions reachable from the decoder entry points and ObjectReceiver.Receive, that no 32/64-bit count decoded from the stream sizes a make() without a sane bound on every path; that binary.BigEndian reads from caller-supplied slices in error-returning functions are behind a len() guard that relates the length to the read's offset and rejects with an error; that constant indices into decoded collections are behind a length test; that pointer results which can be nil together with an error are not dereferenced before the error test. Does not decide implicit index panics with non-constant indices, loop termination, or that nothing from a rejected packfile stays referenced. Also decided: Grow calls count as allocation sinks; a received commit is stored only after its parents were found.",
		NotDecided: "implicit index panics with non-constant indices, loop termination, 'nothing from a rejected packfile is left referenced'.",
	}
	props["C05"] = &propSpec{
		Rules:      []string{"C05-a", "C05-b", "C05-c", "C05-d", "C05-e", "C05-f"},
		Decides:    "Decides column-layout consistency of the merge result pipeline: every row added to RowCollector.resolvedRows and every key-position vector stored into its PK comes from the merged layout (ColDiff.RearrangeRow/RearrangeBaseRow/PKIndices, Merge.ResolvedRow) and is never a row of a stored block or objects.Table.PK passed on unchanged. This is a necessary condition of 'rows untouched by every branch appear unchanged under their own column names wherever the key column sits'. Does not decide cell-wise resolution, conflict marking, commutativity, keyless tables or renamed columns. Two known findings (not repairable without editing a test that pins the defect). Also decided: every per-branch diff channel handed to mergeTables reports unchanged rows (DiffTables with WithEmitUnchangedRow), and merge commands return success only behind Merger.Error()==nil.",
		NotDecided: "the cell-wise resolution rules, conflict marking, commutativity, keyless tables and renamed columns (value-dependent).",
	}
	props["C08"] = &propSpec{
		Rules:      []string{"C08-a", "C08-b", "C08-c", "C08-d", "C08-e", "C11-a", "C08-f"},
		Decides:    "Decides one clause of the property only: a caller-supplied hash is stored into the Wants map only after the reachability check (the function that builds *UnrecognizedWantsError) succeeded, and that check walks from an unfiltered listing of all refs. Closedness, parent-first order, minimality, depth selection and polynomial termination are statements about DAG values and are not decided. Level 'other', explicitly thin.",
		NotDecided: "closedness, parent-first order, minimality, depth selection, polynomial termination — all statements about DAG values.",
	}
	props["C11"] = &propSpec{
		Rules:      []string{"C11-a", "C11-b", "C11-c", "C11-d", "C11-e", "C17-e", "C16-g"},
		Decides:    "Decides the 'whatever the commit timestamps say' clause for the ancestor test: in pkg/ref a value loaded from Commit.Time reaches a branch condition or return value only inside CommitsQueue.Less and the sort.Search predicate of Insert (frontier position); IsAncestorOf answers false only on the io.EOF edge of the pop and Pop yields io.EOF only on Len()==0; InsertParents offers every parent to the frontier. Does not decide SeekCommonAncestor's elimination logic or visit-exactly-once (graph-valued). Also decided: seen-set test and mark in CommitsQueue.Insert form one critical section; SeekCommonAncestor's 'not found' test uses a count accumulated within one round.",
		NotDecided: "correctness of SeekCommonAncestor's lock-step elimination; visit-exactly-once (graph-valued).",
	}
}
