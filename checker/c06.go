package main

import (
	"fmt"
	"go/ast"
	"go/constant"
	"go/token"
	"go/types"
	"strings"

	"golang.org/x/tools/go/ssa"
)

func isCalleeNamed(c ssa.CallInstruction, pkgSuffix, name string) bool {
	f := calleeFunc(c)
	return f != nil && f.Pkg() != nil && strings.HasSuffix(f.Pkg().Path(), pkgSuffix) && f.Name() == name
}

// derivedFromCallArg: v derives (backward) from the result of a call to pkg.name
// whose argument argIdx is sameObject with want.
func derivedFromCallOn(v ssa.Value, pkgSuffix, name string, argIdx int, want ssa.Value) bool {
	for x := range backward(v, nil) {
		c, ok := x.(*ssa.Call)
		if !ok || !isCalleeNamed(c, pkgSuffix, name) {
			continue
		}
		if argIdx < len(c.Call.Args) && (want == nil || sameObject(c.Call.Args[argIdx], want)) {
			return true
		}
	}
	return false
}

func init() {
	register(&Rule{
		ID: "C06-a", Template: "SSA data-flow (content addressing)",
		Doc: "A stored object never disagrees with its identifier: in pkg/objects every store under a content-addressed key (blockKey, tableKey, blockIndexKey, commitKey) uses the meow.Checksum of a parameter P as the key, and stores P itself, s2.EncodeBetter(_, P), or — SaveCompressedBlock — a second parameter C, in which case every production caller passes a pair with content = s2.Decode(_, C) or C = s2.EncodeBetter(_, content).",
		Min: 5,
		Run: func(p *Program, r *RuleResult) error {
			keyFns := map[*ssa.Function]bool{}
			for _, n := range []string{"blockKey", "tableKey", "blockIndexKey", "commitKey"} {
				fn, err := p.SSAFunc("pkg/objects." + n)
				if err != nil {
					return err
				}
				keyFns[fn] = true
			}
			saveObj, err := p.SSAFunc("pkg/objects.saveObj")
			if err != nil {
				return err
			}
			fns := p.FuncsInPkg("pkg/objects")
			r.Analysed = len(fns)
			pairObligation := map[*ssa.Function][2]int{} // saver -> (content param idx, stored param idx)
			for _, fn := range fns {
				eachCall(fn, func(ci ssa.CallInstruction) {
					if ci.Common().StaticCallee() != saveObj && !(ci.Common().IsInvoke() && ci.Common().Method.Name() == "Set" && strings.HasSuffix(ci.Common().Method.Pkg().Path(), "/pkg/objects")) {
						return
					}
					if fn == saveObj {
						return
					}
					args := ci.Common().Args
					var keyArg, valArg ssa.Value
					if ci.Common().IsInvoke() {
						keyArg, valArg = args[0], args[1]
					} else {
						keyArg, valArg = args[1], args[2]
					}
					kc, ok := keyArg.(*ssa.Call)
					if !ok || kc.Call.StaticCallee() == nil || !keyFns[kc.Call.StaticCallee()] {
						return // not a content-addressed key
					}
					key := callKey(fn, ci)
					what := "object stored under the hash of the content it was given"
					// the sum
					var P *ssa.Parameter
					for x := range backward(kc.Call.Args[0], nil) {
						c, ok := x.(*ssa.Call)
						if !ok || !isCalleeNamed(c, "pckhoi/meow", "Checksum") || len(c.Call.Args) < 2 {
							continue
						}
						if par, ok := stripConv(c.Call.Args[1]).(*ssa.Parameter); ok {
							P = par
						}
					}
					if P == nil {
						r.bad(key, p.Rel(ci.Pos()), what, "the key's sum is not meow.Checksum of a parameter of "+funcName(fn))
						return
					}
					v := stripConv(valArg)
					switch {
					case v == P:
						r.okWhy(key, p.Rel(ci.Pos()), what, "stores the hashed parameter itself")
					case derivedFromCallOn(v, "compress/s2", "EncodeBetter", 1, P):
						r.okWhy(key, p.Rel(ci.Pos()), what, "stores s2.EncodeBetter of the hashed parameter")
					default:
						if q, ok := v.(*ssa.Parameter); ok && q != P {
							pi, qi := -1, -1
							for i, par := range fn.Params {
								if par == P {
									pi = i
								}
								if par == q {
									qi = i
								}
							}
							pairObligation[fn] = [2]int{pi, qi}
							r.okWhy(key, p.Rel(ci.Pos()), what, "stores a second parameter: obligation moved to every caller (content must be the decompression of what is stored)")
						} else {
							r.bad(key, p.Rel(ci.Pos()), what, "the stored bytes are neither the hashed parameter nor its s2 encoding")
						}
					}
				})
			}
			// caller obligations
			for saver, idx := range pairObligation {
				n := p.CG.Nodes[saver]
				if n == nil {
					continue
				}
				for _, e := range n.In {
					if e.Site == nil || !p.IsProd(e.Caller.Func) {
						continue
					}
					fn := e.Caller.Func
					args := e.Site.Common().Args
					D, C := args[idx[0]], args[idx[1]]
					key := callKey(fn, e.Site) + "|pair"
					what := "caller of " + funcName(saver) + " passes content that is the decompression of the stored bytes"
					ok := derivedFromCallOn(C, "compress/s2", "EncodeBetter", 1, D) || derivedFromCallOn(D, "compress/s2", "Decode", 1, C)
					if !ok {
						// D loaded from a field that was assigned s2.Decode(_, C) in this function
						if u, isLoad := stripConv(D).(*ssa.UnOp); isLoad && u.Op == token.MUL {
							for _, b := range fn.Blocks {
								for _, in := range b.Instrs {
									if st, isSt := in.(*ssa.Store); isSt && sameAddr(st.Addr, u.X) && derivedFromCallOn(st.Val, "compress/s2", "Decode", 1, C) {
										if _, after := reachAfter(fn, st, e.Site, nil, nil); after {
											ok = true
										}
									}
								}
							}
						}
					}
					if ok {
						r.ok(key, p.Rel(e.Site.Pos()), what)
					} else {
						r.bad(key, p.Rel(e.Site.Pos()), what, "the content argument is not s2.Decode of the stored argument (nor is the stored argument s2.EncodeBetter of the content): the block would be stored under a hash that is not the hash of what decompresses from it")
					}
				}
			}
			return nil
		},
	})

	register(&Rule{
		ID: "C06-b", Template: "T3 who-may-call",
		Doc: "Nobody writes raw keys: objects.Store.Set, Delete and Clear are invoked only inside pkg/objects (persistence layer) — and by store implementations themselves.",
		Min: 5,
		Run: func(p *Program, r *RuleResult) error {
			store, err := p.NamedType("pkg/objects.Store")
			if err != nil {
				return err
			}
			iface, ok := store.Underlying().(*types.Interface)
			if !ok {
				return &AnchorError{"pkg/objects.Store interface"}
			}
			muts := map[*types.Func]bool{}
			for i := 0; i < iface.NumMethods(); i++ {
				switch iface.Method(i).Name() {
				case "Set", "Delete", "Clear":
					muts[iface.Method(i)] = true
				}
			}
			fns := p.ProdFuncs()
			r.Analysed = len(fns)
			for _, fn := range fns {
				eachCall(fn, func(ci ssa.CallInstruction) {
					cc := ci.Common()
					if !cc.IsInvoke() || !muts[cc.Method] {
						return
					}
					what := "raw object-store mutation only from the persistence layer"
					pk := fnPkgPath(fn)
					if pk == modPath+"/pkg/objects" || strings.HasPrefix(pk, modPath+"/pkg/objects/") {
						r.ok(callKey(fn, ci), p.Rel(ci.Pos()), what)
					} else {
						r.bad(callKey(fn, ci), p.Rel(ci.Pos()), what, funcName(fn)+" writes/deletes a raw key, bypassing the content-addressed Save*/Delete* API")
					}
				})
			}
			return nil
		},
	})

	register(&Rule{
		ID: "C06-d", Template: "T10 agreement (writer/reader label tables)",
		Doc: "For every object type of pkg/objects that is written as labelled fields, the ordered list of labels in the []fieldEncode literal(s) of its methods equals the ordered list in its []fieldDecode literal(s): the reader expects exactly what the writer emits.",
		Min: 3,
		Run: func(p *Program, r *RuleResult) error {
			pk := p.ByPath[modPath+"/pkg/objects"]
			if pk == nil {
				return &AnchorError{"pkg/objects"}
			}
			type lists struct {
				enc, dec []string
				pos      token.Pos
			}
			byType := map[string]*lists{}
			for _, file := range pk.Syntax {
				for _, d := range file.Decls {
					fd, ok := d.(*ast.FuncDecl)
					if !ok || fd.Recv == nil || len(fd.Recv.List) == 0 || fd.Body == nil {
						continue
					}
					rt := pk.TypesInfo.TypeOf(fd.Recv.List[0].Type)
					if rt == nil {
						continue
					}
					tn := shortType(derefType(rt))
					ast.Inspect(fd.Body, func(n ast.Node) bool {
						cl, ok := n.(*ast.CompositeLit)
						if !ok {
							return true
						}
						t := pk.TypesInfo.TypeOf(cl)
						sl, ok := t.(*types.Slice)
						if !ok {
							return true
						}
						named, ok := sl.Elem().(*types.Named)
						if !ok || (named.Obj().Name() != "fieldEncode" && named.Obj().Name() != "fieldDecode") {
							return true
						}
						var labels []string
						for _, el := range cl.Elts {
							ecl, ok := el.(*ast.CompositeLit)
							if !ok || len(ecl.Elts) == 0 {
								continue
							}
							first := ecl.Elts[0]
							if kv, ok := first.(*ast.KeyValueExpr); ok {
								first = kv.Value
							}
							if tv, ok := pk.TypesInfo.Types[first]; ok && tv.Value != nil && tv.Value.Kind() == constant.String {
								labels = append(labels, constant.StringVal(tv.Value))
							}
						}
						l := byType[tn]
						if l == nil {
							l = &lists{pos: fd.Pos()}
							byType[tn] = l
						}
						if named.Obj().Name() == "fieldEncode" {
							l.enc = append(l.enc, labels...)
						} else {
							l.dec = append(l.dec, labels...)
						}
						return true
					})
				}
			}
			r.Analysed = len(byType)
			for tn, l := range byType {
				key := tn + "|labels"
				what := "writer and reader label tables agree: " + strings.Join(l.enc, ",")
				if strings.Join(l.enc, "\x00") == strings.Join(l.dec, "\x00") && len(l.enc) > 0 {
					r.ok(key, p.Rel(l.pos), what)
				} else {
					r.bad(key, p.Rel(l.pos), "writer and reader label tables agree", fmt.Sprintf("writer emits %v but reader expects %v", l.enc, l.dec))
				}
			}
			return nil
		},
	})
}
