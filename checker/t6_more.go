package main

// More sinks for the stream-decoded-number taint (T6):
//   C17-h  a tainted unsigned number is reinterpreted as a signed one of the same
//          width (uint64 → int64/int) without an upper bound: the result can be
//          negative, and make / Grow / slicing with a negative size panic.
//   C17-i  a loop counter that runs up to a tainted count indexes a slice whose
//          length was fixed independently of that count.

import (
	"fmt"
	"go/token"
	"go/types"

	"golang.org/x/tools/go/ssa"
)

func isUnsigned(t types.Type) bool {
	b, ok := t.Underlying().(*types.Basic)
	return ok && b.Info()&types.IsUnsigned != 0
}

func isSignedInt(t types.Type) bool {
	b, ok := t.Underlying().(*types.Basic)
	return ok && b.Info()&types.IsInteger != 0 && b.Info()&types.IsUnsigned == 0
}

func init() {
	register(&Rule{
		ID: "C17-h", Template: "T6 taint → sink (sign flip)",
		Doc: "A number decoded from the stream never turns negative on its way to a size: in the hostile-reachable set, a conversion of a stream-decoded unsigned integer to a signed type that is not wider (uint64 → int64 / int, uint32 → int32) is reachable only after a comparison that bounds the unsigned value by a constant — or the signed result is compared with a lower bound before any use. make, (*bytes.Buffer).Grow and slice expressions panic on a negative size, and io.CopyN with a negative count silently reads nothing.",
		Min: 1,
		Run: func(p *Program, r *RuleResult) error {
			H, _, err := hostileReachable(p)
			if err != nil {
				return err
			}
			r.Analysed = len(H)
			t := newTaint(p, H)
			t.run()
			for _, fn := range sortedFuncs(H) {
				tv := t.tainted[fn]
				if tv == nil {
					continue
				}
				n := 0
				for _, b := range fn.Blocks {
					for _, in := range b.Instrs {
						cv, ok := in.(*ssa.Convert)
						if !ok || !isUnsigned(cv.X.Type()) || !isSignedInt(cv.Type()) {
							continue
						}
						if intBits(cv.Type()) > intBits(cv.X.Type()) {
							continue // widening: the value is preserved
						}
						if !(tv[cv.X] || tv[stripConv(cv.X)]) {
							continue
						}
						if intBits(cv.X.Type()) <= 16 {
							continue
						}
						key := fmt.Sprintf("%s|%s→%s#%d", funcName(fn), shortType(cv.X.Type()), shortType(cv.Type()), n)
						n++
						what := "a stream-decoded unsigned number is bounded before it is reinterpreted as signed"
						cut := mkCut(t.boundedEdgesOpt(fn, cv.X, false), t.boundedEdgesOpt(fn, stripConv(cv.X), false))
						if _, reach := reachAfter(fn, nil, cv, cut, nil); !reach {
							r.ok(key, p.Rel(cv.Pos()), what)
							continue
						}
						// or: every use of the signed result lies behind a lower-bound test of it
						lower := lowerBoundEdges(fn, cv)
						unguarded := ""
						for _, ref := range *cv.Referrers() {
							if _, ok := ref.(*ssa.DebugRef); ok {
								continue
							}
							if bo, ok := ref.(*ssa.BinOp); ok && isComparison(bo.Op) {
								continue
							}
							if _, reach := reachAfter(fn, cv, ref, mkCut(lower), nil); reach || ref.Block() == cv.Block() && len(lower) == 0 {
								unguarded = p.Rel(ref.Pos())
							}
						}
						if unguarded == "" && len(lower) > 0 {
							r.ok(key, p.Rel(cv.Pos()), what)
						} else {
							r.bad(key, p.Rel(cv.Pos()), what, fmt.Sprintf("%s (from the stream) is converted to %s with no upper bound before and no `>= 0` test after: values above the signed maximum become negative sizes (used at %s)", cv.X.Name(), shortType(cv.Type()), unguarded))
						}
					}
				}
			}
			return nil
		},
	})

	register(&Rule{
		ID: "C17-i", Template: "T6 taint → sink (index by a hostile counter)",
		Doc: "A count from the stream never walks past a buffer sized without it: in the hostile-reachable set, an index expression s[i] whose index is a loop counter compared against a stream-decoded count (i < count) is applied only to a slice whose length is that same count (make([]T, count)) — not to one whose length was capped or chosen independently (make([]T, preallocCap(count))), unless the index is compared with len(s) first.",
		Min: 1,
		Run: func(p *Program, r *RuleResult) error {
			H, _, err := hostileReachable(p)
			if err != nil {
				return err
			}
			r.Analysed = len(H)
			t := newTaint(p, H)
			t.run()
			total := 0
			for _, fn := range sortedFuncs(H) {
				tv := t.tainted[fn]
				if tv == nil {
					continue
				}
				// loop counters bounded by a tainted count: φ i with `i < count` / `i != count`
				counters := map[ssa.Value]ssa.Value{}
				for _, b := range fn.Blocks {
					if len(b.Instrs) == 0 {
						continue
					}
					ifi, ok := b.Instrs[len(b.Instrs)-1].(*ssa.If)
					if !ok {
						continue
					}
					bo, ok := ifi.Cond.(*ssa.BinOp)
					if !ok || !isComparison(bo.Op) {
						continue
					}
					for _, pair := range [][2]ssa.Value{{bo.X, bo.Y}, {bo.Y, bo.X}} {
						i, cnt := stripConv(pair[0]), pair[1]
						if _, isPhi := i.(*ssa.Phi); !isPhi {
							continue
						}
						if tv[cnt] || tv[stripConv(cnt)] {
							// the count itself must be unbounded (else the loop is bounded too)
							cut := mkCut(t.boundedEdges(fn, cnt), t.boundedEdges(fn, stripConv(cnt)))
							if _, reach := reachAfter(fn, nil, ifi, cut, nil); reach {
								counters[i] = cnt
							}
						}
					}
				}
				if len(counters) == 0 {
					continue
				}
				n := 0
				for _, b := range fn.Blocks {
					for _, in := range b.Instrs {
						ia, ok := in.(*ssa.IndexAddr)
						if !ok {
							continue
						}
						idx := stripConv(ia.Index)
						cnt, isCounter := counters[idx]
						if !isCounter {
							continue
						}
						if _, isSlice := ia.X.Type().Underlying().(*types.Slice); !isSlice {
							continue
						}
						key := fmt.Sprintf("%s|index-by-counter#%d", funcName(fn), n)
						n++
						total++
						what := "a slice indexed by a counter that runs up to a stream-decoded count has that count as its length"
						// length of the indexed slice
						okLen := false
						why := "the indexed slice is not a make() of the same count"
						for v := range backward(ia.X, nil) {
							if ms, ok := v.(*ssa.MakeSlice); ok {
								if stripConv(ms.Len) == stripConv(cnt) || ms.Len == cnt {
									okLen = true
								} else {
									why = fmt.Sprintf("the slice is make(…, %s) while the counter runs up to %s", ms.Len.Name(), cnt.Name())
								}
							}
						}
						if !okLen {
							// index compared with len(s) first?
							var lenTests []edge
							for _, b2 := range fn.Blocks {
								if len(b2.Instrs) == 0 {
									continue
								}
								if if2, ok := b2.Instrs[len(b2.Instrs)-1].(*ssa.If); ok {
									if bo, ok := if2.Cond.(*ssa.BinOp); ok && isComparison(bo.Op) {
										for _, pair := range [][2]ssa.Value{{bo.X, bo.Y}, {bo.Y, bo.X}} {
											if stripConv(pair[0]) == idx {
												if x := lenArgOf(pair[1]); x != nil && (x == ia.X || stripConv(x) == stripConv(ia.X)) {
													lenTests = append(lenTests, edge{b2, 0}, edge{b2, 1})
												}
											}
										}
									}
								}
							}
							if len(lenTests) > 0 {
								if _, reach := reachAfter(fn, nil, ia, mkCut(lenTests), nil); !reach {
									okLen = true
								}
							}
						}
						if okLen {
							r.ok(key, p.Rel(ia.Pos()), what)
						} else {
							r.bad(key, p.Rel(ia.Pos()), what, why+": a count larger than the slice indexes out of range")
						}
					}
				}
			}
			if total == 0 {
				r.ok("hostile-set|no-index-by-hostile-counter", "", "a slice indexed by a counter that runs up to a stream-decoded count has that count as its length")
			}
			return nil
		},
	})
}

func isComparison(op token.Token) bool {
	switch op {
	case token.LSS, token.LEQ, token.GTR, token.GEQ, token.EQL, token.NEQ:
		return true
	}
	return false
}

// lowerBoundEdges: edges on which v >= 0 (or > k) is known.
func lowerBoundEdges(fn *ssa.Function, v ssa.Value) []edge {
	var out []edge
	for _, b := range fn.Blocks {
		if len(b.Instrs) == 0 {
			continue
		}
		ifi, ok := b.Instrs[len(b.Instrs)-1].(*ssa.If)
		if !ok {
			continue
		}
		bo, ok := ifi.Cond.(*ssa.BinOp)
		if !ok {
			continue
		}
		op := bo.Op
		var other ssa.Value
		switch {
		case bo.X == v:
			other = bo.Y
		case bo.Y == v:
			other = bo.X
			switch op {
			case token.LSS:
				op = token.GTR
			case token.LEQ:
				op = token.GEQ
			case token.GTR:
				op = token.LSS
			case token.GEQ:
				op = token.LEQ
			}
		default:
			continue
		}
		if k, ok := constInt(other); !ok || k < 0 {
			continue
		}
		switch op {
		case token.GEQ, token.GTR: // v >= k: true edge
			out = append(out, edge{b, 0})
		case token.LSS, token.LEQ: // v < k: false edge has v >= k
			out = append(out, edge{b, 1})
		}
	}
	return out
}
