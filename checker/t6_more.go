package main

// More sinks for the stream-decoded-number taint (T6):
//   C17-h  a tainted unsigned number is reinterpreted as a signed one of the same
//          width (uint64 → int64/int) without an upper bound: the result can be
//          negative, and make / Grow / slicing with a negative size panic.
//   C17-i  a loop counter that runs up to a tainted count indexes a slice whose
//          length was fixed independently of that count.

import (
	"fmt"
	"go/token"
	"go/types"
	"strings"

	"golang.org/x/tools/go/ssa"
)

func isUnsigned(t types.Type) bool {
	b, ok := t.Underlying().(*types.Basic)
	return ok && b.Info()&types.IsUnsigned != 0
}

func isSignedInt(t types.Type) bool {
	b, ok := t.Underlying().(*types.Basic)
	return ok && b.Info()&types.IsInteger != 0 && b.Info()&types.IsUnsigned == 0
}

func init() {
	register(&Rule{
		ID: "C17-h", Template: "T6 taint → sink (sign flip)",
		Doc: "A number decoded from the stream never turns negative on its way to a size: in the hostile-reachable set, a conversion of a stream-decoded unsigned integer to a signed type that is not wider (uint64 → int64 / int, uint32 → int32) is reachable only after a comparison that bounds the unsigned value by a constant — or the signed result is compared with a lower bound before any use. make, (*bytes.Buffer).Grow and slice expressions panic on a negative size, and io.CopyN with a negative count silently reads nothing.",
		Min: 1,
		Run: func(p *Program, r *RuleResult) error {
			H, _, err := hostileReachable(p)
			if err != nil {
				return err
			}
			r.Analysed = len(H)
			t := newTaint(p, H)
			t.run()
			for _, fn := range sortedFuncs(H) {
				tv := t.tainted[fn]
				if tv == nil {
					continue
				}
				n := 0
				for _, b := range fn.Blocks {
					for _, in := range b.Instrs {
						cv, ok := in.(*ssa.Convert)
						if !ok || !isUnsigned(cv.X.Type()) || !isSignedInt(cv.Type()) {
							continue
						}
						if intBits(cv.Type()) > intBits(cv.X.Type()) {
							continue // widening: the value is preserved
						}
						if !(tv[cv.X] || tv[stripConv(cv.X)]) {
							continue
						}
						if intBits(cv.X.Type()) <= 16 {
							continue
						}
						key := fmt.Sprintf("%s|%s→%s#%d", funcName(fn), shortType(cv.X.Type()), shortType(cv.Type()), n)
						n++
						what := "a stream-decoded unsigned number is bounded before it is reinterpreted as signed"
						cut := mkCut(t.boundedEdgesOpt(fn, cv.X, false), t.boundedEdgesOpt(fn, stripConv(cv.X), false))
						if _, reach := reachAfter(fn, nil, cv, cut, nil); !reach {
							r.ok(key, p.Rel(cv.Pos()), what)
							continue
						}
						// or: every use of the signed result lies behind a lower-bound test of it
						lower := lowerBoundEdges(fn, cv)
						unguarded := ""
						for _, ref := range *cv.Referrers() {
							if _, ok := ref.(*ssa.DebugRef); ok {
								continue
							}
							if bo, ok := ref.(*ssa.BinOp); ok && isComparison(bo.Op) {
								continue
							}
							if _, reach := reachAfter(fn, cv, ref, mkCut(lower), nil); reach || ref.Block() == cv.Block() && len(lower) == 0 {
								unguarded = p.Rel(ref.Pos())
							}
						}
						if unguarded == "" && len(lower) > 0 {
							r.ok(key, p.Rel(cv.Pos()), what)
						} else {
							r.bad(key, p.Rel(cv.Pos()), what, fmt.Sprintf("%s (from the stream) is converted to %s with no upper bound before and no `>= 0` test after: values above the signed maximum become negative sizes (used at %s)", cv.X.Name(), shortType(cv.Type()), unguarded))
						}
					}
				}
			}
			return nil
		},
	})

	register(&Rule{
		ID: "C17-i", Template: "T6 taint → sink (index by a hostile counter)",
		Doc: "A count from the stream never walks past a buffer sized without it: in the hostile-reachable set, an index expression s[i] whose index is a loop counter compared against a stream-decoded count (i < count) is applied only to a slice whose length is that same count (make([]T, count)) — not to one whose length was capped or chosen independently (make([]T, preallocCap(count))), unless the index is compared with len(s) first.",
		Min: 1,
		Run: func(p *Program, r *RuleResult) error {
			H, _, err := hostileReachable(p)
			if err != nil {
				return err
			}
			r.Analysed = len(H)
			t := newTaint(p, H)
			t.run()
			total := 0
			for _, fn := range sortedFuncs(H) {
				tv := t.tainted[fn]
				if tv == nil {
					continue
				}
				// loop counters bounded by a tainted count: φ i with `i < count` / `i != count`
				counters := map[ssa.Value]ssa.Value{}
				for _, b := range fn.Blocks {
					if len(b.Instrs) == 0 {
						continue
					}
					ifi, ok := b.Instrs[len(b.Instrs)-1].(*ssa.If)
					if !ok {
						continue
					}
					bo, ok := ifi.Cond.(*ssa.BinOp)
					if !ok || !isComparison(bo.Op) {
						continue
					}
					for _, pair := range [][2]ssa.Value{{bo.X, bo.Y}, {bo.Y, bo.X}} {
						i, cnt := stripConv(pair[0]), pair[1]
						if _, isPhi := i.(*ssa.Phi); !isPhi {
							continue
						}
						if tv[cnt] || tv[stripConv(cnt)] {
							// the count itself must be unbounded (else the loop is bounded too)
							cut := mkCut(t.boundedEdges(fn, cnt), t.boundedEdges(fn, stripConv(cnt)))
							if _, reach := reachAfter(fn, nil, ifi, cut, nil); reach {
								counters[i] = cnt
							}
						}
					}
				}
				if len(counters) == 0 {
					continue
				}
				n := 0
				for _, b := range fn.Blocks {
					for _, in := range b.Instrs {
						ia, ok := in.(*ssa.IndexAddr)
						if !ok {
							continue
						}
						idx := stripConv(ia.Index)
						cnt, isCounter := counters[idx]
						if !isCounter {
							continue
						}
						if _, isSlice := ia.X.Type().Underlying().(*types.Slice); !isSlice {
							continue
						}
						key := fmt.Sprintf("%s|index-by-counter#%d", funcName(fn), n)
						n++
						total++
						what := "a slice indexed by a counter that runs up to a stream-decoded count has that count as its length"
						// length of the indexed slice
						okLen := false
						why := "the indexed slice is not a make() of the same count"
						for v := range backward(ia.X, nil) {
							if ms, ok := v.(*ssa.MakeSlice); ok {
								if stripConv(ms.Len) == stripConv(cnt) || ms.Len == cnt {
									okLen = true
								} else {
									why = fmt.Sprintf("the slice is make(…, %s) while the counter runs up to %s", ms.Len.Name(), cnt.Name())
								}
							}
						}
						if !okLen {
							// index compared with len(s) first?
							var lenTests []edge
							for _, b2 := range fn.Blocks {
								if len(b2.Instrs) == 0 {
									continue
								}
								if if2, ok := b2.Instrs[len(b2.Instrs)-1].(*ssa.If); ok {
									if bo, ok := if2.Cond.(*ssa.BinOp); ok && isComparison(bo.Op) {
										for _, pair := range [][2]ssa.Value{{bo.X, bo.Y}, {bo.Y, bo.X}} {
											if stripConv(pair[0]) == idx {
												if x := lenArgOf(pair[1]); x != nil && (x == ia.X || stripConv(x) == stripConv(ia.X)) {
													lenTests = append(lenTests, edge{b2, 0}, edge{b2, 1})
												}
											}
										}
									}
								}
							}
							if len(lenTests) > 0 {
								if _, reach := reachAfter(fn, nil, ia, mkCut(lenTests), nil); !reach {
									okLen = true
								}
							}
						}
						if okLen {
							r.ok(key, p.Rel(ia.Pos()), what)
						} else {
							r.bad(key, p.Rel(ia.Pos()), what, why+": a count larger than the slice indexes out of range")
						}
					}
				}
			}
			if total == 0 {
				r.ok("hostile-set|no-index-by-hostile-counter", "", "a slice indexed by a counter that runs up to a stream-decoded count has that count as its length")
			}
			return nil
		},
	})
}

func isComparison(op token.Token) bool {
	switch op {
	case token.LSS, token.LEQ, token.GTR, token.GEQ, token.EQL, token.NEQ:
		return true
	}
	return false
}

// lowerBoundEdges: edges on which v >= 0 (or > k) is known.
func lowerBoundEdges(fn *ssa.Function, v ssa.Value) []edge {
	var out []edge
	for _, b := range fn.Blocks {
		if len(b.Instrs) == 0 {
			continue
		}
		ifi, ok := b.Instrs[len(b.Instrs)-1].(*ssa.If)
		if !ok {
			continue
		}
		bo, ok := ifi.Cond.(*ssa.BinOp)
		if !ok {
			continue
		}
		op := bo.Op
		var other ssa.Value
		switch {
		case bo.X == v:
			other = bo.Y
		case bo.Y == v:
			other = bo.X
			switch op {
			case token.LSS:
				op = token.GTR
			case token.LEQ:
				op = token.GEQ
			case token.GTR:
				op = token.LSS
			case token.GEQ:
				op = token.LEQ
			}
		default:
			continue
		}
		if k, ok := constInt(other); !ok || k < 0 {
			continue
		}
		switch op {
		case token.GEQ, token.GTR: // v >= k: true edge
			out = append(out, edge{b, 0})
		case token.LSS, token.LEQ: // v < k: false edge has v >= k
			out = append(out, edge{b, 1})
		}
	}
	return out
}

// ---- C17-k: an index decoded from the stream is checked against the slice it indexes ----

// decodedCells: local variables (Allocs / captured cells) whose address is handed to
// a pkg/encoding/objline Read* function: they hold a number decoded from the stream.
func decodedCells(fn *ssa.Function) map[*ssa.Alloc]bool {
	out := map[*ssa.Alloc]bool{}
	eachCall(fn, func(c ssa.CallInstruction) {
		f := calleeFunc(c)
		if f == nil || f.Pkg() == nil || !strings.HasSuffix(f.Pkg().Path(), "/pkg/encoding/objline") || !strings.HasPrefix(f.Name(), "ReadUint") {
			return
		}
		for _, a := range c.Common().Args {
			if al := cellOf(a); al != nil {
				out[al] = true
			} else if al, ok := a.(*ssa.Alloc); ok {
				out[al] = true
			}
		}
	})
	return out
}

// sameSliceVar: two slice values denote the same variable (same SSA value, or loads of
// the same local / captured cell).
func sameSliceVar(a, b ssa.Value) bool {
	a, b = stripConv(a), stripConv(b)
	if a == b {
		return true
	}
	ua, ok1 := a.(*ssa.UnOp)
	ub, ok2 := b.(*ssa.UnOp)
	if ok1 && ok2 && ua.Op == token.MUL && ub.Op == token.MUL {
		if ua.X == ub.X {
			return true
		}
		ca, cb := cellOf(ua.X), cellOf(ub.X)
		if ca != nil && ca == cb {
			return true
		}
	}
	return false
}

func init() {
	register(&Rule{
		ID: "C17-k", Template: "guard relation (index vs. the indexed slice)",
		Doc: "An index read from the stream is checked against the very slice it indexes: in the hostile-reachable set, an index expression s[i] whose index derives from a number decoded with objline.ReadUint16/32 into a local variable is reachable only after a comparison between that number and a value derived from len(s) of the same slice variable, one outcome of which returns an error. A bound taken from a different collection that merely has the same length today (the list of all known profile fields vs. the list in this object's header) lets a crafted object index out of range.",
		Min: 1,
		Run: func(p *Program, r *RuleResult) error {
			H, _, err := hostileReachable(p)
			if err != nil {
				return err
			}
			r.Analysed = len(H)
			total := 0
			for _, fn := range sortedFuncs(H) {
				cells := decodedCells(fn)
				if len(cells) == 0 {
					continue
				}
				fromCell := func(v ssa.Value) bool {
					for x := range backward(v, nil) {
						if u, ok := x.(*ssa.UnOp); ok && u.Op == token.MUL {
							if al, ok := u.X.(*ssa.Alloc); ok && cells[al] {
								return true
							}
							if al := cellOf(u.X); al != nil && cells[al] {
								return true
							}
						}
					}
					return false
				}
				n := 0
				for _, b := range fn.Blocks {
					for _, in := range b.Instrs {
						ia, ok := in.(*ssa.IndexAddr)
						if !ok {
							continue
						}
						if _, isSlice := ia.X.Type().Underlying().(*types.Slice); !isSlice {
							continue
						}
						if _, isConst := constInt(ia.Index); isConst || !fromCell(ia.Index) {
							continue
						}
						key := fmt.Sprintf("%s|index-by-decoded#%d", funcName(fn), n)
						n++
						total++
						what := "an index decoded from the stream is compared with the length of the slice it indexes"
						// guards: If comparing a cell-derived value with something derived from len(X)
						var guardEdges []edge
						wrong := ""
						for _, b2 := range fn.Blocks {
							if len(b2.Instrs) == 0 {
								continue
							}
							ifi, ok := b2.Instrs[len(b2.Instrs)-1].(*ssa.If)
							if !ok {
								continue
							}
							bo, ok := ifi.Cond.(*ssa.BinOp)
							if !ok || !isComparison(bo.Op) {
								continue
							}
							for _, pair := range [][2]ssa.Value{{bo.X, bo.Y}, {bo.Y, bo.X}} {
								if !fromCell(pair[0]) {
									continue
								}
								if _, isConst := constInt(pair[1]); isConst {
									continue
								}
								rel := false
								other := ""
								for x := range backward(pair[1], nil) {
									if lc, ok := x.(*ssa.Call); ok && isBuiltin(lc, "len") && len(lc.Call.Args) == 1 {
										if sameSliceVar(lc.Call.Args[0], ia.X) {
											rel = true
										} else {
											other = lc.Call.Args[0].Name()
										}
									}
								}
								if rel && (leadsToErrorReturn(fn, b2.Succs[0]) || leadsToErrorReturn(fn, b2.Succs[1])) {
									guardEdges = append(guardEdges, edge{b2, 0}, edge{b2, 1})
								} else if other != "" {
									wrong = "the only bound it is compared with is the length of a different collection"
								}
							}
						}
						if len(guardEdges) > 0 {
							if _, reach := reachAfter(fn, nil, ia, mkCut(guardEdges), nil); !reach {
								r.ok(key, p.Rel(ia.Pos()), what)
								continue
							}
						}
						why := "no comparison of the decoded number with len() of the indexed slice lies on every path to this index"
						if wrong != "" {
							why += " (" + wrong + ")"
						}
						r.bad(key, p.Rel(ia.Pos()), what, why)
					}
				}
			}
			if total == 0 {
				r.missing("hostile-set|index-by-decoded", "no index by a decoded number found (TableProfile.ReadFrom's field table lookup is expected)")
			}
			return nil
		},
	})
}
