package main

import (
	"fmt"
	"go/types"

	"golang.org/x/tools/go/ssa"
)

// receiverFuncs: production functions reachable from (*ObjectReceiver).Receive.
func receiverFuncs(p *Program) (map[*ssa.Function]bool, *ssa.Function, error) {
	recv, err := p.SSAFunc("pkg/api/utils.(*ObjectReceiver).Receive")
	if err != nil {
		return nil, nil, err
	}
	out := map[*ssa.Function]bool{}
	for f := range p.Reachable(p.CG, recv) {
		if p.IsProd(f) {
			out[f] = true
		}
	}
	return out, recv, nil
}

// fieldLoadsIn: values in fn that are loads of the given struct field.
func derivedFromField(v ssa.Value, field *types.Var) bool {
	for x := range backward(v, nil) {
		switch y := x.(type) {
		case *ssa.FieldAddr:
			if structField(y.X.Type(), y.Field) == field {
				return true
			}
		case *ssa.Field:
			if structField(y.X.Type(), y.Field) == field {
				return true
			}
		}
	}
	return false
}

func structField(t types.Type, idx int) *types.Var {
	if p, ok := t.Underlying().(*types.Pointer); ok {
		t = p.Elem()
	}
	st, ok := t.Underlying().(*types.Struct)
	if !ok || idx >= st.NumFields() {
		return nil
	}
	return st.Field(idx)
}

func init() {
	register(&Rule{
		ID: "C07-a", Template: "T1 must-traverse",
		Doc: "Every call that stores a received block (objects.SaveCompressedBlock / SaveBlock) reachable from ObjectReceiver.Receive happens only after objects.ValidateBlockBytes succeeded on the same decoded buffer.",
		Min: 1,
		Run: func(p *Program, r *RuleResult) error {
			reach, _, err := receiverFuncs(p)
			if err != nil {
				return err
			}
			sinks, err := p.MustFuncs("pkg/objects.SaveCompressedBlock", "pkg/objects.SaveBlock")
			if err != nil {
				return err
			}
			pre, err := p.MustFuncs("pkg/objects.ValidateBlockBytes")
			if err != nil {
				return err
			}
			g := &guardCheck{p: p, pre: newSuccSummary(p, pre)}
			g.argPair = func(a, s ssa.CallInstruction) bool {
				// only comparable when the guard is the direct call
				if f := calleeFunc(a); f == nil || !pre[f] {
					return true
				}
				sa := s.Common().Args
				if f := calleeFunc(s); f == nil || !sinks[f] || len(sa) < 2 {
					return true
				}
				return sameObject(a.Common().Args[0], sa[1])
			}
			r.Analysed = len(reach)
			for _, fn := range sortedFuncs(reach) {
				for _, c := range callsTo(fn, sinks) {
					what := "received block stored only after ValidateBlockBytes succeeded on the decoded bytes"
					if ok, w := g.check(fn, c, wrapperDepth); ok {
						r.ok(callKey(fn, c), p.Rel(c.Pos()), what)
					} else {
						r.bad(callKey(fn, c), p.Rel(c.Pos()), what, w)
					}
				}
			}
			return nil
		},
	})

	register(&Rule{
		ID: "C07-b", Template: "T1 must-traverse (loop guard)",
		Doc: "Every objects.SaveCommit reachable from Receive is preceded by a read of the decoded commit's Parents, and after each objects.CommitExist(parent) the save is reachable only through the 'exists' edge: a commit is never accepted while a parent is missing.",
		Min: 1,
		Run: func(p *Program, r *RuleResult) error {
			reach, _, err := receiverFuncs(p)
			if err != nil {
				return err
			}
			sinks, err := p.MustFuncs("pkg/objects.SaveCommit")
			if err != nil {
				return err
			}
			exist, err := p.MustFuncs("pkg/objects.CommitExist")
			if err != nil {
				return err
			}
			parents, err := p.Field("pkg/objects.Commit.Parents")
			if err != nil {
				return err
			}
			r.Analysed = len(reach)
			for _, fn := range sortedFuncs(reach) {
				for _, c := range callsTo(fn, sinks) {
					what := "commit stored only after every parent was found with CommitExist"
					key := callKey(fn, c)
					var checks []*ssa.Call
					for _, e := range callsTo(fn, exist) {
						if call, ok := e.(*ssa.Call); ok && len(call.Call.Args) >= 2 && derivedFromField(call.Call.Args[1], parents) {
							checks = append(checks, call)
						}
					}
					if len(checks) == 0 {
						r.bad(key, p.Rel(c.Pos()), what, "no CommitExist call on an element of Commit.Parents in "+funcName(fn))
						continue
					}
					// the Parents field must be read on every path to the save
					var loads []ssa.Instruction
					for _, b := range fn.Blocks {
						for _, in := range b.Instrs {
							if fa, ok := in.(*ssa.FieldAddr); ok && structField(fa.X.Type(), fa.Field) == parents {
								loads = append(loads, fa)
							}
						}
					}
					blockers := map[ssa.Instruction]bool{}
					for _, l := range loads {
						blockers[l] = true
					}
					if path, reach := reachAfter(fn, nil, c, nil, blockers); reach {
						r.bad(key, p.Rel(c.Pos()), what, fmt.Sprintf("a path reaches the save without reading Commit.Parents (blocks %v)", path))
						continue
					}
					bad := false
					for _, e := range checks {
						vals := forward([]ssa.Value{e}, fwdOpts{noBinOp: true})
						cut := mkCut(boolEdges(fn, vals, true))
						if len(cut) == 0 {
							r.bad(key, p.Rel(c.Pos()), what, "result of CommitExist at "+p.Rel(e.Pos())+" is not tested")
							bad = true
							break
						}
						if path, reach := reachAfter(fn, e, c, cut, nil); reach {
							r.bad(key, p.Rel(c.Pos()), what, fmt.Sprintf("after CommitExist at %s returns false the save is still reachable (blocks %v)", p.Rel(e.Pos()), path))
							bad = true
							break
						}
					}
					if !bad {
						r.ok(key, p.Rel(c.Pos()), what)
					}
				}
			}
			return nil
		},
	})

	register(&Rule{
		ID: "C07-c", Template: "T1 must-traverse (comparison)",
		Doc: "In every function reachable from Receive that rebuilds block indices (objects.SaveBlockIndex), the returned sum is compared (bytes.Equal) with the table's recorded BlockIndices entry and, after a rebuilt index, objects.SaveTableIndex is reachable only through the 'equal' edge.",
		Min: 1,
		Run: func(p *Program, r *RuleResult) error {
			reach, _, err := receiverFuncs(p)
			if err != nil {
				return err
			}
			sbi, err := p.MustFuncs("pkg/objects.SaveBlockIndex")
			if err != nil {
				return err
			}
			sti, err := p.MustFuncs("pkg/objects.SaveTableIndex")
			if err != nil {
				return err
			}
			bi, err := p.Field("pkg/objects.Table.BlockIndices")
			if err != nil {
				return err
			}
			r.Analysed = len(reach)
			// helpers that hand the rebuilt sum on to their caller (round 7, refactoring N1-r8):
			// the comparison is then the caller's obligation
			handsOn := map[*ssa.Function]int{}
			for _, fn := range sortedFuncs(reach) {
				for _, a := range callsTo(fn, sbi) {
					call, ok := a.(*ssa.Call)
					if !ok {
						continue
					}
					var sv []ssa.Value
					for _, ref := range *call.Referrers() {
						if ex, ok := ref.(*ssa.Extract); ok && ex.Index == 0 {
							sv = append(sv, ex)
						}
					}
					fw := forward(sv, fwdOpts{noBinOp: true})
					for _, ret := range returnsOf(fn) {
						for k := range ret.Results {
							if fw[retVal(ret, k)] {
								handsOn[fn] = k
							}
						}
					}
				}
			}
			type sumSite struct {
				c   ssa.CallInstruction
				idx int
			}
			for _, fn := range sortedFuncs(reach) {
				var sites []sumSite
				if _, isHelper := handsOn[fn]; !isHelper {
					for _, a := range callsTo(fn, sbi) {
						sites = append(sites, sumSite{a, 0})
					}
				} else {
					r.note("%s hands the rebuilt sum on to its callers; judged there", funcName(fn))
				}
				eachCall(fn, func(c ssa.CallInstruction) {
					if h := c.Common().StaticCallee(); h != nil {
						if k, ok := handsOn[h]; ok && h != fn {
							sites = append(sites, sumSite{c, k})
						}
					}
				})
				for _, site := range sites {
					a := site.c
					call, ok := a.(*ssa.Call)
					if !ok {
						continue
					}
					what := "rebuilt block-index sum must equal the sum recorded in the received table before the table index is written"
					key := callKey(fn, a)
					// the sum result
					var sumVals []ssa.Value
					for _, ref := range *call.Referrers() {
						if ex, ok := ref.(*ssa.Extract); ok && ex.Index == site.idx {
							sumVals = append(sumVals, ex)
						}
					}
					fw := forward(sumVals, fwdOpts{noBinOp: true})
					var eqVals []ssa.Value
					eachCall(fn, func(c ssa.CallInstruction) {
						f := calleeFunc(c)
						if f == nil || f.Pkg() == nil || f.Pkg().Path() != "bytes" || f.Name() != "Equal" {
							return
						}
						args := c.Common().Args
						if len(args) != 2 {
							return
						}
						if (fw[args[0]] && derivedFromField(args[1], bi)) || (fw[args[1]] && derivedFromField(args[0], bi)) {
							if v, ok := c.(*ssa.Call); ok {
								eqVals = append(eqVals, v)
							}
						}
					})
					if len(eqVals) == 0 {
						r.bad(key, p.Rel(a.Pos()), what, "the sum returned by SaveBlockIndex is never compared with Table.BlockIndices")
						continue
					}
					cut := mkCut(boolEdges(fn, forward(eqVals, fwdOpts{noBinOp: true}), true))
					sinks := callsTo(fn, sti)
					if len(sinks) == 0 {
						// also returning normally (nil error) would accept the table: check success returns
						r.note("%s has no SaveTableIndex call; checking its nil-error returns instead", funcName(fn))
					}
					bad := false
					for _, s := range sinks {
						if path, reach := reachAfter(fn, call, s, cut, nil); reach {
							r.bad(key, p.Rel(a.Pos()), what, fmt.Sprintf("SaveTableIndex at %s reachable after SaveBlockIndex without passing the 'sums equal' edge (blocks %v)", p.Rel(s.Pos()), path))
							bad = true
							break
						}
					}
					if !bad {
						r.ok(key, p.Rel(a.Pos()), what)
					}
				}
			}
			return nil
		},
	})
}

// ---- C07-d: sender order ----

func init() {
	register(&Rule{
		ID: "C07-d", Template: "T2 never-follows (queue order)",
		Doc: "The sender queues objects in an order the receiver accepts: objects are appended (PushBack) to the FIFO queue; in the function that queues a table no block is queued after the table object; in the function that queues a commit nothing that queues a table (or a block) can follow the commit object.",
		Min: 2,
		Run: func(p *Program, r *RuleResult) error {
			typeField, err := p.Field("pkg/api/utils.object.Type")
			if err != nil {
				return err
			}
			objT, err := p.NamedType("pkg/api/utils.object")
			if err != nil {
				return err
			}
			pf, err := p.TypesPkg("pkg/encoding/packfile")
			if err != nil {
				return err
			}
			kindOf := map[int64]string{}
			for _, n := range []string{"ObjectCommit", "ObjectTable", "ObjectBlock"} {
				c, ok := pf.Scope().Lookup(n).(*types.Const)
				if !ok {
					return &AnchorError{"packfile." + n}
				}
				v, _ := constInt(ssa.NewConst(c.Val(), c.Type()))
				kindOf[v] = n
			}
			fns := p.FuncsInPkg("pkg/api/utils")
			r.Analysed = len(fns)
			type push struct {
				c    ssa.CallInstruction
				kind string
			}
			pushes := map[*ssa.Function][]push{}
			for _, fn := range fns {
				eachCall(fn, func(ci ssa.CallInstruction) {
					f := calleeFunc(ci)
					if f == nil || f.Pkg() == nil || f.Pkg().Path() != "container/list" {
						return
					}
					if f.Name() != "PushBack" && f.Name() != "PushFront" && f.Name() != "InsertBefore" && f.Name() != "InsertAfter" {
						return
					}
					args := ci.Common().Args
					v := stripConv(args[len(args)-1])
					if f.Name() == "InsertBefore" || f.Name() == "InsertAfter" {
						v = stripConv(args[1])
					}
					u, ok := v.(*ssa.UnOp)
					if !ok || !types.Identical(u.Type(), objT) {
						if !types.Identical(v.Type(), objT) {
							return
						}
					}
					kind := "?"
					if ok {
						if al, isAl := u.X.(*ssa.Alloc); isAl {
							for _, ref := range *al.Referrers() {
								if fa, isFA := ref.(*ssa.FieldAddr); isFA && structField(fa.X.Type(), fa.Field) == typeField {
									for _, r2 := range *fa.Referrers() {
										if st, isSt := r2.(*ssa.Store); isSt {
											if k, isC := constInt(st.Val); isC {
												kind = kindOf[k]
											}
										}
									}
								}
							}
						}
					}
					if f.Name() != "PushBack" {
						r.bad(callKey(fn, ci), p.Rel(ci.Pos()), "objects are appended to the send queue", "an object is queued with "+f.Name()+": the FIFO order blocks → table → commit is no longer what the receiver sees")
						return
					}
					pushes[fn] = append(pushes[fn], push{ci, kind})
				})
			}
			// functions that queue a table (directly)
			tableQueuers := map[*ssa.Function]bool{}
			for fn, ps := range pushes {
				for _, x := range ps {
					if x.kind == "ObjectTable" {
						tableQueuers[fn] = true
					}
				}
			}
			for _, fn := range fns {
				ps := pushes[fn]
				for _, x := range ps {
					switch x.kind {
					case "?":
						r.bad(callKey(fn, x.c), p.Rel(x.c.Pos()), "queued object has a constant type", "cannot determine the packfile object type of the queued value")
					case "ObjectTable":
						var blocks []ssa.CallInstruction
						for _, y := range ps {
							if y.kind == "ObjectBlock" {
								blocks = append(blocks, y.c)
							}
						}
						what := "no block is queued after its table"
						if ok, w := neverFollows(p, fn, []ssa.CallInstruction{x.c}, blocks); ok {
							r.ok(callKey(fn, x.c)+"|table", p.Rel(x.c.Pos()), what)
						} else {
							r.bad(callKey(fn, x.c)+"|table", p.Rel(x.c.Pos()), what, w)
						}
					case "ObjectCommit":
						var later []ssa.CallInstruction
						for _, y := range ps {
							if y.kind == "ObjectBlock" || y.kind == "ObjectTable" {
								later = append(later, y.c)
							}
						}
						eachCall(fn, func(ci ssa.CallInstruction) {
							if sc := ci.Common().StaticCallee(); sc != nil && tableQueuers[sc] {
								later = append(later, ci)
							}
						})
						what := "the commit object is queued after its table (and the table's blocks)"
						if ok, w := neverFollows(p, fn, []ssa.CallInstruction{x.c}, later); ok {
							r.ok(callKey(fn, x.c)+"|commit", p.Rel(x.c.Pos()), what)
						} else {
							r.bad(callKey(fn, x.c)+"|commit", p.Rel(x.c.Pos()), what, w)
						}
					}
				}
			}
			return nil
		},
	})
}
