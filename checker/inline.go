package main

// Effective call sites: a rule about "the call of X in function F" must keep
// working when the statements around X are moved into a helper of the same
// package. effSites lists, for F, its direct calls of the target set and its calls
// of same-package helpers that (transitively, to a bounded depth) contain one,
// with the parameter→argument substitution needed to compare the helper's
// argument expressions with F's values.

import (
	"go/types"

	"golang.org/x/tools/go/ssa"
)

type effSite struct {
	site  ssa.CallInstruction     // the call in F (of the target or of the helper)
	inner ssa.CallInstruction     // the call of the target itself
	via   []*ssa.Function         // helpers passed, outermost first (empty for a direct call)
	sub   map[ssa.Value]ssa.Value // helper parameter → value in the caller
	chain []ssa.CallInstruction   // the call at every level: chain[0] == site (in F), chain[i] in via[i-1], last == inner
}

const inlineDepth = 2

func effSites(p *Program, fn *ssa.Function, targets map[*types.Func]bool, depth int) []effSite {
	return effSitesPred(fn, func(c ssa.CallInstruction) bool {
		f := calleeFunc(c)
		return f != nil && targets[f]
	}, depth)
}

func effSitesPred(fn *ssa.Function, match func(ssa.CallInstruction) bool, depth int) []effSite {
	var out []effSite
	pkg := fnPkgPath(fn)
	eachCall(fn, func(c ssa.CallInstruction) {
		if match(c) {
			out = append(out, effSite{site: c, inner: c, chain: []ssa.CallInstruction{c}})
			return
		}
		if depth <= 0 {
			return
		}
		sc := c.Common().StaticCallee()
		if sc == nil || sc == fn || len(sc.Blocks) == 0 || fnPkgPath(sc) != pkg {
			return
		}
		args := c.Common().Args
		for _, in := range effSitesPred(sc, match, depth-1) {
			sub := map[ssa.Value]ssa.Value{}
			for k, v := range in.sub {
				sub[k] = v
			}
			for i, prm := range sc.Params {
				if i < len(args) {
					sub[prm] = args[i]
				}
			}
			out = append(out, effSite{site: c, inner: in.inner, via: append([]*ssa.Function{sc}, in.via...), sub: sub, chain: append([]ssa.CallInstruction{c}, in.chain...)})
		}
	})
	return out
}

// resolveSub follows the parameter→argument substitution.
func resolveSub(v ssa.Value, sub map[ssa.Value]ssa.Value) ssa.Value {
	v = stripConv(v)
	for i := 0; i < 4; i++ {
		s, ok := sub[v]
		if !ok {
			break
		}
		v = stripConv(s)
	}
	return v
}

// sameElemSub: sameElem where b is an expression of a helper and is read through sub.
func sameElemSub(a, b ssa.Value, sub map[ssa.Value]ssa.Value) bool {
	if len(sub) == 0 {
		return sameElem(a, b)
	}
	a, b = resolveSub(a, sub), resolveSub(b, sub)
	if sameElem(a, b) {
		return true
	}
	ca, ok1 := a.(*ssa.Call)
	cb, ok2 := b.(*ssa.Call)
	if ok1 && ok2 && calleeFunc(ca) != nil && calleeFunc(ca) == calleeFunc(cb) && len(ca.Call.Args) == len(cb.Call.Args) {
		for i := range ca.Call.Args {
			if !sameElemSub(ca.Call.Args[i], cb.Call.Args[i], sub) {
				return false
			}
		}
		return true
	}
	return false
}

// effKey: obligation key of an effective site.
func effKey(fn *ssa.Function, e effSite) string {
	k := callKey(fn, e.site)
	if len(e.via) > 0 {
		k += "→" + shortObj(calleeFunc(e.inner))
	}
	return k
}

// viaText: " (through helper a → b)" for messages.
func viaText(e effSite) string {
	if len(e.via) == 0 {
		return ""
	}
	s := " (through "
	for i, f := range e.via {
		if i > 0 {
			s += " → "
		}
		s += funcName(f)
	}
	return s + ")"
}
