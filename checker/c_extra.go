package main

// Rules added after the independent red-team round (DESIGN.md §10): each closes a
// miss with a structural necessary condition of the property, not with a match on
// the mutation's text.

import (
	"fmt"
	"go/token"
	"go/types"
	"sort"
	"strings"

	"golang.org/x/tools/go/ssa"
)

// fieldsStoredIn: fields of the receiver's struct that fn assigns (directly).
func fieldsStoredIn(fn *ssa.Function) map[*types.Var]bool {
	out := map[*types.Var]bool{}
	if len(fn.Params) == 0 && len(fn.FreeVars) == 0 {
		return out
	}
	isRecv := func(v ssa.Value) bool {
		v = stripConv(v)
		if fn.Parent() == nil {
			return len(fn.Params) > 0 && fn.Signature.Recv() != nil && v == ssa.Value(fn.Params[0])
		}
		// a closure of a method: the captured receiver
		top := fn
		for top.Parent() != nil {
			top = top.Parent()
		}
		if top.Signature.Recv() == nil {
			return false
		}
		rt := top.Signature.Recv().Type()
		if fv, ok := v.(*ssa.FreeVar); ok && types.Identical(fv.Type(), rt) {
			return true
		}
		// captured by reference: *s where s is the cell of the receiver
		if u, ok := v.(*ssa.UnOp); ok && u.Op == token.MUL {
			if fv, ok := u.X.(*ssa.FreeVar); ok {
				if pt, ok := fv.Type().(*types.Pointer); ok && types.Identical(pt.Elem(), rt) {
					return true
				}
			}
		}
		return false
	}
	// first-level field of the receiver that an address expression lies in
	var topField func(addr ssa.Value) *types.Var
	topField = func(addr ssa.Value) *types.Var {
		for i := 0; i < 6; i++ {
			switch x := addr.(type) {
			case *ssa.FieldAddr:
				if isRecv(x.X) {
					return structField(x.X.Type(), x.Field)
				}
				addr = x.X
			case *ssa.IndexAddr:
				addr = x.X
			default:
				return nil
			}
		}
		return nil
	}
	memo := map[*ssa.Function]map[int]map[*types.Var]bool{}
	for _, b := range fn.Blocks {
		for _, in := range b.Instrs {
			switch x := in.(type) {
			case *ssa.Store:
				if fa, ok := x.Addr.(*ssa.FieldAddr); ok {
					if fv := topField(fa); fv != nil {
						out[fv] = true
					}
				}
			case ssa.CallInstruction:
				// the address of a nested struct field handed to a function that writes through it
				sc := x.Common().StaticCallee()
				if sc == nil || !isRepoPkgPath(fnPkgPath(sc)) || len(sc.Blocks) == 0 {
					continue
				}
				fw := fieldWriters(sc, 2, memo)
				for ai, a := range x.Common().Args {
					if len(fw[ai]) == 0 {
						continue
					}
					if fa, ok := a.(*ssa.FieldAddr); ok {
						if fv := topField(fa); fv != nil {
							out[fv] = true
						}
					}
				}
			}
		}
	}
	return out
}

// slashTerminated: the string value provably ends with "/".
func slashTerminated(p *Program, v ssa.Value, depth int) bool {
	if depth > 4 {
		return false
	}
	v = stripConv(v)
	if s, ok := constString(v); ok {
		return strings.HasSuffix(s, "/")
	}
	switch x := v.(type) {
	case *ssa.BinOp:
		if x.Op == token.ADD {
			return slashTerminated(p, x.Y, depth+1)
		}
	case *ssa.Phi:
		for _, e := range x.Edges {
			if !slashTerminated(p, e, depth+1) {
				return false
			}
		}
		return len(x.Edges) > 0
	case *ssa.Call:
		f := calleeFunc(x)
		if f != nil && f.FullName() == "fmt.Sprintf" {
			if format, ok := constString(x.Call.Args[0]); ok {
				if strings.HasSuffix(format, "/") {
					return true
				}
				if strings.HasSuffix(format, "/%s") {
					els := variadicElems(x)
					if len(els) > 0 {
						if s, ok := constString(stripConv(els[len(els)-1])); ok && s == "" {
							return true
						}
						return slashTerminated(p, els[len(els)-1], depth+1)
					}
				}
			}
			return false
		}
		// repo helper returning a string: every return must be terminated, with parameters
		// replaced by this call's arguments
		if sc := x.Call.StaticCallee(); sc != nil && isRepoPkgPath(fnPkgPath(sc)) && len(sc.Blocks) > 0 {
			for _, ret := range returnsOf(sc) {
				if len(ret.Results) != 1 {
					return false
				}
				if !slashTerminatedIn(p, ret.Results[0], sc, x, depth+1, false) {
					return false
				}
			}
			return true
		}
	case *ssa.Parameter:
		// every production caller must pass a terminated value
		fn := x.Parent()
		idx := -1
		for i, par := range fn.Params {
			if par == x {
				idx = i
			}
		}
		n := p.CG.Nodes[fn]
		if n == nil || idx < 0 {
			return false
		}
		found := false
		for _, e := range n.In {
			if e.Site == nil || !p.IsProd(e.Caller.Func) {
				continue
			}
			args := e.Site.Common().Args
			ai := idx
			if e.Site.Common().IsInvoke() {
				ai--
			}
			if ai < 0 || ai >= len(args) {
				return false
			}
			found = true
			if !slashTerminated(p, args[ai], depth+1) {
				return false
			}
		}
		return found
	}
	return false
}

// slashTerminatedIn evaluates v inside callee sc for the specific call (parameters → arguments).
func slashTerminatedIn(p *Program, v ssa.Value, sc *ssa.Function, call *ssa.Call, depth int, emptyOK bool) bool {
	v = stripConv(v)
	if par, ok := v.(*ssa.Parameter); ok && par.Parent() == sc {
		for i, q := range sc.Params {
			if q == par && i < len(call.Call.Args) {
				if emptyOK {
					if s, ok := constString(stripConv(call.Call.Args[i])); ok && s == "" {
						return true
					}
				}
				return slashTerminated(p, call.Call.Args[i], depth+1)
			}
		}
		return false
	}
	if c, ok := v.(*ssa.Call); ok {
		f := calleeFunc(c)
		if f != nil && f.FullName() == "fmt.Sprintf" {
			if format, ok := constString(c.Call.Args[0]); ok {
				if strings.HasSuffix(format, "/") {
					return true
				}
				if strings.HasSuffix(format, "/%s") {
					els := variadicElems(c)
					if len(els) > 0 {
						return slashTerminatedIn(p, els[len(els)-1], sc, call, depth+1, true)
					}
				}
			}
			return false
		}
	}
	if s, ok := constString(v); ok {
		return strings.HasSuffix(s, "/") || (emptyOK && s == "")
	}
	if b, ok := v.(*ssa.BinOp); ok && b.Op == token.ADD {
		return slashTerminatedIn(p, b.Y, sc, call, depth+1, emptyOK)
	}
	return slashTerminated(p, v, depth+1)
}

func init() {
	// ---------------- C01 ----------------
	register(&Rule{
		ID: "C01-e", Template: "T1 must-traverse (order restored before use)",
		Doc: "Blocks saved by concurrent workers are re-ordered by their offset before the table's block list is built: in pkg/ingest every function that fills objects.Table.Blocks from Inserter.asyncBlocks passes, on every path, a sort call (sort.Slice / SliceStable / Sort) on asyncBlocks first.",
		Min: 1,
		Run: func(p *Program, r *RuleResult) error {
			ab, err := p.Field("pkg/ingest.Inserter.asyncBlocks")
			if err != nil {
				return err
			}
			tb, err := p.Field("pkg/objects.Table.Blocks")
			if err != nil {
				return err
			}
			fns := p.FuncsInPkg("pkg/ingest")
			r.Analysed = len(fns)
			for _, fn := range fns {
				var sorts []ssa.Instruction
				eachCall(fn, func(c ssa.CallInstruction) {
					f := calleeFunc(c)
					if f == nil || f.Pkg() == nil || f.Pkg().Path() != "sort" {
						return
					}
					switch f.Name() {
					case "Slice", "SliceStable", "Sort", "Stable":
						if derivedFromField(c.Common().Args[0], ab) {
							sorts = append(sorts, c)
						}
					}
				})
				// a helper of the package that sorts asyncBlocks on all of its paths counts as the sort
				eachCall(fn, func(c ssa.CallInstruction) {
					sc := c.Common().StaticCallee()
					if sc == nil || fnPkgPath(sc) != fnPkgPath(fn) || sc == fn || len(sc.Blocks) == 0 {
						return
					}
					var inner []ssa.Instruction
					eachCall(sc, func(c2 ssa.CallInstruction) {
						if f := calleeFunc(c2); f != nil && f.Pkg() != nil && f.Pkg().Path() == "sort" && len(c2.Common().Args) > 0 && derivedFromField(c2.Common().Args[0], ab) {
							inner = append(inner, c2)
						}
					})
					if len(inner) == 0 {
						return
					}
					blk := map[ssa.Instruction]bool{}
					for _, x := range inner {
						blk[x] = true
					}
					for _, ret := range returnsOf(sc) {
						if _, reach := reachAfter(sc, nil, ret, nil, blk); reach {
							return
						}
					}
					sorts = append(sorts, c)
				})
				n := 0
				for _, b := range fn.Blocks {
					for _, in := range b.Instrs {
						st, ok := in.(*ssa.Store)
						if !ok {
							continue
						}
						ia, ok := st.Addr.(*ssa.IndexAddr)
						if !ok || !derivedFromField(st.Val, ab) {
							continue
						}
						if !derivedFromField(ia.X, tb) {
							// a local list that becomes Table.Blocks afterwards
							becomes := false
							for _, b2 := range fn.Blocks {
								for _, in2 := range b2.Instrs {
									if st2, ok := in2.(*ssa.Store); ok {
										if fa, ok := st2.Addr.(*ssa.FieldAddr); ok && structField(fa.X.Type(), fa.Field) == tb && stripConv(st2.Val) == stripConv(ia.X) {
											becomes = true
										}
									}
								}
							}
							if !becomes {
								continue
							}
						}
						key := fmt.Sprintf("%s|Table.Blocks[i]=asyncBlocks#%d", funcName(fn), n)
						n++
						what := "block list built from the worker results only after they were sorted by offset"
						blk := map[ssa.Instruction]bool{}
						for _, s := range sorts {
							blk[s] = true
						}
						if len(sorts) == 0 {
							r.bad(key, p.Rel(st.Pos()), what, "no sort of asyncBlocks in "+funcName(fn))
						} else if path, reach := reachAfter(fn, nil, st, nil, blk); reach {
							r.bad(key, p.Rel(st.Pos()), what, fmtPath("the block list is filled on a path that skips the sort: with several workers blocks are in completion order", path))
						} else {
							r.ok(key, p.Rel(st.Pos()), what)
						}
					}
				}
				// a worker result read BY POSITION (asyncBlocks[k], not inside a loop over all of
				// them) means "the k-th block of the table" only after the sort
				if fn.Parent() != nil {
					continue // comparator closures of the sort itself
				}
				m := 0
				for _, b := range fn.Blocks {
					for _, in := range b.Instrs {
						ia, ok := in.(*ssa.IndexAddr)
						if !ok || !derivedFromField(ia.X, ab) {
							continue
						}
						if _, isPhi := stripConv(ia.Index).(*ssa.Phi); isPhi {
							continue // iteration over all elements
						}
						if isNonNegIndex(ia.Index) {
							if _, isC := constInt(ia.Index); !isC {
								continue
							}
						}
						key := fmt.Sprintf("%s|asyncBlocks[k]#%d", funcName(fn), m)
						m++
						what := "a worker result is addressed by position only after the results were sorted by offset"
						blk := map[ssa.Instruction]bool{}
						for _, s := range sorts {
							blk[s] = true
						}
						if len(sorts) == 0 {
							r.bad(key, p.Rel(ia.Pos()), what, "asyncBlocks is indexed by position in "+funcName(fn)+", which never sorts it: with several workers the last element is the last block to ARRIVE, not the last block of the table")
						} else if path, reach := reachAfter(fn, nil, ia, nil, blk); reach {
							r.bad(key, p.Rel(ia.Pos()), what, fmtPath("asyncBlocks is indexed by position before the sort: with several workers that is the block that happened to finish at that position", path))
						} else {
							r.ok(key, p.Rel(ia.Pos()), what)
						}
					}
				}
			}
			return nil
		},
	})
	register(&Rule{
		ID: "C01-f", Template: "who-may-write (loss-free reader configuration)",
		Doc: "The CSV reader that feeds the sorter is configured loss-free: in pkg/sorter, pkg/ingest and cmd/wrgl the only encoding/csv.Reader options ever set are Comma and ReuseRecord — TrimLeadingSpace, LazyQuotes, Comment or FieldsPerRecord would alter or drop cells.",
		Min: 2,
		Run: func(p *Program, r *RuleResult) error {
			if _, err := p.Func("pkg/sorter.(*Sorter).SortFile"); err != nil {
				return err
			}
			allowed := map[string]bool{"Comma": true, "ReuseRecord": true}
			fns := p.FuncsInPkg("pkg/sorter", "pkg/ingest", "cmd/wrgl", "cmd/wrgl/utils")
			r.Analysed = len(fns)
			for _, fn := range fns {
				n := 0
				for _, b := range fn.Blocks {
					for _, in := range b.Instrs {
						st, ok := in.(*ssa.Store)
						if !ok {
							continue
						}
						fa, ok := st.Addr.(*ssa.FieldAddr)
						if !ok {
							continue
						}
						nt, ok := derefType(fa.X.Type()).(*types.Named)
						if !ok || nt.Obj().Pkg() == nil || nt.Obj().Pkg().Path() != "encoding/csv" || nt.Obj().Name() != "Reader" {
							continue
						}
						fv := structField(fa.X.Type(), fa.Field)
						key := fmt.Sprintf("%s|csv.Reader.%s#%d", funcName(fn), fv.Name(), n)
						n++
						what := "only loss-free csv.Reader options are set on the ingest path"
						if allowed[fv.Name()] {
							r.ok(key, p.Rel(st.Pos()), what)
						} else {
							r.bad(key, p.Rel(st.Pos()), what, "csv.Reader."+fv.Name()+" changes which cells/rows are read from the input")
						}
					}
				}
			}
			return nil
		},
	})

	// ---------------- C05 ----------------
	register(&Rule{
		ID: "C05-b", Template: "protocol agreement (every layer reports every row)",
		Doc: "mergeTables treats a key that a layer never reported as removed by that layer, so every per-branch diff channel handed to it must come from diff.DiffTables called with diff.WithEmitUnchangedRow(): in (*Merger).Start every element stored into the diff-channel slice is the result of such a call.",
		Min: 1,
		Run: func(p *Program, r *RuleResult) error {
			fn, err := p.SSAFunc("pkg/merge.(*Merger).Start")
			if err != nil {
				return err
			}
			dt, err := p.MustFuncs("pkg/diff.DiffTables")
			if err != nil {
				return err
			}
			emit, err := p.MustFuncs("pkg/diff.WithEmitUnchangedRow")
			if err != nil {
				return err
			}
			// Start and the helpers of the package it delegates to
			start := fn
			scope := samePkgReach(start, inlineDepth)
			r.Analysed = len(scope)
			n := 0
			for _, fn := range scope {
				for _, b := range fn.Blocks {
					for _, in := range b.Instrs {
						st, ok := in.(*ssa.Store)
						if !ok {
							continue
						}
						ia, ok := st.Addr.(*ssa.IndexAddr)
						if !ok {
							continue
						}
						var elem types.Type
						switch t := ia.X.Type().Underlying().(type) {
						case *types.Slice:
							elem = t.Elem()
						case *types.Pointer:
							if at, ok := t.Elem().Underlying().(*types.Array); ok {
								elem = at.Elem() // append(diffs, ch) is lowered to a one-element array
							}
						}
						if elem == nil {
							continue
						}
						ch, ok := elem.Underlying().(*types.Chan)
						if !ok || !strings.HasSuffix(ch.Elem().String(), "objects.Diff") {
							continue
						}
						key := fmt.Sprintf("%s|diffs[i]=…#%d", funcName(start), n)
						n++
						what := "per-branch diff channel comes from DiffTables(…, WithEmitUnchangedRow())"
						var call *ssa.Call
						for x := range backward(st.Val, func(v ssa.Value) bool {
							switch v.(type) {
							case *ssa.Extract, *ssa.Phi, *ssa.ChangeType, *ssa.MakeInterface:
								return true
							}
							return false
						}) {
							if c, ok := x.(*ssa.Call); ok {
								if f := calleeFunc(c); f != nil && dt[f] {
									call = c
								} else if call == nil {
									call = nil
								}
							}
							if _, isMk := x.(*ssa.MakeChan); isMk {
								call = nil
								r.bad(key, p.Rel(st.Pos()), what, "a locally made channel is handed to mergeTables as a branch's diff: rows it does not report are treated as removed by that branch")
								goto next
							}
						}
						if call == nil {
							r.bad(key, p.Rel(st.Pos()), what, "the stored channel is not the result of diff.DiffTables")
							goto next
						}
						{
							hasEmit := false
							for _, el := range variadicElems(call) {
								if c, ok := stripConv(el).(*ssa.Call); ok {
									if f := calleeFunc(c); f != nil && emit[f] {
										hasEmit = true
									}
								}
							}
							if hasEmit {
								r.ok(key, p.Rel(st.Pos()), what)
							} else {
								r.bad(key, p.Rel(st.Pos()), what, "DiffTables is called without WithEmitUnchangedRow: unchanged rows are not reported and mergeTables counts them as removed")
							}
						}
					next:
					}
				}
			}
			return nil
		},
	})
	register(&Rule{
		ID: "C05-c", Template: "T1 must-traverse (error channel consulted)",
		Doc: "A merge never reports success after a differ/resolver/collector error: in every function of cmd/wrgl that starts a merger ((*merge.Merger).Start) each successful return lies behind the success edge of a (*Merger).Error() call.",
		Min: 2,
		Run: func(p *Program, r *RuleResult) error {
			start, err := p.MustFuncs("pkg/merge.(*Merger).Start")
			if err != nil {
				return err
			}
			merr, err := p.MustFuncs("pkg/merge.(*Merger).Error")
			if err != nil {
				return err
			}
			g := &guardCheck{p: p, pre: newSuccSummary(p, merr)}
			fns := p.FuncsInPkg("cmd/wrgl")
			r.Analysed = len(fns)
			for _, fn := range fns {
				if len(callsTo(fn, start)) == 0 {
					continue
				}
				ei := errorResultIndex(fn.Signature)
				n := 0
				for _, ret := range returnsOf(fn) {
					v := retVal(ret, ei)
					if v == nil || !isNilConst(v) {
						continue
					}
					key := fmt.Sprintf("%s|return(success)#%d", funcName(fn), n)
					n++
					what := "success is returned only after Merger.Error() was consulted and found nil"
					if ok, w := g.check(fn, ret, 0); ok {
						r.ok(key, p.Rel(ret.Pos()), what)
					} else {
						r.bad(key, p.Rel(ret.Pos()), what, w)
					}
				}
			}
			return nil
		},
	})

	// ---------------- C07 ----------------
	register(&Rule{
		ID: "C07-f", Template: "T1 must-traverse (resume step)",
		Doc: "The sender resumes across packfiles: in (*ObjectSender).WriteObjects, after an object has been written every way out of the function other than an error return passes the `queue empty → enqueue next commit` step; leaving earlier strands the remaining commits (every later packfile is empty and the sender never reports done).",
		Min: 1,
		Run: func(p *Program, r *RuleResult) error {
			fn, err := p.SSAFunc("pkg/api/utils.(*ObjectSender).WriteObjects")
			if err != nil {
				return err
			}
			wo, err := p.MustFuncs("pkg/encoding/packfile.(*PackfileWriter).WriteObject")
			if err != nil {
				return err
			}
			enq, err := p.MustFuncs("pkg/api/utils.(*ObjectSender).enqueueNextCommit")
			if err != nil {
				return err
			}
			r.Analysed = 1
			// the resume step: the If whose one edge leads to the enqueue call
			enqs := callsTo(fn, enq)
			blockers := map[ssa.Instruction]bool{}
			for _, b := range fn.Blocks {
				if len(b.Instrs) == 0 {
					continue
				}
				ifi, ok := b.Instrs[len(b.Instrs)-1].(*ssa.If)
				if !ok {
					continue
				}
				for _, s := range b.Succs {
					for _, e := range enqs {
						if e.Block() == s {
							blockers[ifi] = true
						}
					}
				}
			}
			ei := errorResultIndex(fn.Signature)
			for _, w := range callsTo(fn, wo) {
				key := callKey(fn, w)
				what := "after writing an object the sender reaches the enqueue-next-commit step before it returns"
				if len(blockers) == 0 {
					r.bad(key, p.Rel(w.Pos()), what, "no `queue empty → enqueueNextCommit` step in WriteObjects")
					continue
				}
				bad := false
				for _, ret := range returnsOf(fn) {
					v := retVal(ret, ei)
					if v != nil && (definitelyNonNilError(v) || nonNilByGuard(fn, ret, v)) {
						continue
					}
					// error returns of calls between are `return` with named err: skip returns reached only through a failure edge
					call, _ := w.(*ssa.Call)
					cut := cutSet{}
					if call != nil {
						cut = mkCut(successEdgesFail(fn, call))
					}
					// also cut failure edges of every other call with an error result after the write
					eachCall(fn, func(c ssa.CallInstruction) {
						if cc, ok := c.(*ssa.Call); ok && errorResultIndex(cc.Call.Signature()) >= 0 {
							for _, e := range successEdgesFail(fn, cc) {
								cut[e] = true
							}
						}
					})
					if path, reach := reachAfter(fn, w, ret, cut, blockers); reach {
						r.bad(key, p.Rel(w.Pos()), what, fmtPath("the function can return after a write without passing the enqueue step", path))
						bad = true
						break
					}
				}
				if !bad {
					r.ok(key, p.Rel(w.Pos()), what)
				}
			}
			return nil
		},
	})

	// ---------------- C09 ----------------
	register(&Rule{
		ID: "C09-e", Template: "T4 permit-cut (table acknowledgement)",
		Doc: "A table is acknowledged as already present only when its table object exists: in pkg/api/client every append that feeds UploadPackRequest.TableACKs lies behind the true edge of objects.TableExist (the table object is written last and is what marks a table as complete — acknowledging on the index alone skips a table that was never stored).",
		Min: 1,
		Run: func(p *Program, r *RuleResult) error {
			te, err := p.MustFuncs("pkg/objects.TableExist")
			if err != nil {
				return err
			}
			acksField, err := p.Field("pkg/api/payload.UploadPackRequest.TableACKs")
			if err != nil {
				return err
			}
			fns := p.FuncsInPkg("pkg/api/client")
			r.Analysed = len(fns)
			for _, fn := range fns {
				// values stored into TableACKs
				var stored []ssa.Value
				for _, b := range fn.Blocks {
					for _, in := range b.Instrs {
						if st, ok := in.(*ssa.Store); ok {
							if fa, ok := st.Addr.(*ssa.FieldAddr); ok && structField(fa.X.Type(), fa.Field) == acksField {
								stored = append(stored, st.Val)
							}
						}
					}
				}
				if len(stored) == 0 {
					continue
				}
				var teVals []ssa.Value
				for _, c := range callsTo(fn, te) {
					if v, ok := c.(*ssa.Call); ok {
						teVals = append(teVals, v)
					}
				}
				cut := mkCut(boolEdges(fn, forward(teVals, fwdOpts{noBinOp: true}), true))
				n := 0
				for _, sv := range stored {
					cand := backward(sv, nil)
					for x := range backward(sv, nil) {
						if c2, ok := x.(*ssa.Call); ok {
							for _, a := range c2.Call.Args {
								for y := range backward(a, nil) {
									cand[y] = true
								}
							}
						}
					}
					for x := range cand {
						call, ok := x.(*ssa.Call)
						if !ok {
							continue
						}
						if bi, ok := call.Call.Value.(*ssa.Builtin); !ok || bi.Name() != "append" {
							continue
						}
						key := fmt.Sprintf("%s|TableACKs append#%d", funcName(fn), n)
						n++
						what := "table acknowledged only when objects.TableExist is true"
						if path, reach := reachAfter(fn, nil, call, cut, nil); reach {
							r.bad(key, p.Rel(call.Pos()), what, fmtPath("a table sum is acknowledged without the TableExist()==true edge", path))
						} else {
							r.ok(key, p.Rel(call.Pos()), what)
						}
					}
				}
			}
			return nil
		},
	})
	register(&Rule{
		ID: "C09-f", Template: "typestate (expected set taken before it is consumed)",
		Doc: "The receive loop runs until all wanted commits arrived: every apiutils.NewObjectReceiver call in pkg/api/client gets, as its expected commits, the session's wants field in a function that fills that field itself (the constructor) — not in a state function that runs after negotiation has cleared it.",
		Min: 1,
		Run: func(p *Program, r *RuleResult) error {
			nor, err := p.MustFuncs("pkg/api/utils.NewObjectReceiver")
			if err != nil {
				return err
			}
			wants, err := p.Field("pkg/api/client.UploadPackSession.wants")
			if err != nil {
				return err
			}
			fns := p.FuncsInPkg("pkg/api/client")
			r.Analysed = len(fns)
			for _, fn := range fns {
				for _, c := range callsTo(fn, nor) {
					args := c.Common().Args
					if len(args) < 2 {
						continue
					}
					key := callKey(fn, c)
					what := "receiver is told which commits to expect from the freshly computed wants"
					if !derivedFromField(args[1], wants) {
						r.okWhy(key, p.Rel(c.Pos()), what, "expected commits do not come from the session's wants field")
						continue
					}
					fills := false
					for _, b := range fn.Blocks {
						for _, in := range b.Instrs {
							if st, ok := in.(*ssa.Store); ok {
								if fa, ok := st.Addr.(*ssa.FieldAddr); ok && structField(fa.X.Type(), fa.Field) == wants {
									if call, ok := st.Val.(*ssa.Call); ok {
										if bi, ok := call.Call.Value.(*ssa.Builtin); ok && bi.Name() == "append" {
											if _, before := reachAfter(fn, st, c, nil, nil); before {
												fills = true
											}
										}
									}
								}
							}
						}
					}
					if fills {
						r.ok(key, p.Rel(c.Pos()), what)
					} else {
						r.bad(key, p.Rel(c.Pos()), what, funcName(fn)+" reads the wants field without having filled it: negotiation clears the field, so the receiver would expect nothing and report completion after the first packfile")
					}
				}
			}
			return nil
		},
	})

	// ---------------- C15 ----------------
	register(&Rule{
		ID: "C15-d", Template: "string-shape (namespace prefixes end with '/')",
		Doc: "Operations on one remote or transaction never affect another: every non-nil prefix that pkg/ref passes to ref.Store.Filter / FilterKey provably ends with '/' (a constant ending in '/', or RemoteRef/TransactionRef-style fmt.Sprintf(\"…/%s\", …, \"\")), so 'remotes/origin' can never select 'remotes/origin2/…'.",
		Min: 4,
		Run: func(p *Program, r *RuleResult) error {
			store, err := p.NamedType("pkg/ref.Store")
			if err != nil {
				return err
			}
			iface := store.Underlying().(*types.Interface)
			filt := map[*types.Func]bool{}
			for i := 0; i < iface.NumMethods(); i++ {
				if n := iface.Method(i).Name(); n == "Filter" || n == "FilterKey" {
					filt[iface.Method(i)] = true
				}
			}
			fns := p.FuncsInPkg("pkg/ref")
			r.Analysed = len(fns)
			for _, fn := range fns {
				eachCall(fn, func(c ssa.CallInstruction) {
					cc := c.Common()
					if !cc.IsInvoke() || !filt[cc.Method] {
						return
					}
					for ai, arg := range cc.Args {
						if isNilConst(arg) {
							continue
						}
						// elements of the prefix slice literal
						var elems []ssa.Value
						if sl, ok := arg.(*ssa.Slice); ok {
							if al, ok := sl.X.(*ssa.Alloc); ok {
								for _, ref := range *al.Referrers() {
									if ia, ok := ref.(*ssa.IndexAddr); ok {
										for _, r2 := range *ia.Referrers() {
											if st, ok := r2.(*ssa.Store); ok {
												elems = append(elems, st.Val)
											}
										}
									}
								}
							}
						}
						key := fmt.Sprintf("%s|arg%d", callKey(fn, c), ai)
						what := "namespace prefix handed to the ref store ends with '/'"
						if len(elems) == 0 {
							// a slice passed through (e.g. ListLocalRefs' caller-supplied prefixes): appended constants are checked
							if call, ok := arg.(*ssa.Call); ok {
								if bi, ok := call.Call.Value.(*ssa.Builtin); ok && bi.Name() == "append" {
									for _, el := range variadicElems(call) {
										elems = append(elems, el)
									}
								}
							}
							if len(elems) == 0 {
								r.okWhy(key, p.Rel(c.Pos()), what, "prefix list supplied by the caller (not built here)")
								continue
							}
						}
						bad := false
						for _, el := range elems {
							if !slashTerminated(p, el, 0) {
								bad = true
							}
						}
						if bad {
							r.bad(key, p.Rel(c.Pos()), what, "a prefix is not provably '/'-terminated: a remote or transaction whose name is a prefix of another would select the other's refs too")
						} else {
							r.ok(key, p.Rel(c.Pos()), what)
						}
					}
				})
			}
			return nil
		},
	})

	// ---------------- C19 ----------------
	register(&Rule{
		ID: "C19-e", Template: "agreement (Reset re-arms what the life cycle sets)",
		Doc: "A sorter can be reused after Reset: every field of sorter.Sorter that any of its methods (or the goroutines they start) assigns — AddRow, Close, SetColumns, lazily filled caches — is also assigned by Reset. A state flag set by Close and never cleared by Reset would turn later Close calls into no-ops and leak the spill files of every later sort.",
		Min: 3,
		Run: func(p *Program, r *RuleResult) error {
			reset, err := p.SSAFunc("pkg/sorter.(*Sorter).Reset")
			if err != nil {
				return err
			}
			resetFields := fieldsStoredIn(reset)
			for _, name := range []string{"AddRow", "Close"} {
				if _, err := p.SSAFunc("pkg/sorter.(*Sorter)." + name); err != nil {
					return err
				}
			}
			// input-specific configuration that every user assigns itself after Reset
			// (C19-g checks that it is assigned before the first row is added)
			exempt := map[string]string{
				"PK":       "key positions of the next input: assigned by the caller (or SortFile) after Reset, before any row is added (C19-g)",
				"profiler": "re-created by SetColumns together with Columns, which Reset empties: an input cannot be added without calling SetColumns again",
			}
			var methods []*ssa.Function
			for _, fn := range p.FuncsInPkg("pkg/sorter") {
				if fn.Parent() != nil || fn == reset || fn.Signature.Recv() == nil {
					continue
				}
				if n, ok := derefType(fn.Signature.Recv().Type()).(*types.Named); !ok || n.Obj().Name() != "Sorter" {
					continue
				}
				methods = append(methods, fn)
			}
			r.Analysed = len(methods)
			for _, fn := range methods {
				name := fn.Name()
				// closures of the method (the producer goroutines) count as the method
				fs := fieldsStoredIn(fn)
				var addAnon func(f *ssa.Function)
				addAnon = func(f *ssa.Function) {
					for _, af := range f.AnonFuncs {
						for fv := range fieldsStoredIn(af) {
							fs[fv] = true
						}
						addAnon(af)
					}
				}
				addAnon(fn)
				var sorterFields []*types.Var
				for fv := range fs {
					if fv.Pkg() != nil && fv.Pkg().Path() == modPath+"/pkg/sorter" {
						sorterFields = append(sorterFields, fv)
					}
				}
				sort.Slice(sorterFields, func(i, j int) bool { return sorterFields[i].Name() < sorterFields[j].Name() })
				if len(sorterFields) == 0 && (name == "AddRow" || name == "Close") {
					r.okWhy(funcName(fn)+"|fields", p.Rel(fn.Pos()), "fields set by "+name+" are re-armed by Reset", name+" assigns no field")
				}
				for _, fv := range sorterFields {
					if !isFieldOfSorter(fv, fn) {
						continue
					}
					key := fmt.Sprintf("%s|field %s", funcName(fn), fv.Name())
					what := "field set by " + name + " is re-armed by Reset"
					if resetFields[fv] {
						r.ok(key, p.Rel(fn.Pos()), what)
					} else if why, ok := exempt[fv.Name()]; ok {
						r.exempt(key, p.Rel(fn.Pos()), what, why)
					} else {
						r.bad(key, p.Rel(fn.Pos()), what, "Sorter."+fv.Name()+" is assigned by "+name+" but never by Reset: a reused sorter keeps the stale value")
					}
				}
			}
			return nil
		},
	})
}

// isFieldOfSorter: fv is a field of the receiver's struct type.
func isFieldOfSorter(fv *types.Var, fn *ssa.Function) bool {
	st, ok := derefType(fn.Signature.Recv().Type()).Underlying().(*types.Struct)
	if !ok {
		return false
	}
	for i := 0; i < st.NumFields(); i++ {
		if st.Field(i) == fv {
			return true
		}
	}
	return false
}

func isCloseCall(in ssa.Instruction) (ssa.Value, bool) {
	c, ok := in.(*ssa.Call)
	if !ok {
		return nil, false
	}
	if b, ok := c.Call.Value.(*ssa.Builtin); ok && b.Name() == "close" && len(c.Call.Args) == 1 {
		return c.Call.Args[0], true
	}
	return nil, false
}

// chanField: the struct field a channel value is loaded from, if any.
func chanField(v ssa.Value) *types.Var {
	v = stripConv(v)
	if u, ok := v.(*ssa.UnOp); ok && u.Op == token.MUL {
		if fa, ok := u.X.(*ssa.FieldAddr); ok {
			return structField(fa.X.Type(), fa.Field)
		}
		if cell := cellOf(u.X); cell != nil {
			// captured local channel: identify by the cell's defining position
			return nil
		}
	}
	return nil
}

func init() {
	register(&Rule{
		ID: "C16-e", Template: "T2 never-follows (close before error send)",
		Doc: "No send on a closed channel: in the pipeline packages no function sends on an error channel after it has closed another channel in the same activation. Consumers take the close of the data channel as the cue to close and read the error channel, so `close(data); errChan <- err` can panic with 'send on closed channel'. (A deferred close runs after the body and is fine.)",
		Min: 4,
		Run: func(p *Program, r *RuleResult) error {
			fns := p.FuncsInPkg("pkg/ingest", "pkg/sorter", "pkg/diff", "pkg/merge", "pkg/progress")
			r.Analysed = len(fns)
			for _, fn := range fns {
				var closes []ssa.Instruction
				var sends []ssa.Instruction
				for _, b := range fn.Blocks {
					for _, in := range b.Instrs {
						if ch, ok := isCloseCall(in); ok && !isErrChan(ch.Type()) {
							closes = append(closes, in)
						}
						if s, ok := in.(*ssa.Send); ok && isErrChan(s.Chan.Type()) {
							sends = append(sends, in)
						}
					}
				}
				for k, s := range sends {
					key := fmt.Sprintf("%s|errsend#%d", funcName(fn), k)
					what := "error is sent before the data channel is closed"
					bad := false
					for _, c := range closes {
						if path, reach := reachAfter(fn, c, s, nil, nil); reach {
							r.bad(key, p.Rel(s.Pos()), what, fmtPath("an error send is reachable after close() of the data channel at "+p.Rel(c.Pos()), path))
							bad = true
							break
						}
					}
					if !bad {
						r.ok(key, p.Rel(s.Pos()), what)
					}
				}
			}
			return nil
		},
	})
	register(&Rule{
		ID: "C16-f", Template: "ownership (a data channel is closed by its sender)",
		Doc: "A data channel kept in a struct field is closed only by a function that also sends on it (the producer goroutine), never by the consumer side: closing from another goroutine while the producer is parked in a send panics with 'send on closed channel'. Error channels, which consumers close after the data channel was drained, are out of scope.",
		Min: 2,
		Run: func(p *Program, r *RuleResult) error {
			fns := p.FuncsInPkg("pkg/ingest", "pkg/sorter", "pkg/diff", "pkg/merge", "pkg/progress")
			r.Analysed = len(fns)
			sendersOf := map[*types.Var]map[*ssa.Function]bool{}
			type cl struct {
				fn *ssa.Function
				in ssa.Instruction
				f  *types.Var
			}
			var closes []cl
			for _, fn := range fns {
				for _, b := range fn.Blocks {
					for _, in := range b.Instrs {
						if s, ok := in.(*ssa.Send); ok && !isErrChan(s.Chan.Type()) {
							if f := chanField(s.Chan); f != nil {
								if sendersOf[f] == nil {
									sendersOf[f] = map[*ssa.Function]bool{}
								}
								sendersOf[f][fn] = true
							}
						}
						var chv ssa.Value
						if v, ok := isCloseCall(in); ok {
							chv = v
						}
						if d, ok := in.(*ssa.Defer); ok {
							if bi, ok := d.Call.Value.(*ssa.Builtin); ok && bi.Name() == "close" && len(d.Call.Args) == 1 {
								chv = d.Call.Args[0]
							}
						}
						if chv != nil && !isErrChan(chv.Type()) {
							if f := chanField(chv); f != nil {
								closes = append(closes, cl{fn, in, f})
							}
						}
					}
				}
			}
			for f, ss := range sendersOf {
				n := 0
				for _, c := range closes {
					if c.f != f {
						continue
					}
					key := fmt.Sprintf("%s|close(%s)#%d", funcName(c.fn), f.Name(), n)
					n++
					what := "data channel field " + f.Name() + " is closed by the function that sends on it"
					if ss[c.fn] {
						r.ok(key, p.Rel(c.in.Pos()), what)
					} else {
						r.bad(key, p.Rel(c.in.Pos()), what, funcName(c.fn)+" closes a channel that another goroutine sends on: a producer parked in the send panics")
					}
				}
				if n == 0 {
					r.okWhy(fmt.Sprintf("field %s|never-closed", f.Name()), "-", "data channel field "+f.Name()+" is closed by the function that sends on it", "no close() of this field found")
				}
			}
			return nil
		},
	})

	register(&Rule{
		ID: "C09-g", Template: "T1 must-traverse (completion)",
		Doc: "A fetch that succeeded always writes its refs: in every function that fetches objects and saves fetched refs, each successful return after the object fetch passes the ref-saving call — an early 'nothing new' return would leave refs unwritten after an interrupted earlier fetch, and the rerun could never repair them.",
		Min: 1,
		Run: func(p *Program, r *RuleResult) error {
			nups, err := p.MustFuncs("pkg/api/client.NewUploadPackSession")
			if err != nil {
				return err
			}
			sfr, err := p.MustFuncs("pkg/ref.SaveFetchRef")
			if err != nil {
				return err
			}
			fetchPkg := p.FuncsInPkg("cmd/wrgl/fetch")
			fetchers, savers := map[*types.Func]bool{}, map[*types.Func]bool{}
			for _, fn := range fetchPkg {
				if fn.Parent() != nil {
					continue
				}
				obj, ok := fn.Object().(*types.Func)
				if !ok {
					continue
				}
				if len(callsTo(fn, nups)) > 0 {
					fetchers[obj] = true
				}
				if len(callsTo(fn, sfr)) > 0 {
					savers[obj] = true
				}
			}
			// an unexported helper that delegates to one is one too (saveFetchedRefs → updateLocalRefs …)
			for round := 0; round < 2; round++ {
				for _, fn := range fetchPkg {
					obj, ok := fn.Object().(*types.Func)
					if fn.Parent() != nil || !ok || obj.Exported() {
						continue
					}
					if len(callsTo(fn, savers)) > 0 {
						savers[obj] = true
					}
					if len(callsTo(fn, fetchers)) > 0 {
						fetchers[obj] = true
					}
				}
			}
			if len(fetchers) == 0 || len(savers) == 0 {
				return &AnchorError{"object-fetching / ref-saving functions of cmd/wrgl/fetch"}
			}
			var fns []*ssa.Function
			fns = append(fns, fetchPkg...)
			fns = append(fns, p.FuncsInPkg("cmd/wrgl")...)
			r.Analysed = len(fns)
			for _, fn := range fns {
				fcalls := callsTo(fn, fetchers)
				scalls := callsTo(fn, savers)
				if len(fcalls) == 0 || len(scalls) == 0 {
					continue
				}
				blk := map[ssa.Instruction]bool{}
				for _, s := range scalls {
					blk[s] = true
				}
				ei := errorResultIndex(fn.Signature)
				for _, fc := range fcalls {
					call, ok := fc.(*ssa.Call)
					if !ok {
						continue
					}
					key := callKey(fn, fc) + "|refs-saved"
					what := "every successful return after the object fetch has saved the refs"
					if blk[fc] {
						// one helper does both: the obligation is placed inside it (C13-m decides the
						// path through helpers and retry results)
						r.okWhy(key, p.Rel(fc.Pos()), what, "the fetching helper is also the ref-saving helper; checked inside it")
						continue
					}
					bad := false
					for _, ret := range returnsOf(fn) {
						v := retVal(ret, ei)
						if v != nil && (definitelyNonNilError(v) || nonNilByGuard(fn, ret, v)) {
							continue
						}
						if path, reach := reachAfter(fn, call, ret, mkCut(successEdgesFail(fn, call)), blk); reach {
							r.bad(key, p.Rel(ret.Pos()), what, fmtPath("a successful return is reachable after the fetch without saving refs", path))
							bad = true
							break
						}
					}
					if !bad {
						r.ok(key, p.Rel(fc.Pos()), what)
					}
				}
			}
			return nil
		},
	})

	register(&Rule{
		ID: "C13-h", Template: "T1 must-traverse (index before table)",
		Doc: "'Table present' implies 'table usable': every production call of objects.SaveTable outside pkg/objects happens only after a derived-index write for that table (objects.SaveTableIndex, or a wrapper such as ingest.IndexTable) succeeded on every path — the index may not be skipped on the strength of leftovers from an interrupted earlier operation.",
		Min: 2,
		Run: func(p *Program, r *RuleResult) error {
			st, err := p.MustFuncs("pkg/objects.SaveTable")
			if err != nil {
				return err
			}
			derived, err := p.MustFuncs("pkg/objects.SaveTableIndex")
			if err != nil {
				return err
			}
			g := &guardCheck{p: p, pre: newSuccSummary(p, derived)}
			fns := p.ProdFuncs()
			r.Analysed = len(fns)
			for _, fn := range fns {
				if fnPkgPath(fn) == modPath+"/pkg/objects" {
					continue
				}
				for _, c := range callsTo(fn, st) {
					what := "table object written only after its table index was written successfully"
					if ok, w := g.check(fn, c, 0); ok {
						r.ok(callKey(fn, c), p.Rel(c.Pos()), what)
					} else {
						r.bad(callKey(fn, c), p.Rel(c.Pos()), what, w)
					}
				}
			}
			return nil
		},
	})
}

func init() {
	register(&Rule{
		ID: "C13-i", Template: "T1 must-precede (table object removed first)",
		Doc: "Prune never leaves a table that is reported present without its index: in pkg/prune every objects.DeleteTableIndex / DeleteTableProfile call is preceded on every path by the objects.DeleteTable call for the same sum, so a prune that dies in between leaves an orphan index (harmless) rather than a table object whose index is gone.",
		Min: 2,
		Run: func(p *Program, r *RuleResult) error {
			dt, err := p.MustFuncs("pkg/objects.DeleteTable")
			if err != nil {
				return err
			}
			later, err := p.MustFuncs("pkg/objects.DeleteTableIndex", "pkg/objects.DeleteTableProfile")
			if err != nil {
				return err
			}
			fns := p.FuncsInPkg("pkg/prune")
			r.Analysed = len(fns)
			for _, fn := range fns {
				tables := callsTo(fn, dt)
				for _, c := range callsTo(fn, later) {
					key := callKey(fn, c)
					what := "table index / profile deleted only after the table object itself"
					ok := false
					for _, t := range tables {
						if len(t.Common().Args) < 2 || len(c.Common().Args) < 2 || !sameObject(t.Common().Args[1], c.Common().Args[1]) {
							continue
						}
						if _, reach := reachAfter(fn, nil, c, nil, map[ssa.Instruction]bool{t: true}); !reach {
							ok = true
						}
					}
					if ok {
						r.ok(key, p.Rel(c.Pos()), what)
					} else {
						r.bad(key, p.Rel(c.Pos()), what, "the derived object is deleted on a path that has not deleted the table object first")
					}
				}
			}
			return nil
		},
	})
}
