package main

// T7 narrowing: lengths must be bounded (exactly: ≤ 65535) before they are
// converted to uint16, and no 16-bit arithmetic may compute a buffer offset.

import (
	"fmt"
	"go/token"
	"go/types"
	"strings"

	"golang.org/x/tools/go/ssa"
)

func isUint16(t types.Type) bool {
	b, ok := t.Underlying().(*types.Basic)
	return ok && b.Kind() == types.Uint16
}

// lenOperand: if v is (a conversion of) len(x), return x.
func lenOperand(v ssa.Value) (ssa.Value, bool) {
	v = stripConv(v)
	c, ok := v.(*ssa.Call)
	if !ok {
		return nil, false
	}
	b, ok := c.Call.Value.(*ssa.Builtin)
	if !ok || b.Name() != "len" || len(c.Call.Args) != 1 {
		return nil, false
	}
	return c.Call.Args[0], true
}

// sameObject: two SSA values denote the same variable (identical value, or loads
// of the same address expression with the same base).
func sameObject(a, b ssa.Value) bool {
	a, b = stripConv(a), stripConv(b)
	if a == b {
		return true
	}
	ua, ok1 := a.(*ssa.UnOp)
	ub, ok2 := b.(*ssa.UnOp)
	if ok1 && ok2 && ua.Op == token.MUL && ub.Op == token.MUL {
		return sameAddr(ua.X, ub.X)
	}
	// string(x) conversions of same x etc. are handled by stripConv
	return false
}

func sameAddr(a, b ssa.Value) bool {
	if a == b {
		return true
	}
	fa, ok1 := a.(*ssa.FieldAddr)
	fb, ok2 := b.(*ssa.FieldAddr)
	if ok1 && ok2 && fa.Field == fb.Field {
		return sameObject(fa.X, fb.X) || sameAddr(fa.X, fb.X)
	}
	return false
}

// upperBoundEdges: edges of fn on which len(obj) ≤ max is known from a comparison
// of len(obj) against a constant. Returns the edges and, for reporting, the
// comparisons that mention len(obj) but establish a bound > max.
func upperBoundEdges(fn *ssa.Function, obj ssa.Value, max int64, sums *lenSummaries) (ok []edge, failing []edge, tooLoose []string) {
	for _, b := range fn.Blocks {
		if len(b.Instrs) == 0 {
			continue
		}
		ifi, isIf := b.Instrs[len(b.Instrs)-1].(*ssa.If)
		if !isIf {
			continue
		}
		cond := ifi.Cond
		neg := false
		for {
			if u, ok := cond.(*ssa.UnOp); ok && u.Op == token.NOT {
				neg = !neg
				cond = u.X
				continue
			}
			break
		}
		bo, isBin := cond.(*ssa.BinOp)
		if !isBin {
			continue
		}
		var c int64
		var op token.Token
		if x, okx := lenOperand(bo.X); okx && sameObject(x, obj) {
			k, okc := constInt(stripConv(bo.Y))
			if !okc {
				continue
			}
			c, op = k, bo.Op
		} else if y, oky := lenOperand(bo.Y); oky && sameObject(y, obj) {
			k, okc := constInt(stripConv(bo.X))
			if !okc {
				continue
			}
			c = k
			// C op len  ==  len op' C
			switch bo.Op {
			case token.LSS:
				op = token.GTR
			case token.LEQ:
				op = token.GEQ
			case token.GTR:
				op = token.LSS
			case token.GEQ:
				op = token.LEQ
			default:
				op = bo.Op
			}
		} else {
			continue
		}
		// which successor has len ≤ bound, and what bound
		var succ int
		var bound int64
		switch op {
		case token.GTR: // len > c : false edge ⇒ len ≤ c
			succ, bound = 1, c
		case token.GEQ: // len >= c : false edge ⇒ len ≤ c-1
			succ, bound = 1, c-1
		case token.LEQ:
			succ, bound = 0, c
		case token.LSS:
			succ, bound = 0, c-1
		default:
			continue
		}
		if neg {
			succ = 1 - succ
		}
		if bound <= max {
			ok = append(ok, edge{b, succ})
			failing = append(failing, edge{b, 1 - succ})
		} else {
			tooLoose = append(tooLoose, fmt.Sprintf("guard establishes len ≤ %d (> %d)", bound, max))
		}
	}
	// helper calls: if err := checkLen(obj); err != nil { return }
	if sums != nil {
		for _, b := range fn.Blocks {
			for _, in := range b.Instrs {
				c, isCall := in.(*ssa.Call)
				if !isCall {
					continue
				}
				callee := c.Call.StaticCallee()
				if callee == nil || !isRepoPkgPath(fnPkgPath(callee)) {
					continue
				}
				for i, a := range c.Call.Args {
					if !sameObject(a, obj) {
						continue
					}
					if sums.bounds(callee, i, max) {
						se := successEdges(fn, c)
						ok = append(ok, se...)
						for _, e := range se {
							failing = append(failing, edge{e.from, 1 - e.succ})
						}
					}
				}
			}
		}
	}
	return
}

// lenSummaries: does helper h bound len(param i) ≤ max on every success return?
type lenSummaries struct {
	memo map[string]bool
}

func (s *lenSummaries) bounds(h *ssa.Function, i int, max int64) bool {
	key := fmt.Sprintf("%p/%d/%d", h, i, max)
	if v, ok := s.memo[key]; ok {
		return v
	}
	s.memo[key] = false
	if i >= len(h.Params) || errorResultIndex(h.Signature) < 0 || len(h.Blocks) == 0 {
		return false
	}
	okE, _, _ := upperBoundEdges(h, h.Params[i], max, nil)
	if len(okE) == 0 {
		return false
	}
	cut := mkCut(okE)
	ei := errorResultIndex(h.Signature)
	for _, ret := range returnsOf(h) {
		if ei < len(ret.Results) && (definitelyNonNilError(retVal(ret, ei)) || nonNilByGuard(h, ret, retVal(ret, ei))) {
			continue
		}
		if _, reach := reachAfter(h, nil, ret, cut, nil); reach {
			return false
		}
	}
	s.memo[key] = true
	return true
}

func definitelyNonNilError(v ssa.Value) bool {
	return nonNilErrorDepth(v, 0)
}

func nonNilErrorDepth(v ssa.Value, depth int) bool {
	switch x := v.(type) {
	case *ssa.MakeInterface:
		return true
	case *ssa.Call:
		if f := calleeFunc(x); f != nil && f.Pkg() != nil {
			n := f.Pkg().Path() + "." + f.Name()
			if n == "fmt.Errorf" || n == "errors.New" {
				return true
			}
		}
		// an error constructor of the repo: every return is a non-nil error
		if sc := x.Call.StaticCallee(); sc != nil && depth < 2 && len(sc.Blocks) > 0 && sc.Signature.Results().Len() == 1 && isErrorType(sc.Signature.Results().At(0).Type()) {
			rets := returnsOf(sc)
			if len(rets) == 0 {
				return false
			}
			for _, ret := range rets {
				if rv := retVal(ret, 0); !nonNilErrorDepth(rv, depth+1) && !nonNilByGuard(sc, ret, rv) {
					return false
				}
			}
			return true
		}
	case *ssa.Phi:
		for _, e := range x.Edges {
			if !definitelyNonNilError(e) {
				return false
			}
		}
		return true
	}
	return false
}

// reachesPanic: from the start of block b, can a Panic instruction be reached?
func reachesPanic(b *ssa.BasicBlock) bool {
	seen := map[*ssa.BasicBlock]bool{}
	var rec func(x *ssa.BasicBlock) bool
	rec = func(x *ssa.BasicBlock) bool {
		if seen[x] {
			return false
		}
		seen[x] = true
		if len(x.Instrs) > 0 {
			if _, ok := x.Instrs[len(x.Instrs)-1].(*ssa.Panic); ok {
				return true
			}
		}
		// only follow blocks that cannot rejoin the main flow: single-successor chains
		if len(x.Succs) == 1 && len(x.Succs[0].Preds) == 1 {
			return rec(x.Succs[0])
		}
		return false
	}
	return rec(b)
}

type narrowOpts struct {
	noArith            bool
	requireErrorReject bool
	exemptFuncs        map[string]string // funcName substring -> reason
}

// runNarrowing evaluates both T7 obligations on the scope.
func runNarrowing(p *Program, r *RuleResult, scope []*ssa.Function, o narrowOpts) {
	r.Analysed = len(scope)
	sums := &lenSummaries{memo: map[string]bool{}}
	for _, fn := range scope {
		nConv, nArith := 0, 0
		for _, b := range fn.Blocks {
			for _, in := range b.Instrs {
				switch x := in.(type) {
				case *ssa.Convert:
					if !isUint16(x.Type()) {
						continue
					}
					obj, isLen := lenOperand(x.X)
					if !isLen {
						continue
					}
					key := fmt.Sprintf("%s|uint16(len)#%d", funcName(fn), nConv)
					nConv++
					what := "length converted to uint16 must be bounded by ≤ 65535 on every path"
					if o.requireErrorReject {
						what += ", and the over-limit case must be rejected by returning an error"
					}
					exempted := false
					for sub, reason := range o.exemptFuncs {
						if strings.Contains(funcName(fn), sub) {
							r.exempt(key, p.Rel(x.Pos()), what, reason)
							exempted = true
						}
					}
					if exempted {
						continue
					}
					okE, failE, loose := upperBoundEdges(fn, obj, 65535, sums)
					if path, reach := reachAfter(fn, nil, x, mkCut(okE), nil); reach {
						w := fmt.Sprintf("conversion reachable from the entry of %s without a len ≤ 65535 test (blocks %v)", funcName(fn), path)
						if len(loose) > 0 {
							w += "; " + strings.Join(loose, "; ")
						}
						r.bad(key, p.Rel(x.Pos()), what, w)
						continue
					}
					if o.requireErrorReject {
						rej := true
						var why string
						if errorResultIndex(fn.Signature) < 0 {
							rej, why = false, "the enclosing function has no error result (over-limit input can only panic)"
						} else {
							for _, e := range failE {
								if reachesPanic(e.from.Succs[e.succ]) {
									rej, why = false, "the over-limit edge panics instead of returning an error"
								}
							}
						}
						if !rej {
							r.bad(key+"|reject", p.Rel(x.Pos()), what, why)
							continue
						}
					}
					r.ok(key, p.Rel(x.Pos()), what)
				case *ssa.BinOp:
					if o.noArith || !isUint16(x.Type()) || (x.Op != token.ADD && x.Op != token.SUB && x.Op != token.MUL) {
						continue
					}
					// does the result reach a slice bound or index?
					fw := forward([]ssa.Value{x}, fwdOpts{})
					var sink ssa.Instruction
					for v := range fw {
						if v.Referrers() == nil {
							continue
						}
						for _, ref := range *v.Referrers() {
							switch s := ref.(type) {
							case *ssa.Slice:
								if s.Low == v || s.High == v || s.Max == v {
									sink = s
								}
							case *ssa.IndexAddr:
								if s.Index == v {
									sink = s
								}
							case *ssa.Index:
								if s.Index == v {
									sink = s
								}
							}
						}
					}
					if sink == nil {
						continue
					}
					key := fmt.Sprintf("%s|uint16-offset-arith#%d", funcName(fn), nArith)
					nArith++
					r.bad(key, p.Rel(x.Pos()), "a buffer offset must not be computed in 16-bit arithmetic",
						fmt.Sprintf("uint16 %s at %s flows into the slice bound/index at %s: wraps for buffers over 64KiB", x.Op, p.Rel(x.Pos()), p.Rel(sink.Pos())))
				}
			}
		}
	}
}

// rowCodecFuncs: methods of the StrList* types of pkg/objects and the package-level
// functions whose name mentions StrList (the row codec).
func rowCodecFuncs(p *Program) []*ssa.Function {
	var scope []*ssa.Function
	for _, fn := range p.FuncsInPkg("pkg/objects") {
		root := fn
		for root.Parent() != nil {
			root = root.Parent()
		}
		if strings.Contains(root.Name(), "StrList") {
			scope = append(scope, fn)
			continue
		}
		if recv := root.Signature.Recv(); recv != nil {
			t := recv.Type()
			if pt, ok := t.(*types.Pointer); ok {
				t = pt.Elem()
			}
			if n, ok := t.(*types.Named); ok && strings.HasPrefix(n.Obj().Name(), "StrList") {
				scope = append(scope, fn)
			}
		}
	}
	return scope
}

func init() {
	register(&Rule{
		ID: "C01-b", Template: "T7 narrowing",
		Doc: "Row codec (pkg/objects StrList*): a cell length is bounded by ≤ 65535 before uint16(len(·)); no 16-bit arithmetic computes a row-buffer offset (a row whose encoding exceeds 64KiB would wrap and overwrite itself).",
		Min: 1,
		Run: func(p *Program, r *RuleResult) error {
			if _, err := p.Func("pkg/objects.(*StrListEncoder).Encode"); err != nil {
				return err
			}
			scope := rowCodecFuncs(p)
			runNarrowing(p, r, scope, narrowOpts{})
			return nil
		},
	})
	register(&Rule{
		ID: "C06-c", Template: "T7 narrowing + reject-with-error",
		Doc: "Every encoder of a 16-bit string length (pkg/encoding/objline, objects.StrListEncoder) bounds the length by ≤ 65535 before converting and rejects longer values by returning an error, never by writing a wrapped length.",
		Min: 2,
		Run: func(p *Program, r *RuleResult) error {
			if _, err := p.Func("pkg/encoding/objline.WriteString"); err != nil {
				return err
			}
			var scope []*ssa.Function
			scope = append(scope, p.FuncsInPkg("pkg/encoding/objline")...)
			for _, fn := range p.FuncsInPkg("pkg/objects") {
				if strings.Contains(funcName(fn), "StrListEncoder") {
					scope = append(scope, fn)
				}
			}
			runNarrowing(p, r, scope, narrowOpts{requireErrorReject: true, noArith: true})
			return nil
		},
	})
}
