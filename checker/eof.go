package main

// End-of-input discipline (sentinel protocol): io.EOF means "the input ended at a
// unit boundary". A producer that can hand out an error matching a consumer's
// io.EOF test after it has already consumed part of a unit turns truncation into
// a clean end of input.
//
// For every production function G with an error result the analysis computes
// which EOF shapes its error can have, split by where they arise:
//
//   boundary  – from G's first error-producing call (nothing of the unit has been
//               consumed yet), or manufactured under an EOF test of that call;
//   mid       – from any later call.
//
// Shapes: bare (err == io.EOF holds) and wrapped (only errors.Is(err, io.EOF)
// holds: fmt.Errorf with %w around an EOF-capable error).

import (
	"fmt"
	"go/token"
	"go/types"
	"sort"
	"strings"

	"golang.org/x/tools/go/ssa"
)

const (
	shBare    = 1
	shWrapped = 2
)

type eofSum struct {
	// dataWithEOF: some return hands out a payload (slice / pointer / string result)
	// together with an EOF-shaped error
	dataWithEOF   string
	boundary, mid uint8
	midWhy        []string // where the mid shapes come from (diagnostics)
	manufactured  []string // io.EOF produced under a test for a different error
}

type eofAnalysis struct {
	p      *Program
	memo   map[*ssa.Function]*eofSum
	inprog map[*ssa.Function]bool
}

func newEOFAnalysis(p *Program) *eofAnalysis {
	return &eofAnalysis{p: p, memo: map[*ssa.Function]*eofSum{}, inprog: map[*ssa.Function]bool{}}
}

func shapeStr(b uint8) string {
	var s []string
	if b&shBare != 0 {
		s = append(s, "bare io.EOF")
	}
	if b&shWrapped != 0 {
		s = append(s, "error wrapping io.EOF")
	}
	if len(s) == 0 {
		return "none"
	}
	return strings.Join(s, " + ")
}

// externalMayEOF: can a call without analysable body return io.EOF?
func externalMayEOF(c ssa.CallInstruction) bool {
	cc := c.Common()
	if cc.IsInvoke() {
		n := cc.Method.Name()
		return strings.HasPrefix(n, "Read") || strings.HasPrefix(n, "Next") || n == "Peek" || n == "Discard" || n == "WriteTo"
	}
	f := calleeFunc(c)
	if f == nil {
		return false
	}
	if f.Pkg() == nil {
		return false
	}
	switch f.Pkg().Path() {
	case "io", "bufio", "bytes", "strings", "encoding/csv", "encoding/binary", "compress/gzip", "io/ioutil":
		n := f.Name()
		return strings.HasPrefix(n, "Read") || strings.HasPrefix(n, "Copy") || strings.HasPrefix(n, "Next") || n == "Peek" || n == "Discard" || n == "UnreadByte" || n == "WriteTo"
	}
	return false
}

// errCalls: value calls of fn that have an error result, in dominator preorder.
func errCalls(fn *ssa.Function) []*ssa.Call {
	var out []*ssa.Call
	for _, b := range fn.DomPreorder() {
		for _, in := range b.Instrs {
			if c, ok := in.(*ssa.Call); ok && errorResultIndex(c.Call.Signature()) >= 0 {
				out = append(out, c)
			}
		}
	}
	return out
}

// firstErrCall: the error-producing call that every other one is dominated by.
func firstErrCall(fn *ssa.Function) *ssa.Call {
	cs := errCalls(fn)
	// only calls that can yield an EOF shape matter for "has the unit been started"
	if len(cs) == 0 {
		return nil
	}
	c0 := cs[0]
	for _, c := range cs[1:] {
		if c.Block() == c0.Block() {
			continue
		}
		if !c0.Block().Dominates(c.Block()) {
			return nil
		}
	}
	return c0
}

// eofTest: a test of an error value against io.EOF.
type eofTest struct {
	cond ssa.Value
	is   bool // errors.Is (matches wrapped errors too) vs ==
	pos  token.Pos
}

func eofTestsOn(fn *ssa.Function, errVals map[ssa.Value]bool, sentinelPkg, sentinel string) []eofTest {
	var out []eofTest
	eachCall(fn, func(c ssa.CallInstruction) {
		if f := calleeFunc(c); f != nil && f.FullName() == "errors.Is" && len(c.Common().Args) == 2 && isGlobalNamed(c.Common().Args[1], sentinelPkg, sentinel) && errVals[c.Common().Args[0]] {
			if v, ok := c.(*ssa.Call); ok {
				out = append(out, eofTest{v, true, v.Pos()})
			}
		}
	})
	for _, b := range fn.Blocks {
		for _, in := range b.Instrs {
			if bo, ok := in.(*ssa.BinOp); ok && (bo.Op == token.EQL || bo.Op == token.NEQ) {
				if (errVals[bo.X] && isGlobalNamed(bo.Y, sentinelPkg, sentinel)) || (errVals[bo.Y] && isGlobalNamed(bo.X, sentinelPkg, sentinel)) {
					out = append(out, eofTest{bo, false, bo.Pos()})
				}
			}
		}
	}
	return out
}

// testEdges: the edges on which the tested error is (want=true) / is not the sentinel.
func testEdges(fn *ssa.Function, ts []eofTest, want bool) []edge {
	var out []edge
	for _, t := range ts {
		w := want
		if bo, ok := t.cond.(*ssa.BinOp); ok && bo.Op == token.NEQ {
			w = !w
		}
		out = append(out, boolEdges(fn, forward([]ssa.Value{t.cond}, fwdOpts{noBinOp: true}), w)...)
	}
	return out
}

type eofCtx struct {
	a     *eofAnalysis
	fn    *ssa.Function
	c0    *ssa.Call
	sum   *eofSum
	depth int
	seen  map[ssa.Value]bool
}

// add records shapes arising from call x (nil: manufactured without a test).
func (c *eofCtx) add(bits uint8, fromC0 bool, why string) {
	if bits == 0 {
		return
	}
	if fromC0 {
		c.sum.boundary |= bits
	} else {
		c.sum.mid |= bits
		c.sum.midWhy = append(c.sum.midWhy, why)
	}
}

// callShapes: shapes of the error of call x, as (boundary, mid) of the callee.
func (c *eofCtx) callShapes(x *ssa.Call) (uint8, uint8) {
	cc := x.Common()
	if sc := cc.StaticCallee(); sc != nil && len(sc.Blocks) > 0 && isRepoPkgPath(fnPkgPath(sc)) {
		s := c.a.summary(sc, c.depth+1)
		return s.boundary, s.mid
	}
	if cc.StaticCallee() == nil && !cc.IsInvoke() {
		// call of a function value: union over the call graph's callees
		var b, m uint8
		cal := c.a.p.Callees(c.fn, x)
		if len(cal) == 0 {
			return shBare, 0
		}
		for _, f := range cal {
			if len(f.Blocks) > 0 && isRepoPkgPath(fnPkgPath(f)) {
				s := c.a.summary(f, c.depth+1)
				b |= s.boundary
				m |= s.mid
			}
		}
		return b, m
	}
	if cc.IsInvoke() {
		// repo interfaces implemented in the repo: use the callees when they resolve
		cal := c.a.p.Callees(c.fn, x)
		var b, m uint8
		resolved := false
		for _, f := range cal {
			if len(f.Blocks) > 0 && isRepoPkgPath(fnPkgPath(f)) && c.a.p.IsProd(f) {
				s := c.a.summary(f, c.depth+1)
				b |= s.boundary
				m |= s.mid
				resolved = true
			}
		}
		if resolved {
			return b, m
		}
	}
	if externalMayEOF(x) {
		return shBare, 0
	}
	return 0, 0
}

// shapesAt adds to the summary the shapes error value v can have when it is used
// at instruction `use` (a Return, the terminator of a φ predecessor, or a call
// that wraps it).
func (c *eofCtx) shapesAt(v ssa.Value, use ssa.Instruction, wrap bool) {
	switch x := v.(type) {
	case *ssa.Const:
		return
	case *ssa.Phi:
		key := ssa.Value(x)
		if c.seen[key] {
			return
		}
		c.seen[key] = true
		for k, e := range x.Edges {
			pred := x.Block().Preds[k]
			if len(pred.Instrs) == 0 {
				continue
			}
			c.shapesAtEdge(e, pred, x.Block(), wrap)
		}
		return
	case *ssa.MakeInterface:
		return
	case *ssa.ChangeInterface:
		c.shapesAt(x.X, use, wrap)
		return
	case *ssa.ChangeType:
		c.shapesAt(x.X, use, wrap)
		return
	case *ssa.Extract:
		if call, ok := x.Tuple.(*ssa.Call); ok {
			c.rawCall(call, use, wrap)
		}
		return
	case *ssa.Call:
		c.rawCall(x, use, wrap)
		return
	case *ssa.UnOp:
		if x.Op != token.MUL {
			return
		}
		if g, ok := x.X.(*ssa.Global); ok {
			if g.Pkg != nil && g.Pkg.Pkg.Path() == "io" && g.Name() == "EOF" {
				c.manufactured(use, wrap)
			}
			return
		}
		if al, ok := x.X.(*ssa.Alloc); ok {
			if c.seen[x] {
				return
			}
			c.seen[x] = true
			for _, st := range cellStores(al) {
				c.shapesAt(st.Val, st, wrap)
			}
		}
		return
	}
}

// shapesAtEdge: value e flows along the CFG edge pred → succ.
func (c *eofCtx) shapesAtEdge(e ssa.Value, pred, succ *ssa.BasicBlock, wrap bool) {
	// raw error of a call: the edge itself may be a not-EOF edge of a test on it
	if call := rawCallOf(e); call != nil {
		vals := errValuesOfCall(call)
		notEOF := mkCut(testEdges(c.fn, eofTestsOn(c.fn, vals, "io", "EOF"), false))
		for i, s := range pred.Succs {
			if s == succ && notEOF[edge{pred, i}] {
				return
			}
		}
	}
	c.shapesAt(e, pred.Instrs[len(pred.Instrs)-1], wrap)
}

func rawCallOf(v ssa.Value) *ssa.Call {
	switch x := v.(type) {
	case *ssa.Extract:
		if call, ok := x.Tuple.(*ssa.Call); ok {
			return call
		}
	case *ssa.Call:
		if f := calleeFunc(x); f != nil && (f.FullName() == "fmt.Errorf" || f.FullName() == "errors.New") {
			return nil
		}
		return x
	}
	return nil
}

func (c *eofCtx) rawCall(call *ssa.Call, use ssa.Instruction, wrap bool) {
	if errorResultIndex(call.Call.Signature()) < 0 {
		return
	}
	if f := calleeFunc(call); f != nil {
		switch f.FullName() {
		case "errors.New":
			return
		case "fmt.Errorf":
			c.errorf(call)
			return
		}
	}
	// the unchanged error of `call` reaches `use` only along paths that have not
	// excluded io.EOF
	vals := errValuesOfCall(call)
	notEOF := mkCut(testEdges(c.fn, eofTestsOn(c.fn, vals, "io", "EOF"), false))
	if use != nil && use.Block() != nil && use.Parent() == c.fn {
		if _, reach := reachAfter(c.fn, call, use, notEOF, nil); !reach {
			return
		}
	}
	b, m := c.callShapes(call)
	if wrap {
		if b != 0 {
			b = shWrapped
		}
		if m != 0 {
			m = shWrapped
		}
	}
	why := fmt.Sprintf("%s: error of %s @%s", funcName(c.fn), calleeLabel(call), c.a.p.Rel(call.Pos()))
	if call == c.c0 {
		c.add(b, true, why)
		c.add(m, false, why+" (inside the callee, after its first read)")
	} else {
		c.add(b|m, false, why)
	}
}

func calleeLabel(c ssa.CallInstruction) string {
	if f := calleeFunc(c); f != nil {
		return shortObj(f)
	}
	return "a function value"
}

// errorf: fmt.Errorf with %w around an EOF-capable error yields a wrapped shape.
func (c *eofCtx) errorf(call *ssa.Call) {
	if len(call.Call.Args) == 0 {
		return
	}
	format, ok := constString(call.Call.Args[0])
	if !ok {
		return
	}
	els := variadicElems(call)
	k := 0
	for i := 0; i < len(format); i++ {
		if format[i] != '%' {
			continue
		}
		i++
		for i < len(format) && strings.ContainsRune("+-# 0123456789.[]*", rune(format[i])) {
			i++
		}
		if i >= len(format) {
			break
		}
		if format[i] == '%' {
			continue
		}
		if format[i] == 'w' && k < len(els) {
			el := els[k]
			for {
				if mi, ok := el.(*ssa.MakeInterface); ok {
					el = mi.X
					continue
				}
				if ci, ok := el.(*ssa.ChangeInterface); ok {
					el = ci.X
					continue
				}
				break
			}
			c.shapesAt(el, call, true)
		}
		k++
	}
}

// manufactured: the io.EOF global itself is used as the error at `use`.
func (c *eofCtx) manufactured(use ssa.Instruction, wrap bool) {
	bits := uint8(shBare)
	if wrap {
		bits = shWrapped
	}
	if use == nil || use.Parent() != c.fn {
		c.add(bits, true, "")
		return
	}
	// under the true edge of an io.EOF test of call X: X's own end of input
	for _, x := range errCalls(c.fn) {
		vals := errValuesOfCall(x)
		if vals == nil {
			continue
		}
		isEOF := testEdges(c.fn, eofTestsOn(c.fn, vals, "io", "EOF"), true)
		if len(isEOF) > 0 {
			if _, reach := reachAfter(c.fn, nil, use, mkCut(isEOF), nil); !reach {
				b, m := c.callShapes(x)
				why := fmt.Sprintf("%s: io.EOF passed on from %s @%s", funcName(c.fn), calleeLabel(x), c.a.p.Rel(x.Pos()))
				if x == c.c0 {
					if b != 0 {
						c.add(bits, true, why)
					}
					if m != 0 {
						c.add(bits, false, why+" (inside the callee, after its first read)")
					}
					if b == 0 && m == 0 {
						c.add(bits, true, why)
					}
				} else {
					c.add(bits, false, why)
				}
				return
			}
		}
		// under the true edge of a test for a DIFFERENT error: truncation relabelled
		isUnexp := testEdges(c.fn, eofTestsOn(c.fn, vals, "io", "ErrUnexpectedEOF"), true)
		if len(isUnexp) > 0 {
			if _, reach := reachAfter(c.fn, nil, use, mkCut(isUnexp), nil); !reach {
				c.sum.manufactured = append(c.sum.manufactured, fmt.Sprintf("%s turns io.ErrUnexpectedEOF of %s into io.EOF @%s", funcName(c.fn), calleeLabel(x), c.a.p.Rel(x.Pos())))
				c.add(bits, false, fmt.Sprintf("%s: io.ErrUnexpectedEOF relabelled io.EOF @%s", funcName(c.fn), c.a.p.Rel(use.Pos())))
				return
			}
		}
	}
	// an exhaustion signal of the function's own (e.g. an empty queue)
	c.add(bits, true, "")
}

func (a *eofAnalysis) summary(fn *ssa.Function, depth int) *eofSum {
	if s, ok := a.memo[fn]; ok {
		return s
	}
	s := &eofSum{}
	if depth > 8 || a.inprog[fn] || len(fn.Blocks) == 0 {
		return s
	}
	a.inprog[fn] = true
	defer func() { a.inprog[fn] = false }()
	ei := errorResultIndex(fn.Signature)
	if ei < 0 {
		a.memo[fn] = s
		return s
	}
	c := &eofCtx{a: a, fn: fn, c0: firstErrCall(fn), sum: s, depth: depth, seen: map[ssa.Value]bool{}}
	for _, ret := range returnsOf(fn) {
		v := retVal(ret, ei)
		if v == nil {
			continue
		}
		c.shapesAt(v, ret, false)
		// payload handed out together with an EOF-shaped error?
		tmp := &eofSum{}
		c2 := &eofCtx{a: a, fn: fn, c0: c.c0, sum: tmp, depth: depth, seen: map[ssa.Value]bool{}}
		c2.shapesAt(v, ret, false)
		viaCell := false
		if u, ok := v.(*ssa.UnOp); ok && u.Op == token.MUL {
			if _, isAlloc := u.X.(*ssa.Alloc); isAlloc {
				viaCell = true // defer-spilled named result: which store reaches this return is not known
			}
		}
		if tmp.boundary|tmp.mid != 0 && !viaCell {
			for i := range ret.Results {
				if i == ei {
					continue
				}
				rv := retVal(ret, i)
				if rv == nil {
					continue
				}
				switch rv.Type().Underlying().(type) {
				case *types.Slice, *types.Pointer, *types.Map:
				default:
					if b, ok := rv.Type().Underlying().(*types.Basic); !ok || b.Info()&types.IsString == 0 {
						continue
					}
				}
				if cst, ok := rv.(*ssa.Const); ok && (cst.IsNil() || cst.Value == nil || cst.Value.String() == `""`) {
					continue
				}
				// results of a call handed on together with that call's own error:
				// whatever the callee does
				if ex, ok := rv.(*ssa.Extract); ok {
					if x, ok := ex.Tuple.(*ssa.Call); ok {
						if xv := errValuesOfCall(x); xv != nil && xv[v] {
							if sc := x.Call.StaticCallee(); sc != nil && len(sc.Blocks) > 0 && isRepoPkgPath(fnPkgPath(sc)) {
								if cs := a.summary(sc, depth+1); cs.dataWithEOF != "" {
									s.dataWithEOF = cs.dataWithEOF
								}
							}
							continue
						}
					}
				}
				s.dataWithEOF = a.p.Rel(ret.Pos())
			}
		}
	}
	sort.Strings(s.midWhy)
	s.midWhy = uniqStrings(s.midWhy)
	a.memo[fn] = s
	return s
}

func uniqStrings(ss []string) []string {
	var out []string
	for i, s := range ss {
		if s == "" || (i > 0 && ss[i-1] == s) {
			continue
		}
		out = append(out, s)
	}
	return out
}

// cleanOutcome: assume the error of `call` has EOF shape sh (so it is non-nil,
// == io.EOF holds iff sh is bare, errors.Is(·, io.EOF) holds). Following only the
// branch outcomes that are feasible under that assumption, can the function go on
// as if nothing had failed — return without an error, or come back to the call for
// the next unit?
func cleanOutcome(fn *ssa.Function, call *ssa.Call, vals map[ssa.Value]bool, tests []eofTest, sh uint8) (bool, string) {
	return cleanOutcomeAvoiding(fn, call, vals, tests, sh, nil)
}

// cleanOutcomeAvoiding: like cleanOutcome, but only along paths that execute none of
// the instructions in avoid.
func cleanOutcomeAvoiding(fn *ssa.Function, call *ssa.Call, vals map[ssa.Value]bool, tests []eofTest, sh uint8, avoid map[ssa.Instruction]bool) (bool, string) {
	cut := cutSet{}
	for _, b := range fn.Blocks {
		if len(b.Instrs) == 0 {
			continue
		}
		if ifi, ok := b.Instrs[len(b.Instrs)-1].(*ssa.If); ok {
			if s, ok := nilTestEdge(ifi, vals); ok {
				cut[edge{b, s}] = true
			}
		}
	}
	for _, t := range tests {
		holds := t.is || sh == shBare
		for _, e := range testEdges(fn, []eofTest{t}, !holds) {
			cut[e] = true
		}
	}
	ei := errorResultIndex(fn.Signature)
	type state struct{ b, pred *ssa.BasicBlock }
	seen := map[state]bool{}
	type item struct {
		st    state
		start int
	}
	work := []item{{state{call.Block(), nil}, instrIndex(call) + 1}}
	for len(work) > 0 {
		it := work[len(work)-1]
		work = work[:len(work)-1]
		b := it.st.b
		stop := false
		for k := it.start; k < len(b.Instrs) && !stop; k++ {
			if avoid != nil && avoid[b.Instrs[k]] {
				stop = true
				break
			}
			switch x := b.Instrs[k].(type) {
			case *ssa.Call:
				if x == call {
					return true, "the loop goes on to the next unit"
				}
			case *ssa.Send:
				if vals[x.X] {
					stop = true // reported on an error channel
				}
			case *ssa.Panic:
				stop = true
			case *ssa.Return:
				stop = true
				if ei < 0 {
					return true, "the function returns normally @" + posStr(fn, x.Pos())
				}
				v := retVal(x, ei)
				if ph, ok := v.(*ssa.Phi); ok && ph.Block() == b && it.st.pred != nil {
					for i, p := range b.Preds {
						if p == it.st.pred {
							v = ph.Edges[i]
						}
					}
				}
				if v == nil || isNilConst(v) {
					return true, "returns a nil error @" + posStr(fn, x.Pos())
				}
				if vals[v] || definitelyNonNilError(v) || isGlobalLoad(v) || nonNilByGuard(fn, x, v) {
					continue
				}
				return true, "returns without reporting it @" + posStr(fn, x.Pos())
			}
		}
		if stop {
			continue
		}
		for i, s := range b.Succs {
			if cut[edge{b, i}] {
				continue
			}
			st := state{s, b}
			if seen[st] {
				continue
			}
			seen[st] = true
			work = append(work, item{st, 0})
		}
	}
	return false, ""
}

func posStr(fn *ssa.Function, pos token.Pos) string {
	if fn.Prog == nil || !pos.IsValid() {
		return "?"
	}
	p := fn.Prog.Fset.Position(pos)
	return fmt.Sprintf("line %d", p.Line)
}

// cleanEnd: the edge on which the error IS io.EOF leads somewhere other than an
// error return (break out of a loop, return nil, return a result).
func cleanEnd(fn *ssa.Function, e edge) bool {
	succ := e.from.Succs[e.succ]
	return !leadsOnlyToErrorReturns(fn, succ, map[*ssa.BasicBlock]bool{})
}

// leadsOnlyToErrorReturns: every path from b ends in a return with a non-nil
// error (or a panic) without entering a loop.
func leadsOnlyToErrorReturns(fn *ssa.Function, b *ssa.BasicBlock, seen map[*ssa.BasicBlock]bool) bool {
	if seen[b] {
		return false // a cycle: the function goes on
	}
	seen[b] = true
	defer delete(seen, b)
	if len(b.Instrs) == 0 {
		return false
	}
	switch t := b.Instrs[len(b.Instrs)-1].(type) {
	case *ssa.Return:
		ei := errorResultIndex(fn.Signature)
		if ei < 0 {
			return false
		}
		v := retVal(t, ei)
		if v == nil {
			return false
		}
		if c, ok := v.(*ssa.Const); ok && c.IsNil() {
			return false
		}
		return definitelyNonNilError(v) || nonNilByGuard(fn, t, v) || isGlobalLoad(v) || nonNilOnEdgeFrom(v, b)
	case *ssa.Panic:
		return true
	default:
		if len(b.Succs) == 0 {
			return false
		}
		for _, s := range b.Succs {
			if !leadsOnlyToErrorReturns(fn, s, seen) {
				return false
			}
		}
		return true
	}
}

func isGlobalLoad(v ssa.Value) bool {
	if u, ok := v.(*ssa.UnOp); ok && u.Op == token.MUL {
		_, g := u.X.(*ssa.Global)
		return g
	}
	return false
}

// nonNilOnEdgeFrom: φ whose operands are all non-nil errors.
func nonNilOnEdgeFrom(v ssa.Value, b *ssa.BasicBlock) bool {
	ph, ok := v.(*ssa.Phi)
	if !ok {
		return false
	}
	for _, e := range ph.Edges {
		if !(definitelyNonNilError(e) || isGlobalLoad(e)) {
			return false
		}
	}
	return true
}

// eofScope: is g a decoder of stored objects / wire data or a history walker?
func eofScope(g *ssa.Function) bool {
	pkg := strings.TrimPrefix(fnPkgPath(g), modPath+"/")
	switch {
	case pkg == "pkg/encoding" || strings.HasPrefix(pkg, "pkg/encoding/"):
		return true
	case pkg == "pkg/objects":
		if recv := g.Signature.Recv(); recv != nil {
			if n, ok := derefType(recv.Type()).(*types.Named); ok && n.Obj().Name() == "StrListDecoder" {
				return false // row codec; its io.EOF consumers read the sorter's own spill files
			}
		}
		return true
	case pkg == "pkg/ref", pkg == "pkg/doctor":
		return true
	}
	return false
}

func init() {
	register(&Rule{
		ID: "C17-f", Template: "sentinel protocol (io.EOF means 'ended at a unit boundary')",
		Doc: "Truncation is never mistaken for a clean end of input: for every production call site that tests the error of a repo function G against io.EOF and treats a match as a normal end (break / success return), G cannot produce an error matching that test (== matches a bare io.EOF, errors.Is also a %w-wrapped one) after it has consumed part of a unit — only from its first read. Also: no function relabels io.ErrUnexpectedEOF as io.EOF.",
		Min: 12,
		Run: func(p *Program, r *RuleResult) error {
			for _, a := range []string{"pkg/encoding/objline.ReadField", "pkg/encoding/packfile.PackfileReader.ReadObject"} {
				if _, err := p.Func(a); err != nil {
					return err
				}
			}
			a := newEOFAnalysis(p)
			fns := p.ProdFuncs()
			r.Analysed = len(fns)
			relabel := map[string]bool{}
			outOfScope := 0
			defer func() { r.note("io.EOF tests on readers of process-local files (out of scope): %d", outOfScope) }()
			for _, fn := range fns {
				for _, call := range errCalls(fn) {
					vals := errValuesOfCall(call)
					if vals == nil {
						continue
					}
					tests := eofTestsOn(fn, vals, "io", "EOF")
					if len(tests) == 0 {
						continue
					}
					cal := p.Callees(fn, call)
					var gs []*ssa.Function
					for _, g := range cal {
						if len(g.Blocks) > 0 && isRepoPkgPath(fnPkgPath(g)) && p.IsProd(g) {
							gs = append(gs, g)
						}
					}
					if len(gs) == 0 {
						continue
					}
					// scope: decoders of stored objects and wire data, and the history
					// walkers built on them. Readers of files the same process wrote
					// (spill chunks, on-disk hash index, diff buffers, the test-only
					// file ref store) are outside the properties' input model.
					inScope := false
					for _, g := range gs {
						if eofScope(g) {
							inScope = true
						}
					}
					if !inScope {
						outOfScope++
						continue
					}
					// which shapes of the callee's error end up in a clean outcome here?
					var matched uint8
					var cleanWhy []string
					for _, sh := range []uint8{shBare, shWrapped} {
						if ok, why := cleanOutcome(fn, call, vals, tests, sh); ok {
							matched |= sh
							cleanWhy = append(cleanWhy, why)
						}
					}
					if matched == 0 {
						continue
					}
					// the callee may hand out the last unit together with io.EOF: then the
					// clean path must look at the payload before it ends the loop
					for _, g := range gs {
						gsum := a.summary(g, 0)
						if gsum.dataWithEOF == "" {
							continue
						}
						var payload []ssa.Value
						for _, ref := range *call.Referrers() {
							if ex, ok := ref.(*ssa.Extract); ok {
								switch ex.Type().Underlying().(type) {
								case *types.Slice, *types.Pointer, *types.Map:
									payload = append(payload, ex)
								}
							}
						}
						if len(payload) == 0 {
							continue
						}
						uses := map[ssa.Instruction]bool{}
						for v := range forward(payload, fwdOpts{}) {
							if refs := v.Referrers(); refs != nil {
								for _, ref := range *refs {
									if _, dbg := ref.(*ssa.DebugRef); !dbg {
										uses[ref] = true
									}
								}
							}
						}
						for _, sh := range []uint8{shBare, shWrapped} {
							if matched&sh == 0 {
								continue
							}
							if ok, whyc := cleanOutcomeAvoiding(fn, call, vals, tests, sh, uses); ok {
								r.bad(callKey(fn, call)+"|payload-with-eof", p.Rel(call.Pos()), "a unit handed out together with io.EOF is not thrown away", fmt.Sprintf("%s can return a payload together with an io.EOF-shaped error (%s), and here that outcome is taken as the end (%s) without the payload being looked at: the last object of the stream is dropped silently", funcName(g), gsum.dataWithEOF, whyc))
								break
							}
						}
					}
					var mid, boundary uint8
					var why []string
					for _, g := range gs {
						s := a.summary(g, 0)
						mid |= s.mid
						boundary |= s.boundary
						if s.mid&matched != 0 {
							why = append(why, s.midWhy...)
						}
						for _, m := range s.manufactured {
							relabel[m] = true
						}
					}
					if mid == 0 && boundary == 0 {
						continue
					}
					key := callKey(fn, call) + "|eof-test"
					what := "the callee yields an error matching this io.EOF test only before it has consumed anything of the unit"
					if mid&matched != 0 {
						r.bad(key, p.Rel(call.Pos()), what, fmt.Sprintf("%s from the callee is taken as a clean end (%s); the callee can produce %s after its first read: %s", shapeStr(matched), strings.Join(cleanWhy, "; "), shapeStr(mid&matched), strings.Join(shortList(uniqStrings(why), 3), "; ")))
					} else {
						r.okWhy(key, p.Rel(call.Pos()), what, fmt.Sprintf("taken as a clean end: %s; callee: boundary=%s mid=%s", shapeStr(matched), shapeStr(boundary), shapeStr(mid)))
					}
				}
			}
			// relabelling is wrong wherever it happens
			for _, fn := range fns {
				s := a.summary(fn, 0)
				for _, m := range s.manufactured {
					relabel[m] = true
				}
			}
			var rl []string
			for m := range relabel {
				rl = append(rl, m)
			}
			sort.Strings(rl)
			for _, m := range rl {
				r.bad("relabel|"+strings.SplitN(m, " @", 2)[0], m[strings.LastIndex(m, "@")+1:], "io.ErrUnexpectedEOF (the stream died) is never turned into io.EOF (the stream ended)", m)
			}
			if len(rl) == 0 {
				r.ok("relabel|none", "", "io.ErrUnexpectedEOF (the stream died) is never turned into io.EOF (the stream ended)")
			}
			return nil
		},
	})
}
