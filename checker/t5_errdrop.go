package main

// T5 error-drop: a call to a function of the callee set whose error result has no
// use at all (expression statement, every result assigned to _, or a value that
// is overwritten before being read). Deferred calls are not flagged.

import (
	"go/types"
	"strings"

	"golang.org/x/tools/go/ssa"
)

// errorDropped reports whether the error result of call c is never used.
func errorDropped(c *ssa.Call) bool {
	sig := c.Call.Signature()
	idx := errorResultIndex(sig)
	if idx < 0 {
		return false
	}
	refs := c.Referrers()
	if sig.Results().Len() == 1 {
		return refs == nil || len(*refs) == 0
	}
	if refs == nil {
		return true
	}
	for _, r := range *refs {
		if ex, ok := r.(*ssa.Extract); ok && ex.Index == idx {
			if er := ex.Referrers(); er != nil && len(*er) > 0 {
				return false
			}
		}
	}
	return true
}

type t5Exception struct {
	caller string // funcName substring
	callee string // shortObj substring
	reason string
	// writerIsBytesBuffer: applies (with caller == "") when the call's io.Writer
	// argument is statically a *bytes.Buffer
	writerIsBytesBuffer bool
}

func pkgOfFunc(f *types.Func) string {
	if f.Pkg() == nil {
		return ""
	}
	return f.Pkg().Path()
}

// runErrorDrop evaluates T5 for every production function in scope.
func runErrorDrop(p *Program, r *RuleResult, scope []*ssa.Function, inSet func(f *types.Func) bool, exceptions []t5Exception) {
	r.Analysed = len(scope)
	for _, fn := range scope {
		for _, b := range fn.Blocks {
			for _, in := range b.Instrs {
				c, ok := in.(*ssa.Call)
				if !ok {
					continue
				}
				cal := calleeFunc(c)
				if cal == nil || !inSet(cal) {
					continue
				}
				if errorResultIndex(c.Call.Signature()) < 0 {
					continue
				}
				key := callKey(fn, c)
				what := "error returned by " + shortObj(cal) + " must be used"
				if !errorDropped(c) {
					r.ok(key, p.Rel(c.Pos()), what)
					continue
				}
				exempted := false
				for _, e := range exceptions {
					// caller "" with a writer condition: the exception is about WHAT is written
					// to, not about which function contains the call
					if e.caller == "" && strings.Contains(shortObj(cal), e.callee) && e.writerIsBytesBuffer {
						if writesToBytesBuffer(c) {
							r.exempt(key, p.Rel(c.Pos()), what, e.reason)
							exempted = true
							break
						}
						continue
					}
					if e.caller != "" && strings.Contains(funcName(fn), e.caller) && strings.Contains(shortObj(cal), e.callee) {
						r.exempt(key, p.Rel(c.Pos()), what, e.reason)
						exempted = true
						break
					}
				}
				if !exempted {
					r.bad(key, p.Rel(c.Pos()), what, "the call's error result has no use on any path: a failure here is silently ignored")
				}
			}
		}
	}
}

// writesToBytesBuffer: the io.Writer argument of the call is a *bytes.Buffer.
func writesToBytesBuffer(c *ssa.Call) bool {
	for _, a := range c.Call.Args {
		mi, ok := a.(*ssa.MakeInterface)
		if !ok {
			continue
		}
		if pt, ok := mi.X.Type().(*types.Pointer); ok {
			if nt, ok := pt.Elem().(*types.Named); ok && nt.Obj().Pkg() != nil && nt.Obj().Pkg().Path() == "bytes" && nt.Obj().Name() == "Buffer" {
				return true
			}
		}
	}
	return false
}

func pkgSet(rel ...string) map[string]bool {
	m := map[string]bool{}
	for _, r := range rel {
		m[modPath+"/"+r] = true
	}
	return m
}

func init() {
	register(&Rule{
		ID: "C01-a", Template: "T5 error-drop",
		Doc: "No error returned by the sorter / ingest / object-store / on-disk index layers is dropped anywhere in production code: a dropped Sorter.AddRow error means a sorted run failed to spill and its rows are gone while the commit succeeds.",
		Min: 60,
		Run: func(p *Program, r *RuleResult) error {
			pk := pkgSet("pkg/sorter", "pkg/ingest", "pkg/objects", "pkg/index")
			if _, err := p.Func("pkg/sorter.(*Sorter).AddRow"); err != nil {
				return err
			}
			if _, err := p.Func("pkg/objects.SaveBlock"); err != nil {
				return err
			}
			runErrorDrop(p, r, p.ProdFuncs(), func(f *types.Func) bool { return pk[pkgOfFunc(f)] }, []t5Exception{
				{caller: "", callee: "(*pkg/objects.BlockIndex).WriteTo", writerIsBytesBuffer: true,
					reason: "writes into a *bytes.Buffer, whose Write never fails; WriteTo's only error source is w.Write"},
			})
			return nil
		},
	})
}
