package main

// T9 shared-write: state reachable from the operands that N instances of the same
// goroutine share must be written atomically, under a mutex, through a channel, or
// inside sync.Once.Do.

import (
	"fmt"
	"go/token"
	"go/types"
	"sort"
	"strings"

	"golang.org/x/tools/go/ssa"
)

type fieldKey struct {
	st  *types.Struct
	idx int
}

type sharedAnalysis struct {
	p          *Program
	derived    map[*ssa.Function]map[ssa.Value]bool
	fields     map[fieldKey]bool // fields of (possibly local) objects that hold shared pointers
	queue      []*ssa.Function
	inQ        map[*ssa.Function]bool
	onceFns    map[*ssa.Function]bool // closures passed to (*sync.Once).Do
	thirdParty map[string]bool
	readers    map[fieldKey][]*ssa.Function
	// local cells (Allocs, closure FreeVars) that hold a shared pointer
	cells map[*ssa.Function]map[ssa.Value]bool
}

func newSharedAnalysis(p *Program) *sharedAnalysis {
	return &sharedAnalysis{p: p, derived: map[*ssa.Function]map[ssa.Value]bool{}, fields: map[fieldKey]bool{}, inQ: map[*ssa.Function]bool{}, onceFns: map[*ssa.Function]bool{}, thirdParty: map[string]bool{}, cells: map[*ssa.Function]map[ssa.Value]bool{}}
}

func (a *sharedAnalysis) fieldReaders(k fieldKey) []*ssa.Function {
	if a.readers == nil {
		a.readers = map[fieldKey][]*ssa.Function{}
		for _, f := range a.p.ProdFuncs() {
			seen := map[fieldKey]bool{}
			for _, b := range f.Blocks {
				for _, in := range b.Instrs {
					if fa, ok := in.(*ssa.FieldAddr); ok {
						if st := structOf(fa.X.Type()); st != nil {
							fk := fieldKey{st, fa.Field}
							if !seen[fk] {
								seen[fk] = true
								a.readers[fk] = append(a.readers[fk], f)
							}
						}
					}
				}
			}
		}
	}
	return a.readers[k]
}

func pointerLike(t types.Type) bool {
	switch t.Underlying().(type) {
	case *types.Pointer, *types.Slice, *types.Map, *types.Chan, *types.Interface, *types.Signature:
		return true
	}
	return false
}

func (a *sharedAnalysis) add(fn *ssa.Function, v ssa.Value) bool {
	if v == nil {
		return false
	}
	if _, isConst := v.(*ssa.Const); isConst {
		return false
	}
	m := a.derived[fn]
	if m == nil {
		m = map[ssa.Value]bool{}
		a.derived[fn] = m
	}
	if m[v] {
		return false
	}
	m[v] = true
	if !a.inQ[fn] {
		a.inQ[fn] = true
		a.queue = append(a.queue, fn)
	}
	return true
}

func structOf(t types.Type) *types.Struct {
	if p, ok := t.Underlying().(*types.Pointer); ok {
		t = p.Elem()
	}
	st, _ := t.Underlying().(*types.Struct)
	return st
}

func (a *sharedAnalysis) run() {
	for len(a.queue) > 0 {
		fn := a.queue[0]
		a.queue = a.queue[1:]
		a.inQ[fn] = false
		a.process(fn)
	}
}

func (a *sharedAnalysis) addCell(fn *ssa.Function, v ssa.Value) {
	if a.cells[fn] == nil {
		a.cells[fn] = map[ssa.Value]bool{}
	}
	if a.cells[fn][v] {
		return
	}
	a.cells[fn][v] = true
	if a.derived[fn] == nil {
		a.derived[fn] = map[ssa.Value]bool{}
	}
	if !a.inQ[fn] {
		a.inQ[fn] = true
		a.queue = append(a.queue, fn)
	}
}

func (a *sharedAnalysis) process(fn *ssa.Function) {
	D := a.derived[fn]
	if D == nil {
		D = map[ssa.Value]bool{}
		a.derived[fn] = D
	}
	changed := true
	for changed {
		changed = false
		for _, b := range fn.Blocks {
			for _, in := range b.Instrs {
				switch x := in.(type) {
				case *ssa.FieldAddr:
					if D[x.X] && !D[x] {
						D[x] = true
						changed = true
					}
				case *ssa.Field:
					if D[x.X] && pointerLike(x.Type()) && !D[x] {
						D[x] = true
						changed = true
					}
				case *ssa.IndexAddr:
					if D[x.X] && !D[x] {
						D[x] = true
						changed = true
					}
				case *ssa.UnOp:
					if x.Op == token.MUL && !D[x] {
						if a.cells[fn][x.X] && pointerLike(x.Type()) {
							D[x] = true
							changed = true
						} else if D[x.X] && pointerLike(x.Type()) {
							D[x] = true
							changed = true
						} else if fa, ok := x.X.(*ssa.FieldAddr); ok && pointerLike(x.Type()) {
							if st := structOf(fa.X.Type()); st != nil && a.fields[fieldKey{st, fa.Field}] {
								D[x] = true
								changed = true
							}
						}
					}
				case *ssa.Phi:
					if !D[x] {
						for _, e := range x.Edges {
							if D[e] {
								D[x] = true
								changed = true
								break
							}
						}
					}
				case *ssa.ChangeType:
					if D[x.X] && !D[x] {
						D[x] = true
						changed = true
					}
				case *ssa.ChangeInterface:
					if D[x.X] && !D[x] {
						D[x] = true
						changed = true
					}
				case *ssa.MakeInterface:
					if D[x.X] && !D[x] {
						D[x] = true
						changed = true
					}
				case *ssa.TypeAssert:
					if D[x.X] && !D[x] {
						D[x] = true
						changed = true
					}
				case *ssa.Slice:
					if D[x.X] && !D[x] {
						D[x] = true
						changed = true
					}
				case *ssa.Extract:
					if ta, ok := x.Tuple.(*ssa.TypeAssert); ok && D[ta] && !D[x] && x.Index == 0 {
						D[x] = true
						changed = true
					}
				case *ssa.Store:
					// a shared pointer stored into a field of some object: that field carries shared state
					if D[x.Val] && pointerLike(x.Val.Type()) {
						if al, ok := x.Addr.(*ssa.Alloc); ok && !a.cells[fn][al] {
							a.addCell(fn, al)
							changed = true
						}
						if fa, ok := x.Addr.(*ssa.FieldAddr); ok {
							if st := structOf(fa.X.Type()); st != nil {
								k := fieldKey{st, fa.Field}
								if !a.fields[k] {
									a.fields[k] = true
									changed = true
									// every function that reads this field may now see shared state
									for _, f := range a.fieldReaders(k) {
										if a.derived[f] == nil {
											a.derived[f] = map[ssa.Value]bool{}
										}
										if !a.inQ[f] {
											a.inQ[f] = true
											a.queue = append(a.queue, f)
										}
									}
								}
							}
						}
					}
				case *ssa.MakeClosure:
					cf := x.Fn.(*ssa.Function)
					for i, bd := range x.Bindings {
						if D[bd] && i < len(cf.FreeVars) {
							a.add(cf, cf.FreeVars[i])
						}
						if a.cells[fn][bd] && i < len(cf.FreeVars) {
							a.addCell(cf, cf.FreeVars[i])
						}
					}
				}
				if c, ok := in.(ssa.CallInstruction); ok {
					a.propagateCall(fn, c, D)
				}
			}
		}
	}
}

func (a *sharedAnalysis) propagateCall(fn *ssa.Function, c ssa.CallInstruction, D map[ssa.Value]bool) {
	cc := c.Common()
	// sync.Once.Do(closure)
	if f := calleeFunc(c); f != nil && f.FullName() == "(*sync.Once).Do" && len(cc.Args) == 2 {
		if mc, ok := cc.Args[1].(*ssa.MakeClosure); ok {
			a.onceFns[mc.Fn.(*ssa.Function)] = true
		}
	}
	any := false
	if cc.IsInvoke() && D[cc.Value] {
		any = true
	}
	for _, arg := range cc.Args {
		if D[arg] {
			any = true
		}
	}
	if !cc.IsInvoke() && D[cc.Value] {
		any = true // calling a shared func value
	}
	if !any {
		return
	}
	for _, callee := range a.p.Callees(fn, c) {
		if !a.p.IsProd(callee) {
			if pk := fnPkgPath(callee); pk != "" && !isRepoPkgPath(pk) {
				a.thirdParty[pk] = true
			}
			continue
		}
		if len(callee.Blocks) == 0 {
			continue
		}
		if cc.IsInvoke() {
			if D[cc.Value] && len(callee.Params) > 0 {
				a.add(callee, callee.Params[0])
			}
			for i, arg := range cc.Args {
				if D[arg] && i+1 < len(callee.Params) {
					a.add(callee, callee.Params[i+1])
				}
			}
		} else {
			for i, arg := range cc.Args {
				if D[arg] && i < len(callee.Params) {
					a.add(callee, callee.Params[i])
				}
			}
			// closure called directly: its free vars were handled at MakeClosure
		}
	}
}

// ---------- lock state ----------

func isLockCall(c ssa.CallInstruction) (lock, unlock bool) {
	f := calleeFunc(c)
	if f == nil {
		return
	}
	switch f.FullName() {
	case "(*sync.Mutex).Lock", "(*sync.RWMutex).Lock":
		return true, false
	case "(*sync.Mutex).Unlock", "(*sync.RWMutex).Unlock":
		return false, true
	}
	return
}

// heldAt computes, for every instruction of fn, whether a mutex is held on all
// paths (must analysis). Deferred unlocks do not release before the function ends.
func heldAt(fn *ssa.Function, D map[ssa.Value]bool) map[ssa.Instruction]bool {
	in := make([]bool, len(fn.Blocks))
	out := make([]bool, len(fn.Blocks))
	for i := range in {
		in[i], out[i] = true, true
	}
	if len(fn.Blocks) > 0 {
		in[0] = false
	}
	transfer := func(b *ssa.BasicBlock, h bool, rec map[ssa.Instruction]bool) bool {
		for _, ins := range b.Instrs {
			if rec != nil {
				rec[ins] = h
			}
			if c, ok := ins.(*ssa.Call); ok {
				l, u := isLockCall(c)
				// only a mutex reached from the shared operands protects them
				if l && (D == nil || (len(c.Call.Args) > 0 && D[c.Call.Args[0]])) {
					h = true
				}
				if u {
					h = false
				}
			}
		}
		return h
	}
	for changed := true; changed; {
		changed = false
		for i, b := range fn.Blocks {
			h := true
			if i == 0 {
				h = false
			} else if len(b.Preds) == 0 {
				h = false
			}
			for _, p := range b.Preds {
				h = h && out[p.Index]
			}
			if i == 0 {
				h = false
			}
			o := transfer(b, h, nil)
			if h != in[i] || o != out[i] {
				in[i], out[i] = h, o
				changed = true
			}
		}
	}
	rec := map[ssa.Instruction]bool{}
	for i, b := range fn.Blocks {
		transfer(b, in[i], rec)
	}
	return rec
}

// ---------- go sites ----------

func inLoop(b *ssa.BasicBlock) bool {
	seen := map[*ssa.BasicBlock]bool{}
	stack := append([]*ssa.BasicBlock{}, b.Succs...)
	for len(stack) > 0 {
		x := stack[len(stack)-1]
		stack = stack[:len(stack)-1]
		if x == b {
			return true
		}
		if seen[x] {
			continue
		}
		seen[x] = true
		stack = append(stack, x.Succs...)
	}
	return false
}

// freshInLoop: v is an object created anew in every iteration of the loop that
// contains block lb (so instances do not share it).
func freshInLoop(v ssa.Value) bool {
	switch x := v.(type) {
	case *ssa.Alloc:
		return x.Heap && inLoop(x.Block())
	case *ssa.MakeSlice, *ssa.MakeMap, *ssa.MakeChan:
		return inLoop(x.(ssa.Instruction).Block())
	case *ssa.Call:
		return inLoop(x.Block())
	case *ssa.Extract:
		return freshInLoop(x.Tuple)
	case *ssa.Const:
		return true
	case *ssa.MakeInterface:
		return freshInLoop(x.X)
	case *ssa.ChangeType:
		return freshInLoop(x.X)
	}
	if !pointerLike(v.Type()) {
		return true
	}
	return false
}

type goSite struct {
	fn      *ssa.Function
	g       *ssa.Go
	why     string
	targets []*ssa.Function
	// for "called in loop" sites: only these params of fn are shared
	sharedParams []int
	root         *ssa.Function
}

type sharedWrite struct {
	fn   *ssa.Function
	in   ssa.Instruction
	desc string
	prot string
}

func describeAddr(addr ssa.Value) string {
	switch x := addr.(type) {
	case *ssa.FieldAddr:
		if st := structOf(x.X.Type()); st != nil {
			return "field " + shortType(derefType(x.X.Type())) + "." + st.Field(x.Field).Name()
		}
	case *ssa.FreeVar:
		return "captured variable " + x.Name()
	case *ssa.Global:
		return "global " + x.Name()
	case *ssa.Parameter:
		return "*" + x.Name()
	}
	return addr.Name()
}

func derefType(t types.Type) types.Type {
	if p, ok := t.Underlying().(*types.Pointer); ok {
		return p.Elem()
	}
	return t
}

// writesIn lists the unprotected-or-protected writes to shared state in fn.
func (a *sharedAnalysis) writesIn(fn *ssa.Function) []sharedWrite {
	D := a.derived[fn]
	if len(D) == 0 {
		return nil
	}
	held := heldAt(fn, D)
	var out []sharedWrite
	for _, b := range fn.Blocks {
		for _, in := range b.Instrs {
			switch x := in.(type) {
			case *ssa.Store:
				if !D[x.Addr] {
					continue
				}
				if _, isIdx := x.Addr.(*ssa.IndexAddr); isIdx {
					continue // per-slot element stores: documented under-approximation
				}
				w := sharedWrite{fn: fn, in: in, desc: describeAddr(x.Addr)}
				if held[in] {
					w.prot = "mutex held"
				} else if a.onceFns[fn] {
					w.prot = "inside sync.Once.Do"
				}
				out = append(out, w)
			case *ssa.MapUpdate:
				if !D[x.Map] {
					continue
				}
				w := sharedWrite{fn: fn, in: in, desc: "map " + x.Map.Name() + " (" + shortType(x.Map.Type()) + ")"}
				if held[in] {
					w.prot = "mutex held"
				} else if a.onceFns[fn] {
					w.prot = "inside sync.Once.Do"
				}
				out = append(out, w)
			}
		}
	}
	return out
}

func findGoSites(p *Program, pkgs map[string]bool) []goSite {
	var out []goSite
	for _, fn := range p.ProdFuncs() {
		if !pkgs[fnPkgPath(fn)] {
			continue
		}
		for _, b := range fn.Blocks {
			for _, in := range b.Instrs {
				g, ok := in.(*ssa.Go)
				if !ok {
					continue
				}
				targets := p.Callees(fn, g)
				if mc, ok := g.Call.Value.(*ssa.MakeClosure); ok {
					targets = []*ssa.Function{mc.Fn.(*ssa.Function)}
				}
				if inLoop(b) {
					out = append(out, goSite{fn: fn, g: g, why: "go statement inside a loop", targets: targets})
					continue
				}
				// enclosing function (or its caller) called inside a loop
				if root, sp, why := calledInLoop(p, fn, 2); why != "" {
					if sp == nil {
						sp = []int{}
					}
					out = append(out, goSite{fn: fn, g: g, why: "enclosing function reached from a loop: " + why, targets: targets, sharedParams: sp, root: root})
				}
			}
		}
	}
	sort.Slice(out, func(i, j int) bool { return out[i].g.Pos() < out[j].g.Pos() })
	return out
}

// calledInLoop: is fn called from a loop (depth 1) or is a caller of fn called from
// a loop (depth 2)? Returns the function that is called in the loop and the indices
// of its params whose actuals are not fresh per iteration.
func calledInLoop(p *Program, fn *ssa.Function, depth int) (*ssa.Function, []int, string) {
	n := p.CG.Nodes[fn]
	if n == nil || depth == 0 {
		return nil, nil, ""
	}
	var edges []*callSiteEdge
	for _, e := range n.In {
		if e.Site == nil || !p.IsProd(e.Caller.Func) {
			continue
		}
		if _, isGo := e.Site.(*ssa.Go); isGo {
			continue
		}
		edges = append(edges, &callSiteEdge{e.Caller.Func, e.Site})
	}
	sort.Slice(edges, func(i, j int) bool { return edges[i].site.Pos() < edges[j].site.Pos() })
	for _, e := range edges {
		if inLoop(e.site.Block()) {
			var sp []int
			args := e.site.Common().Args
			off := 0
			if e.site.Common().IsInvoke() {
				off = 1
				sp = append(sp, 0)
			}
			for i, a := range args {
				if !freshInLoop(a) && i+off < len(fn.Params) {
					sp = append(sp, i+off)
				}
			}
			return fn, sp, fmt.Sprintf("%s is called inside a loop at %s", funcName(fn), p.Rel(e.site.Pos()))
		}
	}
	for _, e := range edges {
		if e.caller == fn {
			continue
		}
		if root, sp, why := calledInLoop(p, e.caller, depth-1); why != "" {
			return root, sp, why
		}
	}
	return nil, nil, ""
}

type callSiteEdge struct {
	caller *ssa.Function
	site   ssa.CallInstruction
}

func runSharedWrite(p *Program, r *RuleResult, pkgs map[string]bool) {
	sites := findGoSites(p, pkgs)
	r.Analysed = len(sites)
	for i, gs := range sites {
		a := newSharedAnalysis(p)
		siteKey := fmt.Sprintf("%s|go#%d", funcName(gs.fn), goOrdinal(gs.fn, gs.g))
		_ = i
		if gs.sharedParams != nil {
			for _, pi := range gs.sharedParams {
				if pi < len(gs.root.Params) && pointerLike(gs.root.Params[pi].Type()) {
					a.add(gs.root, gs.root.Params[pi])
				}
			}
			a.run()
		} else {
			cc := gs.g.Common()
			for _, t := range gs.targets {
				if !p.IsProd(t) || len(t.Blocks) == 0 {
					continue
				}
				if mc, ok := cc.Value.(*ssa.MakeClosure); ok {
					for k, bd := range mc.Bindings {
						if !freshInLoop(bd) && k < len(t.FreeVars) {
							a.add(t, t.FreeVars[k])
						}
					}
				}
				off := 0
				if cc.IsInvoke() {
					off = 1
					if !freshInLoop(cc.Value) && len(t.Params) > 0 {
						a.add(t, t.Params[0])
					}
				}
				for k, arg := range cc.Args {
					if !freshInLoop(arg) && k+off < len(t.Params) && pointerLike(arg.Type()) {
						a.add(t, t.Params[k+off])
					}
				}
			}
			a.run()
		}
		// only functions that execute inside the goroutine count: reachable from the targets
		inG := p.Reachable(p.CG, gs.targets...)
		nW := 0
		var fns []*ssa.Function
		for f := range a.derived {
			if inG[f] {
				fns = append(fns, f)
			}
		}
		sort.Slice(fns, func(i, j int) bool { return fns[i].String() < fns[j].String() })
		{
			var names []string
			for _, f := range fns {
				names = append(names, funcName(f))
			}
			r.note("%s reaches with shared operands: %s", siteKey, strings.Join(names, ", "))
		}
		ord := map[string]int{}
		// fields written under a lock by the workers must also be read under it by the workers
		guarded := map[fieldKey]string{}
		for _, f := range fns {
			for _, w := range a.writesIn(f) {
				if w.prot == "mutex held" {
					if st, ok := w.in.(*ssa.Store); ok {
						if fa, ok := st.Addr.(*ssa.FieldAddr); ok {
							if stt := structOf(fa.X.Type()); stt != nil {
								guarded[fieldKey{stt, fa.Field}] = w.desc
							}
						}
					}
				}
			}
		}
		for _, f := range fns {
			D := a.derived[f]
			held := heldAt(f, D)
			nr := 0
			for _, b := range f.Blocks {
				for _, in := range b.Instrs {
					u, ok := in.(*ssa.UnOp)
					if !ok || u.Op != token.MUL {
						continue
					}
					fa, ok := u.X.(*ssa.FieldAddr)
					if !ok || !D[fa] {
						continue
					}
					stt := structOf(fa.X.Type())
					if stt == nil {
						continue
					}
					desc, isG := guarded[fieldKey{stt, fa.Field}]
					if !isG {
						continue
					}
					k := fmt.Sprintf("%s|%s|read %s#%d", siteKey, funcName(f), desc, nr)
					nr++
					what := "read of a lock-guarded shared field by a worker happens under the lock: " + desc
					if held[in] {
						r.okWhy(k, p.Rel(u.Pos()), what, "mutex held")
					} else {
						r.bad(k, p.Rel(u.Pos()), what, "the field is written by other workers under the mutex but read here without it (e.g. indexing a slice whose header another worker is replacing)")
					}
				}
			}
		}
		for _, f := range fns {
			for _, w := range a.writesIn(f) {
				nW++
				base := fmt.Sprintf("%s|%s|%s", siteKey, funcName(f), w.desc)
				k := base
				if ord[base] > 0 {
					k = fmt.Sprintf("%s#%d", base, ord[base])
				}
				ord[base]++
				what := "write to state shared by concurrently running instances of the goroutine is synchronised: " + w.desc
				if w.prot != "" {
					r.okWhy(k, p.Rel(w.in.Pos()), what, w.prot)
				} else {
					r.bad(k, p.Rel(w.in.Pos()), what, fmt.Sprintf("%s (%s): two instances executing this unprotected write lose an update or race under some schedule", gs.why, p.Rel(gs.g.Pos())))
				}
			}
		}
		var tp []string
		for k := range a.thirdParty {
			tp = append(tp, k)
		}
		sort.Strings(tp)
		r.okWhy(siteKey, p.Rel(gs.g.Pos()), fmt.Sprintf("go site analysed (%s): %d functions reached with shared operands, %d shared writes", gs.why, len(fns), nW),
			"calls into third-party packages assumed goroutine-safe: "+strings.Join(shortList(tp, 8), ", "))
	}
}

func goOrdinal(fn *ssa.Function, g *ssa.Go) int {
	n := 0
	for _, b := range fn.Blocks {
		for _, in := range b.Instrs {
			if x, ok := in.(*ssa.Go); ok {
				if x == g {
					return n
				}
				n++
			}
		}
	}
	return 0
}

func init() {
	register(&Rule{
		ID: "C16-b", Template: "frozen table of concurrently-shared fields",
		Doc: "progress.SingleTracker.current and .total are read by the ticker goroutine that Start launches while differ goroutines write them through SetCurrent/Add/SetTotal: every access anywhere in production code is a sync/atomic operation (construction of a fresh tracker excepted).",
		Min: 6,
		Run: func(p *Program, r *RuleResult) error {
			var fields []*types.Var
			for _, n := range []string{"current", "total"} {
				f, err := p.Field("pkg/progress.SingleTracker." + n)
				if err != nil {
					return err
				}
				fields = append(fields, f)
			}
			fns := p.ProdFuncs()
			r.Analysed = len(fns)
			for _, fn := range fns {
				n := 0
				for _, b := range fn.Blocks {
					for _, in := range b.Instrs {
						fa, ok := in.(*ssa.FieldAddr)
						if !ok {
							continue
						}
						fv := structField(fa.X.Type(), fa.Field)
						if fv != fields[0] && fv != fields[1] {
							continue
						}
						key := fmt.Sprintf("%s|SingleTracker.%s#%d", funcName(fn), fv.Name(), n)
						n++
						what := "access to SingleTracker." + fv.Name() + " is atomic"
						if al, ok := fa.X.(*ssa.Alloc); ok && al.Heap {
							r.okWhy(key, p.Rel(fa.Pos()), what, "initialisation of a freshly allocated tracker (not yet shared)")
							continue
						}
						bad := ""
						for _, ref := range *fa.Referrers() {
							switch x := ref.(type) {
							case ssa.CallInstruction:
								f := calleeFunc(x)
								if f == nil || f.Pkg() == nil || f.Pkg().Path() != "sync/atomic" {
									bad = "address passed to a non-atomic function"
								}
							case *ssa.UnOp:
								bad = "plain load"
							case *ssa.Store:
								bad = "plain store"
							case *ssa.DebugRef:
							default:
								bad = fmt.Sprintf("used by %T", ref)
							}
						}
						if bad != "" {
							r.bad(key, p.Rel(fa.Pos()), what, bad+": the ticker goroutine started by Start reads this field while differ goroutines write it — a data race")
						} else {
							r.ok(key, p.Rel(fa.Pos()), what)
						}
					}
				}
			}
			return nil
		},
	})
	register(&Rule{
		ID: "C16-a", Template: "T9 shared-write",
		Doc: "For every go statement of the ingest / sorter / diff / merge / progress / pbar packages that starts several instances of the same function on shared operands (go inside a loop, or inside a function that is itself called in a loop), every write to state reached from the shared operands is atomic, made while a mutex is held, a channel operation, or inside sync.Once.Do.",
		Min: 2,
		Run: func(p *Program, r *RuleResult) error {
			if _, err := p.Func("pkg/ingest.(*Inserter).IngestTableFromSorter"); err != nil {
				return err
			}
			runSharedWrite(p, r, pkgSet("pkg/ingest", "pkg/sorter", "pkg/diff", "pkg/merge", "pkg/progress", "pkg/pbar", "cmd/wrgl"))
			return nil
		},
	})
}

func isErrChan(t types.Type) bool {
	ch, ok := t.Underlying().(*types.Chan)
	return ok && isErrorType(ch.Elem())
}

func init() {
	register(&Rule{
		ID: "C16-c", Template: "agreement (channel capacity vs. producers) + T2",
		Doc: "Worker pools (go statement in a loop) that report failures on an error channel: the channel created in the launching function has the same capacity operand as the loop's bound (one slot per worker), and a worker never sends twice on one execution path — otherwise a failing worker blocks before wg.Done and the caller hangs.",
		Min: 2,
		Run: func(p *Program, r *RuleResult) error {
			sites := findGoSites(p, pkgSet("pkg/ingest", "pkg/sorter", "pkg/diff", "pkg/merge"))
			r.Analysed = len(sites)
			for _, gs := range sites {
				if gs.sharedParams != nil {
					continue // not a pool
				}
				fn := gs.fn
				siteKey := fmt.Sprintf("%s|go#%d", funcName(fn), goOrdinal(fn, gs.g))
				// sends in the worker
				for _, t := range gs.targets {
					if !p.IsProd(t) {
						continue
					}
					var sends []*ssa.Send
					for _, b := range t.Blocks {
						for _, in := range b.Instrs {
							if s, ok := in.(*ssa.Send); ok && isErrChan(s.Chan.Type()) {
								sends = append(sends, s)
							}
						}
					}
					for k, s := range sends {
						key := fmt.Sprintf("%s|%s|send#%d", siteKey, funcName(t), k)
						what := "a worker sends at most one error per execution path"
						bad := false
						for _, s2 := range sends {
							if path, reach := reachAfter(t, s, s2, nil, nil); reach {
								r.bad(key, p.Rel(s.Pos()), what, fmtPath("another send on the error channel is reachable after this one", path))
								bad = true
								break
							}
						}
						if !bad {
							r.ok(key, p.Rel(s.Pos()), what)
						}
					}
					if len(sends) == 0 {
						continue
					}
					// capacity vs loop bound in the launcher
					key := siteKey + "|errchan-capacity"
					what := "error channel capacity equals the number of workers launched"
					var mk *ssa.MakeChan
					for _, b := range fn.Blocks {
						for _, in := range b.Instrs {
							if m, ok := in.(*ssa.MakeChan); ok && isErrChan(m.Type()) {
								mk = m
							}
						}
					}
					if mk == nil {
						r.bad(key, p.Rel(gs.g.Pos()), what, "the launching function does not create the error channel (capacity unknown)")
						continue
					}
					bound := loopBound(gs.g.Block())
					if bound == nil {
						r.bad(key, p.Rel(gs.g.Pos()), what, "cannot identify the bound of the launching loop")
						continue
					}
					if !sameObject(stripConv(mk.Size), stripConv(bound)) {
						r.bad(key, p.Rel(mk.Pos()), what, "the capacity operand and the loop bound are different values: with fewer slots than workers a second failing worker blocks forever")
						continue
					}
					// no store to that variable between the two reads
					if u, ok := stripConv(bound).(*ssa.UnOp); ok {
						stored := false
						for _, b := range fn.Blocks {
							for _, in := range b.Instrs {
								if st, ok := in.(*ssa.Store); ok && sameAddr(st.Addr, u.X) {
									if _, after := reachAfter(fn, mk, st, nil, nil); after {
										stored = true
									}
								}
							}
						}
						if stored {
							r.bad(key, p.Rel(mk.Pos()), what, "the worker count is modified after the channel was sized")
							continue
						}
					}
					r.ok(key, p.Rel(mk.Pos()), what)
				}
			}
			return nil
		},
	})

	register(&Rule{
		ID: "C16-d", Template: "T5 error-drop (goroutine bodies)",
		Doc: "No error returned by a repo function is dropped inside a function that runs in a goroutine of the ingest / sorter / diff / merge pipelines: every error there must reach the caller (through the error channel or a return).",
		Min: 20,
		Run: func(p *Program, r *RuleResult) error {
			pk := pkgSet("pkg/ingest", "pkg/sorter", "pkg/diff", "pkg/merge")
			var roots []*ssa.Function
			for _, fn := range p.ProdFuncs() {
				if !pk[fnPkgPath(fn)] {
					continue
				}
				for _, b := range fn.Blocks {
					for _, in := range b.Instrs {
						if g, ok := in.(*ssa.Go); ok {
							if mc, ok := g.Call.Value.(*ssa.MakeClosure); ok {
								roots = append(roots, mc.Fn.(*ssa.Function))
							} else {
								roots = append(roots, p.Callees(fn, g)...)
							}
						}
					}
				}
			}
			if len(roots) == 0 {
				return &AnchorError{"go statements in the pipeline packages"}
			}
			scopePk := pkgSet("pkg/ingest", "pkg/sorter", "pkg/diff", "pkg/merge", "pkg/objects", "pkg/index", "pkg/slice")
			var scope []*ssa.Function
			for f := range p.Reachable(p.CG, roots...) {
				if p.IsProd(f) && scopePk[fnPkgPath(f)] {
					scope = append(scope, f)
				}
			}
			sort.Slice(scope, func(i, j int) bool { return scope[i].String() < scope[j].String() })
			runErrorDrop(p, r, scope, func(f *types.Func) bool { return isRepoPkgPath(pkgOfFunc(f)) }, []t5Exception{
				{caller: "", callee: "(*pkg/objects.BlockIndex).WriteTo", writerIsBytesBuffer: true,
					reason: "writes into a *bytes.Buffer, whose Write never fails; WriteTo's only error source is w.Write"},
			})
			return nil
		},
	})
}

// loopBound: for a block inside a counted loop, the value the induction variable is
// compared against in the loop's controlling If.
func loopBound(b *ssa.BasicBlock) ssa.Value {
	// find Ifs in the same cycle whose condition compares a φ with something
	seen := map[*ssa.BasicBlock]bool{}
	stack := []*ssa.BasicBlock{b}
	var cyc []*ssa.BasicBlock
	for len(stack) > 0 {
		x := stack[len(stack)-1]
		stack = stack[:len(stack)-1]
		if seen[x] {
			continue
		}
		seen[x] = true
		if blockReachesBlock(x, b) {
			cyc = append(cyc, x)
			stack = append(stack, x.Succs...)
		}
	}
	for _, x := range cyc {
		if len(x.Instrs) == 0 {
			continue
		}
		ifi, ok := x.Instrs[len(x.Instrs)-1].(*ssa.If)
		if !ok {
			continue
		}
		bo, ok := ifi.Cond.(*ssa.BinOp)
		if !ok {
			continue
		}
		if _, isPhi := bo.X.(*ssa.Phi); isPhi && (bo.Op == token.LSS || bo.Op == token.LEQ || bo.Op == token.NEQ) {
			return bo.Y
		}
		if _, isPhi := bo.Y.(*ssa.Phi); isPhi && (bo.Op == token.GTR || bo.Op == token.GEQ || bo.Op == token.NEQ) {
			return bo.X
		}
	}
	return nil
}

func blockReachesBlock(from, to *ssa.BasicBlock) bool {
	seen := map[*ssa.BasicBlock]bool{}
	stack := append([]*ssa.BasicBlock{}, from.Succs...)
	for len(stack) > 0 {
		x := stack[len(stack)-1]
		stack = stack[:len(stack)-1]
		if x == to {
			return true
		}
		if seen[x] {
			continue
		}
		seen[x] = true
		stack = append(stack, x.Succs...)
	}
	return false
}
