package main

// T6 taint → sink: integers decoded from stream bytes must not size an allocation
// without a bound. Interprocedural over the hostile-reachable set H by parameter,
// result and (type-based) field summaries, to a fixed point.

import (
	"fmt"
	"go/constant"
	"go/token"
	"go/types"
	"sort"

	"golang.org/x/tools/go/ssa"
)

func intBits(t types.Type) int {
	b, ok := t.Underlying().(*types.Basic)
	if !ok {
		return 0
	}
	switch b.Kind() {
	case types.Int8, types.Uint8:
		return 8
	case types.Int16, types.Uint16:
		return 16
	case types.Int32, types.Uint32:
		return 32
	case types.Int, types.Uint, types.Int64, types.Uint64, types.Uintptr:
		return 64
	case types.Float32, types.Float64:
		return 64
	}
	return 0
}

type taint struct {
	p       *Program
	H       map[*ssa.Function]bool
	tainted map[*ssa.Function]map[ssa.Value]bool
	fields  map[fieldKey]bool
	// function results that are tainted: fn -> result index set
	results map[*ssa.Function]map[int]bool
	// params through which the function writes a tainted value (*p = tainted)
	outParams map[*ssa.Function]map[int]bool
	changed   bool
	// bounded edges per function and value
	bcache map[*ssa.Function]map[ssa.Value][]edge
	// anyConst: boundedEdges accepts constants above maxSaneBound (sign-flip checks)
	anyConst bool
}

func newTaint(p *Program, H map[*ssa.Function]bool) *taint {
	return &taint{p: p, H: H, tainted: map[*ssa.Function]map[ssa.Value]bool{}, fields: map[fieldKey]bool{},
		results: map[*ssa.Function]map[int]bool{}, outParams: map[*ssa.Function]map[int]bool{}, bcache: map[*ssa.Function]map[ssa.Value][]edge{}}
}

func (t *taint) mark(fn *ssa.Function, v ssa.Value) {
	if v == nil {
		return
	}
	if _, isConst := v.(*ssa.Const); isConst {
		return
	}
	if b := intBits(v.Type()); b == 0 || b <= 16 {
		// only integers wider than 16 bits can carry an unbounded count
		if b != 0 {
			return
		}
		// non-integer values (tuples, pointers) are not tracked
		if _, isTuple := v.Type().(*types.Tuple); !isTuple {
			return
		}
	}
	m := t.tainted[fn]
	if m == nil {
		m = map[ssa.Value]bool{}
		t.tainted[fn] = m
	}
	if !m[v] {
		m[v] = true
		t.changed = true
	}
}

func isBigEndianWide(c *ssa.Call) bool {
	f := calleeFunc(c)
	if f == nil || f.Pkg() == nil || f.Pkg().Path() != "encoding/binary" {
		return false
	}
	switch f.Name() {
	case "Uint32", "Uint64":
		return true
	case "Uvarint", "Varint", "ReadUvarint", "ReadVarint":
		return true
	}
	return false
}

func byteElemLoad(v ssa.Value) bool {
	v = stripConv(v)
	for {
		switch x := v.(type) {
		case *ssa.BinOp:
			if x.Op == token.AND || x.Op == token.OR {
				if _, isConst := x.Y.(*ssa.Const); isConst {
					v = stripConv(x.X)
					continue
				}
			}
			return false
		case *ssa.UnOp:
			if x.Op != token.MUL {
				return false
			}
			ia, ok := x.X.(*ssa.IndexAddr)
			if !ok {
				return false
			}
			tt := ia.X.Type().Underlying()
			if pt, ok := tt.(*types.Pointer); ok {
				tt = pt.Elem().Underlying()
			}
			switch s := tt.(type) {
			case *types.Slice:
				return isByte(s.Elem())
			case *types.Array:
				return isByte(s.Elem())
			}
			return false
		default:
			return false
		}
	}
}

// boundedEdges: CFG edges on which value v (or the value it was converted from) is
// known to be ≤ some constant / len(x) / untainted value.
func (t *taint) boundedEdges(fn *ssa.Function, v ssa.Value) []edge {
	return t.boundedEdgesOpt(fn, v, true)
}

// boundedEdgesOpt: with sane=false any constant counts as a bound (enough to rule
// out a sign flip, not enough to limit an allocation).
func (t *taint) boundedEdgesOpt(fn *ssa.Function, v ssa.Value, sane bool) []edge {
	if !sane {
		saved := t.bcache
		t.bcache = map[*ssa.Function]map[ssa.Value][]edge{}
		t.anyConst = true
		out := t.boundedEdgesOpt(fn, v, true)
		t.anyConst = false
		t.bcache = saved
		return out
	}
	if m := t.bcache[fn]; m != nil {
		if e, ok := m[v]; ok {
			return e
		}
	} else {
		t.bcache[fn] = map[ssa.Value][]edge{}
	}
	// values equivalent to v for comparison purposes: v and what it converts from/to
	eq := map[ssa.Value]bool{v: true}
	for x := stripConvKeep(v); x != nil; x = stripConvKeep(x) {
		if eq[x] && x != v {
			break
		}
		eq[x] = true
		if x == stripConv(x) {
			break
		}
	}
	eq[stripConv(v)] = true
	// conversions of the same base
	if refs := stripConv(v).Referrers(); refs != nil {
		for _, r := range *refs {
			if cv, ok := r.(*ssa.Convert); ok {
				eq[cv] = true
			}
		}
	}
	tv := t.tainted[fn]
	var out []edge
	for _, b := range fn.Blocks {
		if len(b.Instrs) == 0 {
			continue
		}
		ifi, ok := b.Instrs[len(b.Instrs)-1].(*ssa.If)
		if !ok {
			continue
		}
		cond := ifi.Cond
		neg := false
		for {
			if u, ok := cond.(*ssa.UnOp); ok && u.Op == token.NOT {
				neg = !neg
				cond = u.X
				continue
			}
			break
		}
		bo, ok := cond.(*ssa.BinOp)
		if !ok {
			continue
		}
		var op token.Token
		var other ssa.Value
		switch {
		case eq[bo.X] || eq[stripConv(bo.X)]:
			op, other = bo.Op, bo.Y
		case eq[bo.Y] || eq[stripConv(bo.Y)]:
			other = bo.X
			switch bo.Op {
			case token.LSS:
				op = token.GTR
			case token.LEQ:
				op = token.GEQ
			case token.GTR:
				op = token.LSS
			case token.GEQ:
				op = token.LEQ
			default:
				op = bo.Op
			}
		default:
			continue
		}
		if tv[other] || tv[stripConv(other)] {
			continue // compared against another attacker-controlled number
		}
		if k, isConst := constUint(stripConv(other)); isConst && k > maxSaneBound && !t.anyConst {
			continue // a "bound" like math.MaxInt64 does not limit an allocation
		}
		var succ int
		switch op {
		case token.GTR, token.GEQ: // v > k : false edge is the small side
			succ = 1
		case token.LSS, token.LEQ:
			succ = 0
		default:
			continue
		}
		if neg {
			succ = 1 - succ
		}
		out = append(out, edge{b, succ})
	}
	t.bcache[fn][v] = out
	return out
}

// maxSaneBound: a constant bound larger than this does not count as limiting an allocation.
const maxSaneBound = 1 << 24

func constUint(v ssa.Value) (uint64, bool) {
	c, ok := v.(*ssa.Const)
	if !ok || c.Value == nil {
		return 0, false
	}
	if c.Value.Kind() != constant.Int {
		if c.Value.Kind() == constant.Float {
			f, _ := constant.Float64Val(c.Value)
			if f < 0 {
				return 0, true
			}
			if f > 1e19 {
				return 1 << 63, true
			}
			return uint64(f), true
		}
		return 0, false
	}
	if u, exact := constant.Uint64Val(c.Value); exact {
		return u, true
	}
	if i, exact := constant.Int64Val(c.Value); exact && i < 0 {
		return 0, true
	}
	return 1 << 63, true
}

func stripConvKeep(v ssa.Value) ssa.Value {
	switch x := v.(type) {
	case *ssa.Convert:
		return x.X
	case *ssa.ChangeType:
		return x.X
	}
	return nil
}

func (t *taint) step(fn *ssa.Function) {
	tv := t.tainted[fn]
	get := func(v ssa.Value) bool { return tv != nil && tv[v] }
	for _, b := range fn.Blocks {
		for _, in := range b.Instrs {
			switch x := in.(type) {
			case *ssa.Call:
				if isBigEndianWide(x) {
					if _, isTuple := x.Type().(*types.Tuple); isTuple {
						for _, ref := range *x.Referrers() {
							if ex, ok := ref.(*ssa.Extract); ok && ex.Index == 0 {
								t.mark(fn, ex)
							}
						}
					} else {
						t.mark(fn, x)
					}
				}
				// math.* and conversions keep the magnitude
				if f := calleeFunc(x); f != nil && f.Pkg() != nil && f.Pkg().Path() == "math" {
					for _, a := range x.Call.Args {
						if get(a) {
							t.mark(fn, x)
						}
					}
				}
				// calls to repo functions in H
				for _, callee := range t.p.Callees(fn, x) {
					if !t.H[callee] {
						continue
					}
					off := 0
					if x.Call.IsInvoke() {
						off = 1
					}
					for i, a := range x.Call.Args {
						if get(a) && i+off < len(callee.Params) {
							t.mark(callee, callee.Params[i+off])
						}
					}
					for ri := range t.results[callee] {
						if x.Type() != nil {
							if _, isTuple := x.Type().(*types.Tuple); isTuple {
								for _, ref := range *x.Referrers() {
									if ex, ok := ref.(*ssa.Extract); ok && ex.Index == ri {
										t.mark(fn, ex)
									}
								}
							} else if ri == 0 {
								t.mark(fn, x)
							}
						}
					}
					for pi := range t.outParams[callee] {
						ai := pi - off
						if ai >= 0 && ai < len(x.Call.Args) {
							if fa, ok := x.Call.Args[ai].(*ssa.FieldAddr); ok {
								if st := structOf(fa.X.Type()); st != nil {
									k := fieldKey{st, fa.Field}
									if !t.fields[k] {
										t.fields[k] = true
										t.changed = true
									}
								}
							}
							if fv, ok := x.Call.Args[ai].(*ssa.FreeVar); ok {
								// captured variable filled by the callee: every load of the cell is tainted
								if cell := cellOf(fv); cell != nil {
									for _, acc := range cellAccessors(cell) {
										if acc.Referrers() == nil {
											continue
										}
										for _, ref := range *acc.Referrers() {
											if u, ok := ref.(*ssa.UnOp); ok && u.Op == token.MUL {
												t.mark(u.Parent(), u)
											}
										}
									}
								}
							}
							if al, ok := x.Call.Args[ai].(*ssa.Alloc); ok {
								// local variable filled by the callee: its loads are tainted
								for _, ref := range *al.Referrers() {
									if u, ok := ref.(*ssa.UnOp); ok && u.Op == token.MUL {
										t.mark(fn, u)
									}
								}
							}
						}
					}
				}
			case *ssa.Convert:
				if get(x.X) {
					t.mark(fn, x)
				}
			case *ssa.ChangeType:
				if get(x.X) {
					t.mark(fn, x)
				}
			case *ssa.BinOp:
				switch x.Op {
				case token.ADD, token.SUB, token.MUL, token.QUO, token.OR, token.XOR, token.SHL:
					if get(x.X) || get(x.Y) {
						t.mark(fn, x)
					}
					if x.Op == token.SHL && byteElemLoad(x.X) {
						if _, constShift := x.Y.(*ssa.Const); !constShift {
							t.mark(fn, x) // varint accumulation with a growing shift
						}
					}
				case token.REM, token.AND, token.SHR:
					if get(x.X) && (x.Op == token.SHR) {
						t.mark(fn, x)
					}
				}
			case *ssa.Phi:
				for k, e := range x.Edges {
					if !get(e) {
						continue
					}
					// a tainted operand that arrives over an edge on which it is bounded does not taint the φ
					pred := x.Block().Preds[k]
					bounded := false
					for _, be := range t.boundedEdges(fn, e) {
						if be.from == pred && pred.Succs[be.succ] == x.Block() {
							bounded = true
						}
					}
					// a bound established earlier on every path to this predecessor
					if !bounded && len(pred.Instrs) > 0 {
						if _, reach := reachAfter(fn, nil, pred.Instrs[len(pred.Instrs)-1], mkCut(t.boundedEdges(fn, e)), nil); !reach {
							bounded = true
						}
					}
					if !bounded {
						t.mark(fn, x)
					}
				}
			case *ssa.Extract:
				// handled at the call
			case *ssa.UnOp:
				if x.Op == token.MUL {
					if fa, ok := x.X.(*ssa.FieldAddr); ok {
						if st := structOf(fa.X.Type()); st != nil && t.fields[fieldKey{st, fa.Field}] {
							t.mark(fn, x)
						}
					}
					if al, ok := x.X.(*ssa.Alloc); ok {
						for _, ref := range *al.Referrers() {
							if st, ok := ref.(*ssa.Store); ok && st.Addr == al && get(st.Val) {
								t.mark(fn, x)
							}
						}
					}
					if cell := cellOf(x.X); cell != nil && cell != x.X {
						for _, st := range cellStores(cell) {
							if tm := t.tainted[st.Parent()]; tm != nil && tm[st.Val] {
								t.mark(fn, x)
							}
						}
					}
				} else if get(x.X) {
					t.mark(fn, x)
				}
			case *ssa.Field:
				if st := structOf(x.X.Type()); st != nil && t.fields[fieldKey{st, x.Field}] {
					t.mark(fn, x)
				}
			case *ssa.Store:
				if !get(x.Val) {
					continue
				}
				switch a := x.Addr.(type) {
				case *ssa.FieldAddr:
					if st := structOf(a.X.Type()); st != nil {
						k := fieldKey{st, a.Field}
						if !t.fields[k] {
							t.fields[k] = true
							t.changed = true
						}
					}
				case *ssa.Parameter:
					for i, par := range fn.Params {
						if par == a {
							if t.outParams[fn] == nil {
								t.outParams[fn] = map[int]bool{}
							}
							if !t.outParams[fn][i] {
								t.outParams[fn][i] = true
								t.changed = true
							}
						}
					}
				}
			case *ssa.Return:
				for i := range x.Results {
					v := retVal(x, i)
					if !get(v) && get(x.Results[i]) {
						v = x.Results[i]
					}
					if get(v) {
						// a value returned only on a path that bounds it is not an unbounded result
						cut := mkCut(t.boundedEdges(fn, v), t.boundedEdges(fn, stripConv(v)))
						if _, reach := reachAfter(fn, nil, x, cut, nil); !reach {
							continue
						}
						if t.results[fn] == nil {
							t.results[fn] = map[int]bool{}
						}
						if !t.results[fn][i] {
							t.results[fn][i] = true
							t.changed = true
						}
					}
				}
			}
		}
	}
}

func (t *taint) run() {
	fns := sortedFuncs(t.H)
	for round := 0; round < 30; round++ {
		t.changed = false
		for _, fn := range fns {
			t.step(fn)
		}
		if !t.changed {
			break
		}
	}
}

// hostileReachable: production functions reachable from the decoder entry points.
func hostileReachable(p *Program) (map[*ssa.Function]bool, []string, error) {
	specs := []string{
		"pkg/encoding/packfile.NewPackfileReader", "pkg/encoding/packfile.(*PackfileReader).ReadObject",
		"pkg/objects.ReadBlockFrom", "pkg/objects.ReadTableFrom", "pkg/objects.ReadCommitFrom", "pkg/objects.ReadBlockIndex",
		"pkg/objects.(*TableProfile).ReadFrom", "pkg/objects.(*StrListDecoder).Read", "pkg/objects.(*StrListDecoder).ReadBytes",
		"pkg/objects.(*StrListDecoder).Decode", "pkg/objects.ValidateBlockBytes", "pkg/objects.ValidateStrListBytes",
		"pkg/encoding/pktline.ReadPktLine", "pkg/api/utils.(*ObjectReceiver).Receive",
		"pkg/objects.GetTable", "pkg/objects.GetCommit", "pkg/objects.GetBlock", "pkg/objects.GetBlockIndex", "pkg/objects.GetTableIndex", "pkg/objects.GetTableProfile",
	}
	var roots []*ssa.Function
	for _, s := range specs {
		fn, err := p.SSAFunc(s)
		if err != nil {
			return nil, nil, err
		}
		roots = append(roots, fn)
	}
	H := map[*ssa.Function]bool{}
	for f := range p.Reachable(p.CG, roots...) {
		if p.IsProd(f) {
			H[f] = true
		}
	}
	return H, specs, nil
}

func init() {
	register(&Rule{
		ID: "C17-a", Template: "T6 taint → sink (allocation bound)",
		Doc: "In every function reachable from the decoder entry points and ObjectReceiver.Receive, an integer decoded from stream bytes (binary.BigEndian.Uint32/Uint64, varint accumulation) that is wider than 16 bits never sizes an allocation (make length/capacity) unless a comparison against a constant, a length or an untainted value bounds it on every path: a hostile count must not allocate memory out of proportion to the input.",
		Min: 10,
		Run: func(p *Program, r *RuleResult) error {
			H, specs, err := hostileReachable(p)
			if err != nil {
				return err
			}
			r.Analysed = len(H)
			r.note("hostile-reachable set: %d functions from %d entry points", len(H), len(specs))
			t := newTaint(p, H)
			t.run()
			var fkeys []string
			for k := range t.fields {
				if k.idx < k.st.NumFields() {
					fkeys = append(fkeys, k.st.Field(k.idx).Name())
				}
			}
			sort.Strings(fkeys)
			r.note("struct fields carrying stream-decoded counts: %v", fkeys)
			for _, fn := range sortedFuncs(H) {
				tv := t.tainted[fn]
				n := 0
				for _, b := range fn.Blocks {
					for _, in := range b.Instrs {
						var sizes []ssa.Value
						var kind string
						switch x := in.(type) {
						case *ssa.MakeSlice:
							sizes = []ssa.Value{x.Len, x.Cap}
							kind = "make(" + shortType(x.Type()) + ")"
						case *ssa.MakeMap:
							if x.Reserve != nil {
								sizes = []ssa.Value{x.Reserve}
							}
							kind = "make(" + shortType(x.Type()) + ")"
						case *ssa.Call:
							f := calleeFunc(x)
							if f == nil || f.Name() != "Grow" || f.Pkg() == nil {
								continue
							}
							switch f.Pkg().Path() {
							case "bytes", "strings", "slices", "bufio":
							default:
								continue
							}
							sizes = []ssa.Value{x.Call.Args[len(x.Call.Args)-1]}
							kind = shortObj(f)
						default:
							continue
						}
						key := fmt.Sprintf("%s|%s#%d", funcName(fn), kind, n)
						n++
						what := "allocation size is not an unbounded number decoded from the stream"
						var badv ssa.Value
						for _, s := range sizes {
							if s == nil {
								continue
							}
							if tv != nil && (tv[s] || tv[stripConv(s)]) {
								cut := mkCut(t.boundedEdges(fn, s), t.boundedEdges(fn, stripConv(s)))
								if _, reach := reachAfter(fn, nil, in, cut, nil); reach {
									badv = s
								}
							}
						}
						// a bound on one factor does not bound a product with another
						// input-dependent quantity
						if badv == nil {
							for _, s := range sizes {
								if s == nil {
									continue
								}
								mul, ok := stripConv(s).(*ssa.BinOp)
								if !ok || mul.Op != token.MUL {
									continue
								}
								_, c1 := constInt(mul.X)
								_, c2 := constInt(mul.Y)
								if c1 || c2 {
									continue
								}
								streamy := func(v ssa.Value) bool {
									for x := range backwardCalls(v) {
										if tv != nil && tv[x] {
											return true
										}
									}
									return false
								}
								lenOfDecoded := func(v ssa.Value) bool {
									x := lenArgOf(v)
									if x == nil {
										return false
									}
									for y := range backward(x, nil) {
										if c, ok := y.(*ssa.Call); ok {
											if sc := c.Call.StaticCallee(); sc != nil && t.H[sc] {
												return true
											}
										}
									}
									return false
								}
								if (streamy(mul.X) && (streamy(mul.Y) || lenOfDecoded(mul.Y))) || (streamy(mul.Y) && lenOfDecoded(mul.X)) {
									r.bad(key, p.Rel(in.Pos()), what, fmt.Sprintf("the size is a product %s × %s of a (capped) count from the stream and another input-dependent quantity: each factor is bounded on its own, the allocation is not in proportion to the input", mul.X.Name(), mul.Y.Name()))
									badv = nil
									goto next
								}
							}
						}
						// a growth loop: the allocation doubles a buffer until it holds n bytes — its
						// size is not derived from n, the number of doublings is (round 7, C17-r7m1)
						if badv == nil && tv != nil {
							if _, isMake := in.(*ssa.MakeSlice); isMake {
								if hdr := enclosingLoop(in.Block()); hdr != nil {
									for e := range loopExitEdges(hdr) {
										ifi, ok := e.from.Instrs[len(e.from.Instrs)-1].(*ssa.If)
										if !ok {
											continue
										}
										cmp, ok := ifi.Cond.(*ssa.BinOp)
										if !ok {
											continue
										}
										switch cmp.Op {
										case token.LSS, token.LEQ, token.GTR, token.GEQ:
										default:
											continue
										}
										for _, pair := range [][2]ssa.Value{{cmp.X, cmp.Y}, {cmp.Y, cmp.X}} {
											cnt, other := pair[0], pair[1]
											if !(tv[cnt] || tv[stripConv(cnt)]) || (lenArgOf(other) == nil && capArgOf(other) == nil) {
												continue
											}
											cut := mkCut(t.boundedEdges(fn, cnt), t.boundedEdges(fn, stripConv(cnt)))
											if _, reach := reachAfter(fn, nil, in, cut, nil); reach {
												r.bad(key, p.Rel(in.Pos()), what, fmt.Sprintf("the buffer is grown in a loop until it holds %s bytes, and %s derives from a 32/64-bit count read from the input that no comparison bounds", cnt.Name(), cnt.Name()))
												goto next
											}
										}
									}
								}
							}
						}
						if badv != nil {
							r.bad(key, p.Rel(in.Pos()), what, fmt.Sprintf("size operand %s derives from a 32/64-bit count read from the input and no comparison bounds it before the allocation", badv.Name()))
						} else {
							r.ok(key, p.Rel(in.Pos()), what)
						}
					next:
					}
				}
			}
			return nil
		},
	})
}

// capArgOf: x if v is cap(x).
func capArgOf(v ssa.Value) ssa.Value {
	c, ok := stripConv(v).(*ssa.Call)
	if !ok {
		return nil
	}
	if bi, ok := c.Call.Value.(*ssa.Builtin); ok && bi.Name() == "cap" && len(c.Call.Args) == 1 {
		return c.Call.Args[0]
	}
	return nil
}
