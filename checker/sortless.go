package main

// C01-j: the less function of sort.Slice looks at the slice that is being sorted.
//
// sort.Slice(x, less) swaps elements of x and asks less(i, j) about positions of x.
// A less closure that indexes another slice (the original of which x is a copy, a
// sibling list) compares elements that are not the ones being moved: the result is
// some permutation, silently.

import (
	"fmt"
	"go/token"

	"golang.org/x/tools/go/ssa"
)

// accessPath: root value + field path of a slice expression ("l.blocks" → (l, [blocks])).
type accessPath struct {
	root   ssa.Value
	fields []int
}

func pathOf(v ssa.Value, bind map[*ssa.FreeVar]ssa.Value) accessPath {
	var fields []int
	for {
		v = stripConv(v)
		switch x := v.(type) {
		case *ssa.UnOp:
			if x.Op == token.MUL {
				if fa, ok := x.X.(*ssa.FieldAddr); ok {
					fields = append([]int{fa.Field}, fields...)
					v = fa.X
					continue
				}
				// a captured variable (cell) or a local cell: the cell is the root
				v = x.X
				continue
			}
		case *ssa.Field:
			fields = append([]int{x.Field}, fields...)
			v = x.X
			continue
		case *ssa.FreeVar:
			if b, ok := bind[x]; ok {
				v = b
				bind = nil
				continue
			}
		}
		return accessPath{v, fields}
	}
}

func samePath(a, b accessPath) bool {
	if a.root != b.root || len(a.fields) != len(b.fields) {
		return false
	}
	for i := range a.fields {
		if a.fields[i] != b.fields[i] {
			return false
		}
	}
	return true
}

func init() {
	register(&Rule{
		ID: "C01-j", Template: "T10 agreement (sort.Slice: less indexes what is sorted)",
		Doc: "A sort orders the slice it was given: in production code, the less closure of every sort.Slice / sort.SliceStable call indexes, with its two position parameters, the same slice expression that is passed as the first argument (same variable, or the same field path of the same object). Sorting a copy with a less function that still looks at the original leaves the copy in an arbitrary permutation — the workers' blocks are then listed out of offset order in the table whenever they finished out of order.",
		Min: 15,
		Run: func(p *Program, r *RuleResult) error {
			if _, err := p.SSAFunc("pkg/ingest.(*Inserter).sortBlocks"); err != nil {
				// the function may have been renamed: the rule does not depend on it
				_ = err
			}
			fns := p.ProdFuncs()
			r.Analysed = len(fns)
			for _, fn := range fns {
				n := 0
				eachCall(fn, func(c ssa.CallInstruction) {
					f := calleeFunc(c)
					if f == nil || f.Pkg() == nil || f.Pkg().Path() != "sort" || (f.Name() != "Slice" && f.Name() != "SliceStable") {
						return
					}
					args := c.Common().Args
					if len(args) < 2 {
						return
					}
					mc, ok := args[1].(*ssa.MakeClosure)
					if !ok {
						return
					}
					less, ok := mc.Fn.(*ssa.Function)
					if !ok || len(less.Params) != 2 {
						return
					}
					key := fmt.Sprintf("%s|sort.Slice#%d", funcName(fn), n)
					n++
					what := "the less function indexes the slice that is being sorted"
					x := args[0]
					if mi, ok := x.(*ssa.MakeInterface); ok {
						x = mi.X
					}
					sorted := pathOf(x, nil)
					bind := map[*ssa.FreeVar]ssa.Value{}
					for i, fv := range less.FreeVars {
						if i < len(mc.Bindings) {
							bind[fv] = mc.Bindings[i]
						}
					}
					isPos := func(v ssa.Value) bool {
						v = stripConv(v)
						return v == ssa.Value(less.Params[0]) || v == ssa.Value(less.Params[1])
					}
					nIdx, bad := 0, ""
					for _, b := range less.Blocks {
						for _, in := range b.Instrs {
							var base, idx ssa.Value
							switch y := in.(type) {
							case *ssa.IndexAddr:
								base, idx = y.X, y.Index
							case *ssa.Index:
								base, idx = y.X, y.Index
							default:
								continue
							}
							if !isPos(idx) {
								continue
							}
							nIdx++
							if !samePath(pathOf(base, bind), sorted) {
								bad = fmt.Sprintf("less indexes another slice than the one being sorted (%s): the elements compared are not the elements moved", p.Rel(in.Pos()))
							}
						}
					}
					switch {
					case bad != "":
						r.bad(key, p.Rel(c.Pos()), what, bad)
					case nIdx == 0:
						r.okWhy(key, p.Rel(c.Pos()), what, "the positions are handed to a helper (not followed)")
					default:
						r.ok(key, p.Rel(c.Pos()), what)
					}
				})
			}
			return nil
		},
	})
}
