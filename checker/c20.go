package main

// C20: the on-disk hash set (pkg/index). Three structural clauses:
//
//   C20-a  Flush protocol: a flush reports success only after the pending batch was
//          inserted, counted into the fan-out table, the table written at offset 0 and
//          the size advanced — and the batch is dropped only after all of that.
//   C20-b  a hit needs an equality test: indexOf answers a position only through the
//          "equal" outcome of a comparison with the probe, and the miss value it
//          returns is the value Has / Add compare against.
//   C20-c  the layout constants agree: one start offset for the hash area at every
//          call site, equal to the size of the fan-out table; one entry width in the
//          reader, the writer and the byte-wise comparisons.
//
// None of them decides the shifting arithmetic of the batched insertion.

import (
	"fmt"
	"go/token"
	"go/types"
	"sort"
	"strings"

	"golang.org/x/tools/go/ssa"
)

// mustSummary: "every successful, non-exempt return of fn happens after event E",
// where E is an instruction matched directly or a call of a same-package helper
// for which the same holds.
type mustSummary struct {
	match  func(in ssa.Instruction) bool
	exempt func(fn *ssa.Function) cutSet
	memo   map[*ssa.Function]int
	// cond: calls of helpers for which the summary holds only for the returns whose
	// boolean result j is K ("retry", "found" …): the call is an event on paths that
	// take the edge on which that result is K
	cond map[ssa.Instruction]condEvent
}

type condEvent struct {
	idx int
	val bool
}

func (m *mustSummary) events(fn *ssa.Function, depth int) []ssa.Instruction {
	var out []ssa.Instruction
	for _, b := range fn.Blocks {
		for _, in := range b.Instrs {
			if m.match(in) {
				out = append(out, in)
				continue
			}
			if depth <= 0 {
				continue
			}
			if c, ok := in.(*ssa.Call); ok {
				sc := c.Call.StaticCallee()
				if sc == nil || sc == fn || len(sc.Blocks) == 0 || fnPkgPath(sc) != fnPkgPath(fn) {
					continue
				}
				if m.holds(sc, depth-1) {
					out = append(out, in)
					continue
				}
				// holds for one value of a boolean result?
				res := sc.Signature.Results()
				for j := 0; j < res.Len(); j++ {
					bt, ok := res.At(j).Type().Underlying().(*types.Basic)
					if !ok || bt.Kind() != types.Bool {
						continue
					}
					for _, k := range []bool{false, true} {
						if ok, _ := m.checkCond(sc, depth-1, j, k); ok {
							if m.cond == nil {
								m.cond = map[ssa.Instruction]condEvent{}
							}
							m.cond[in] = condEvent{j, k}
							out = append(out, in)
						}
					}
				}
			}
		}
	}
	return out
}

func (m *mustSummary) holds(fn *ssa.Function, depth int) bool {
	if m.memo == nil {
		m.memo = map[*ssa.Function]int{}
	}
	switch m.memo[fn] {
	case 1:
		return true
	case 2, 3:
		return false
	}
	m.memo[fn] = 3
	ok, _ := m.check(fn, depth)
	if ok {
		m.memo[fn] = 1
	} else {
		m.memo[fn] = 2
	}
	return ok
}

// check returns the first successful return that is not ordered after an event.
func (m *mustSummary) check(fn *ssa.Function, depth int) (bool, *ssa.Return) {
	return m.checkCond(fn, depth, -1, false)
}

// checkCond: like check, restricted to the returns whose boolean result j is not the
// constant !k (j < 0: all returns).
func (m *mustSummary) checkCond(fn *ssa.Function, depth int, j int, k bool) (bool, *ssa.Return) {
	evs := m.events(fn, depth)
	ei := errorResultIndex(fn.Signature)
	var ex cutSet
	if m.exempt != nil {
		ex = m.exempt(fn)
	}
	n := 0
	for _, ret := range returnsOf(fn) {
		if ei >= 0 {
			if v := retVal(ret, ei); v != nil && (definitelyNonNilError(v) || nonNilByGuard(fn, ret, v)) {
				continue
			}
		}
		if _, reach := reachAfter(fn, nil, ret, ex, nil); !reach {
			continue // unreachable, or reachable only through an exempt edge
		}
		if j >= 0 && j < len(ret.Results) {
			if c, isConst := retVal(ret, j).(*ssa.Const); isConst && c.Value != nil && (c.Value.String() == "true") == !k {
				continue // the other outcome
			}
		}
		n++
		ok := false
		for _, e := range evs {
			if c, isCall := e.(*ssa.Call); isCall && errValuesOfCall(c) != nil {
				if !orderedAfterSuccess(fn, c, ret, ei) {
					continue
				}
				if ce, isCond := m.cond[e]; isCond {
					// every path from the call to the return takes the edge on which the result is ce.val
					var bs []ssa.Value
					for _, ref := range *c.Referrers() {
						if exr, ok := ref.(*ssa.Extract); ok && exr.Index == ce.idx {
							bs = append(bs, exr)
						}
					}
					cut := mkCut(boolEdges(fn, forward(bs, fwdOpts{noBinOp: true}), ce.val))
					if _, reach := reachAfter(fn, c, ret, cut, nil); reach {
						continue
					}
				}
				ok = true
				break
			}
			if _, reach := reachAfter(fn, nil, ret, ex, map[ssa.Instruction]bool{e: true}); !reach {
				ok = true
				break
			}
		}
		if !ok {
			return false, ret
		}
	}
	return n > 0, nil
}

// samePkgReach: fn and the same-package functions it reaches through static calls.
func samePkgReach(fn *ssa.Function, depth int) []*ssa.Function {
	seen := map[*ssa.Function]bool{}
	var out []*ssa.Function
	var walk func(f *ssa.Function, d int)
	walk = func(f *ssa.Function, d int) {
		if seen[f] {
			return
		}
		seen[f] = true
		out = append(out, f)
		if d <= 0 {
			return
		}
		eachCall(f, func(c ssa.CallInstruction) {
			if sc := c.Common().StaticCallee(); sc != nil && len(sc.Blocks) > 0 && fnPkgPath(sc) == fnPkgPath(fn) {
				walk(sc, d-1)
			}
		})
		for _, an := range f.AnonFuncs {
			walk(an, d)
		}
	}
	walk(fn, depth)
	return out
}

func fieldAddrOf(v ssa.Value, f *types.Var) bool {
	fa, ok := v.(*ssa.FieldAddr)
	return ok && structField(fa.X.Type(), fa.Field) == f
}

func init() {
	register(&Rule{
		ID: "C20-a", Template: "T1 must-traverse + T2 never-follows (flush protocol)",
		Doc: "What was added is found after a flush: (*HashSet).Flush — itself or through helpers of the package — returns success only after (1) addToHashTable succeeded, (2) addToFanoutTable was called with the pending batch, (3) the file was positioned at offset 0 and (4) writeUint32s wrote the fan-out table, and (5) the size field was advanced by the length of the batch; the only other successful way out is an 'empty batch' test. The pending batch is not emptied before any of these has used it. A fan-out table that lags behind the hash area makes every later lookup search the wrong bucket: false negatives, and the merge re-adds a base row next to its resolved version.",
		Min: 6,
		Run: func(p *Program, r *RuleResult) error {
			flush, err := p.SSAFunc("pkg/index.(*HashSet).Flush")
			if err != nil {
				return err
			}
			ins, err := p.MustFuncs("pkg/index.(*HashSet).addToHashTable")
			if err != nil {
				return err
			}
			fan, err := p.MustFuncs("pkg/index.addToFanoutTable")
			if err != nil {
				return err
			}
			wr, err := p.MustFuncs("pkg/index.writeUint32s")
			if err != nil {
				return err
			}
			batch, err := p.Field("pkg/index.HashSet.batch")
			if err != nil {
				return err
			}
			size, err := p.Field("pkg/index.HashSet.size")
			if err != nil {
				return err
			}
			fanout, err := p.Field("pkg/index.HashSet.fanout")
			if err != nil {
				return err
			}
			reach := samePkgReach(flush, inlineDepth)
			r.Analysed = len(reach)
			// "the batch is empty" edges
			exempt := func(fn *ssa.Function) cutSet {
				var es []edge
				for _, b := range fn.Blocks {
					for _, in := range b.Instrs {
						c, ok := in.(*ssa.Call)
						if !ok || !isBuiltin(c, "len") || len(c.Call.Args) != 1 || !derivesFromField(c.Call.Args[0], batch) {
							continue
						}
						for _, e := range nonEmptyEdges(fn, c) {
							es = append(es, edge{e.from, 1 - e.succ})
						}
					}
				}
				// the cut keeps paths that do NOT go through an empty-batch edge
				return mkCut(es)
			}
			isCallOf := func(set map[*types.Func]bool) func(ssa.Instruction) bool {
				return func(in ssa.Instruction) bool {
					c, ok := in.(*ssa.Call)
					if !ok {
						return false
					}
					f := calleeFunc(c)
					return f != nil && set[f]
				}
			}
			steps := []struct {
				key, what, miss string
				match           func(ssa.Instruction) bool
			}{
				{"inserted", "a flush succeeds only after the batch was inserted into the hash area", "a successful return of Flush is reachable without a successful addToHashTable", isCallOf(ins)},
				{"fanout-updated", "a flush succeeds only after the batch was counted into the fan-out table", "a successful return of Flush is reachable without addToFanoutTable(fanout, batch): later lookups search the wrong bucket", func(in ssa.Instruction) bool {
					c, ok := in.(*ssa.Call)
					if !ok || !isCallOf(fan)(in) || len(c.Call.Args) < 2 {
						return false
					}
					return derivesFromField(c.Call.Args[0], fanout) && derivesFromField(c.Call.Args[1], batch)
				}},
				{"fanout-at-0", "a flush succeeds only after the file was positioned at offset 0 for the fan-out table", "a successful return of Flush is reachable without Seek(0, io.SeekStart)", func(in ssa.Instruction) bool {
					c, ok := in.(*ssa.Call)
					if !ok {
						return false
					}
					f := calleeFunc(c)
					if f == nil || f.Name() != "Seek" {
						return false
					}
					args := c.Call.Args
					if !c.Call.IsInvoke() && len(args) > 0 {
						args = args[1:]
					}
					if len(args) != 2 {
						return false
					}
					a, ok1 := constInt(args[0])
					w, ok2 := constInt(args[1])
					return ok1 && ok2 && a == 0 && w == 0
				}},
				{"fanout-persisted", "a flush succeeds only after the fan-out table was written", "a successful return of Flush is reachable without a successful writeUint32s of the fan-out table", func(in ssa.Instruction) bool {
					c, ok := in.(*ssa.Call)
					if !ok || !isCallOf(wr)(in) || len(c.Call.Args) < 2 {
						return false
					}
					return derivesFromField(c.Call.Args[1], fanout)
				}},
				{"size-advanced", "a flush succeeds only after the size was advanced by the length of the batch", "a successful return of Flush is reachable without `size += len(batch)`", func(in ssa.Instruction) bool {
					st, ok := in.(*ssa.Store)
					if !ok || !fieldAddrOf(st.Addr, size) {
						return false
					}
					for v := range backward(st.Val, nil) {
						if c, ok := v.(*ssa.Call); ok && isBuiltin(c, "len") && len(c.Call.Args) == 1 && derivesFromField(c.Call.Args[0], batch) {
							return true
						}
					}
					return false
				}},
			}
			for _, s := range steps {
				ms := &mustSummary{match: s.match, exempt: exempt}
				key := funcName(flush) + "|" + s.key
				ok, ret := ms.check(flush, inlineDepth)
				if ok {
					r.ok(key, p.Rel(flush.Pos()), s.what)
				} else if ret != nil {
					r.bad(key, p.Rel(ret.Pos()), s.what, s.miss)
				} else {
					r.bad(key, p.Rel(flush.Pos()), s.what, s.miss+" (no such step found)")
				}
			}
			// order of the fan-out steps: offset 0 before the write, nothing between that moves the file
			// (decided through the two must-steps above plus: the write does not precede the seek)
			// the batch is kept until every step has used it
			storesBatch := map[*ssa.Function]bool{}
			usesBatch := map[*ssa.Function]bool{}
			isStore := func(in ssa.Instruction) bool {
				st, ok := in.(*ssa.Store)
				return ok && fieldAddrOf(st.Addr, batch)
			}
			isUse := func(in ssa.Instruction) bool {
				u, ok := in.(*ssa.UnOp)
				return ok && u.Op == token.MUL && fieldAddrOf(u.X, batch)
			}
			for round := 0; round < 3; round++ {
				for _, fn := range reach {
					for _, b := range fn.Blocks {
						for _, in := range b.Instrs {
							if isStore(in) {
								storesBatch[fn] = true
							}
							if isUse(in) {
								usesBatch[fn] = true
							}
							if c, ok := in.(ssa.CallInstruction); ok {
								if sc := c.Common().StaticCallee(); sc != nil {
									if storesBatch[sc] {
										storesBatch[fn] = true
									}
									if usesBatch[sc] {
										usesBatch[fn] = true
									}
								}
							}
						}
					}
					if fn.Parent() != nil {
						if storesBatch[fn] {
							storesBatch[fn.Parent()] = true
						}
						if usesBatch[fn] {
							usesBatch[fn.Parent()] = true
						}
					}
				}
			}
			nBad := 0
			for _, fn := range reach {
				var S, U []ssa.Instruction
				for _, b := range fn.Blocks {
					for _, in := range b.Instrs {
						if isStore(in) {
							S = append(S, in)
						}
						if isUse(in) {
							U = append(U, in)
						}
						if c, ok := in.(ssa.CallInstruction); ok {
							if sc := c.Common().StaticCallee(); sc != nil && fnPkgPath(sc) == fnPkgPath(fn) {
								if storesBatch[sc] {
									S = append(S, in)
								}
								if usesBatch[sc] {
									U = append(U, in)
								}
							}
						}
					}
				}
				for i, s := range S {
					for _, u := range U {
						if s == u {
							continue
						}
						if path, reach := reachAfter(fn, s, u, nil, nil); reach {
							nBad++
							r.bad(fmt.Sprintf("%s|batch-emptied-early#%d", funcName(fn), i), p.Rel(s.Pos()), "the pending batch is kept until every flush step has used it", fmtPath("the batch field is overwritten at "+p.Rel(s.Pos())+" and read again afterwards at "+p.Rel(u.Pos()), path))
						}
					}
				}
			}
			if nBad == 0 {
				r.ok(funcName(flush)+"|batch-kept", p.Rel(flush.Pos()), "the pending batch is kept until every flush step has used it")
			}
			return nil
		},
	})

	register(&Rule{
		ID: "C20-b", Template: "T4 permit-cut + T10 agreement (hit needs equality; miss value)",
		Doc: "No false positive by construction: pkg/index.indexOf returns a position (anything but its constant miss value) with a nil error only through the 'true' outcome of a boolean computed from the probe (hashAtIndexEqual or an equality of the stored bytes with it); and every comparison of indexOf's position in the package (HashSet.Has, HashSet.Add) is against exactly the miss value indexOf returns. Has's answer is that comparison.",
		Min: 4,
		Run: func(p *Program, r *RuleResult) error {
			idx, err := p.SSAFunc("pkg/index.indexOf")
			if err != nil {
				return err
			}
			has, err := p.SSAFunc("pkg/index.(*HashSet).Has")
			if err != nil {
				return err
			}
			fns := p.FuncsInPkg("pkg/index")
			r.Analysed = len(fns)
			if len(idx.Params) < 3 {
				return &AnchorError{"indexOf(r, buf, b)"}
			}
			probe := idx.Params[len(idx.Params)-1]
			// booleans computed from the probe
			var eq []ssa.Value
			eachCall(idx, func(c ssa.CallInstruction) {
				call, ok := c.(*ssa.Call)
				if !ok {
					return
				}
				uses := false
				for _, a := range call.Call.Args {
					if stripConv(a) == ssa.Value(probe) {
						uses = true
					}
				}
				if !uses {
					return
				}
				if bt, ok := call.Type().Underlying().(*types.Basic); ok && bt.Kind() == types.Bool {
					eq = append(eq, call)
				}
				for _, ref := range *call.Referrers() {
					if ex, ok := ref.(*ssa.Extract); ok {
						if bt, ok := ex.Type().Underlying().(*types.Basic); ok && bt.Kind() == types.Bool {
							eq = append(eq, ex)
						}
					}
				}
			})
			cut := mkCut(boolEdges(idx, forward(eq, fwdOpts{noBinOp: true}), true))
			miss := map[int64]bool{}
			ei := errorResultIndex(idx.Signature)
			var hits []*ssa.Return
			for _, ret := range returnsOf(idx) {
				if v := retVal(ret, ei); v != nil && (definitelyNonNilError(v) || nonNilByGuard(idx, ret, v)) {
					continue
				}
				if k, ok := constInt(retVal(ret, 0)); ok {
					miss[k] = true
					continue
				}
				hits = append(hits, ret)
			}
			if len(miss) != 1 {
				r.bad(funcName(idx)+"|miss-value", p.Rel(idx.Pos()), "indexOf has one constant miss value", fmt.Sprintf("indexOf returns %d different constant positions on success", len(miss)))
			} else {
				r.ok(funcName(idx)+"|miss-value", p.Rel(idx.Pos()), "indexOf has one constant miss value")
			}
			for i, ret := range hits {
				key := fmt.Sprintf("%s|hit#%d", funcName(idx), i)
				what := "a position is answered only after the stored bytes were found equal to the probe"
				if len(eq) == 0 {
					r.bad(key, p.Rel(ret.Pos()), what, "indexOf computes no boolean from the probe: the insertion point of an absent hash is answered as a hit")
				} else if path, reach := reachAfter(idx, nil, ret, cut, nil); reach {
					r.bad(key, p.Rel(ret.Pos()), what, fmtPath("a position is returned without passing the 'equal' outcome: the insertion point of an absent hash is answered as a hit", path))
				} else {
					r.ok(key, p.Rel(ret.Pos()), what)
				}
			}
			// callers compare with the miss value
			idxObj, _ := idx.Object().(*types.Func)
			for _, fn := range fns {
				for _, c := range callsTo(fn, map[*types.Func]bool{idxObj: true}) {
					call, ok := c.(*ssa.Call)
					if !ok {
						continue
					}
					var pos []ssa.Value
					for _, ref := range *call.Referrers() {
						if ex, ok := ref.(*ssa.Extract); ok && ex.Index == 0 {
							pos = append(pos, ex)
						}
					}
					vals := forward(pos, fwdOpts{noBinOp: true})
					key := callKey(fn, c) + "|miss-test"
					what := "the position answered by indexOf is compared with indexOf's miss value"
					n, bad := 0, ""
					for v := range vals {
						if v.Referrers() == nil {
							continue
						}
						for _, ref := range *v.Referrers() {
							bo, ok := ref.(*ssa.BinOp)
							if !ok {
								continue
							}
							other := bo.Y
							if stripConv(bo.Y) == v {
								other = bo.X
							}
							k, isConst := constInt(other)
							if !isConst {
								continue
							}
							n++
							if (bo.Op != token.EQL && bo.Op != token.NEQ) || !miss[k] {
								bad = fmt.Sprintf("%s tests the position with `%s %d` but indexOf's miss value is %v", funcName(fn), bo.Op, k, keysOf(miss))
							}
						}
					}
					switch {
					case bad != "":
						r.bad(key, p.Rel(c.Pos()), what, bad)
					case n == 0:
						// the position is used as a position (not as a membership answer): nothing to compare
						r.okWhy(key, p.Rel(c.Pos()), what, "the position is not tested for membership here")
					default:
						r.ok(key, p.Rel(c.Pos()), what)
					}
				}
			}
			// Has answers that comparison — on every successful return, from a lookup made in this call
			// (an answer remembered from an earlier call is stale after the next flush)
			nHas, badHas := 0, ""
			hei := errorResultIndex(has.Signature)
			for _, ret := range returnsOf(has) {
				if ev := retVal(ret, hei); ev != nil && (definitelyNonNilError(ev) || nonNilByGuard(has, ret, ev)) {
					continue
				}
				v := retVal(ret, 0)
				if v == nil {
					continue
				}
				if _, reach := reachAfter(has, nil, ret, nil, nil); !reach {
					continue
				}
				nHas++
				fromLookup := false
				for x := range backward(v, nil) {
					if ex, ok := x.(*ssa.Extract); ok && ex.Index == 0 {
						if call, ok := ex.Tuple.(*ssa.Call); ok && calleeFunc(call) == idxObj {
							fromLookup = true
						}
					}
				}
				if !fromLookup {
					badHas = "a successful return of Has (" + p.Rel(ret.Pos()) + ") does not derive its answer from an indexOf lookup made in this call"
				}
			}
			switch {
			case nHas == 0:
				r.bad(funcName(has)+"|answer", p.Rel(has.Pos()), "Has answers from indexOf's position", "Has has no successful return")
			case badHas != "":
				r.bad(funcName(has)+"|answer", p.Rel(has.Pos()), "Has answers from indexOf's position", badHas)
			default:
				r.ok(funcName(has)+"|answer", p.Rel(has.Pos()), "Has answers from indexOf's position")
			}
			return nil
		},
	})

	register(&Rule{
		ID: "C20-c", Template: "T10 agreement (layout constants)",
		Doc: "Reader, writer and comparisons agree on the file layout: every call of readHash / writeHash in pkg/index passes the same constant start offset, and it equals 4 × the length of HashSet.fanout (the hash area starts right after the fan-out table); readHash and writeHash scale the entry index by the same constant width W and readHash reads W bytes; every loop in pkg/index that compares a stored hash byte by byte with a probe runs to W (or to the length of one of the two slices); the size is read back from the last fan-out entry (index len(fanout)-1) at start offset 0. A comparison that stops early answers 'member' for a hash that only shares a prefix — random 128-bit test values never do.",
		Min: 8,
		Run: func(p *Program, r *RuleResult) error {
			rh, err := p.SSAFunc("pkg/index.readHash")
			if err != nil {
				return err
			}
			wh, err := p.SSAFunc("pkg/index.writeHash")
			if err != nil {
				return err
			}
			ru, err := p.SSAFunc("pkg/index.readUint32")
			if err != nil {
				return err
			}
			fanout, err := p.Field("pkg/index.HashSet.fanout")
			if err != nil {
				return err
			}
			size, err := p.Field("pkg/index.HashSet.size")
			if err != nil {
				return err
			}
			arr, ok := fanout.Type().Underlying().(*types.Array)
			if !ok {
				return &AnchorError{"HashSet.fanout is an array"}
			}
			elem, ok := arr.Elem().Underlying().(*types.Basic)
			if !ok || elem.Kind() != types.Uint32 {
				return &AnchorError{"HashSet.fanout elements are uint32"}
			}
			wantStart := arr.Len() * 4
			fns := p.FuncsInPkg("pkg/index")
			r.Analysed = len(fns)
			// the start-offset parameter: the int64 parameter
			startParam := func(fn *ssa.Function) int {
				for i, prm := range fn.Params {
					if bt, ok := prm.Type().Underlying().(*types.Basic); ok && bt.Kind() == types.Int64 {
						return i
					}
				}
				return -1
			}
			rhObj, _ := rh.Object().(*types.Func)
			whObj, _ := wh.Object().(*types.Func)
			ruObj, _ := ru.Object().(*types.Func)
			// the code of the hash set: its constructor, its methods and what they reach in the package
			// (OrderedHashSet, in the same package, keeps a second table behind the hashes and is not this file format)
			inSet := map[*ssa.Function]bool{}
			for _, fn := range fns {
				isRoot := fn.Name() == "NewHashSet" && fn.Parent() == nil
				if recv := fn.Signature.Recv(); recv != nil {
					t := recv.Type()
					if pt, ok := t.(*types.Pointer); ok {
						t = pt.Elem()
					}
					if n, ok := t.(*types.Named); ok && n.Obj().Name() == "HashSet" {
						isRoot = true
					}
				}
				if isRoot {
					for _, g := range samePkgReach(fn, 3) {
						inSet[g] = true
					}
				}
			}
			for _, fn := range fns {
				if !inSet[fn] {
					continue
				}
				eachCall(fn, func(c ssa.CallInstruction) {
					f := calleeFunc(c)
					var callee *ssa.Function
					want := int64(-1)
					switch f {
					case rhObj:
						callee, want = rh, wantStart
					case whObj:
						callee, want = wh, wantStart
					case ruObj:
						callee, want = ru, 0
					default:
						return
					}
					si := startParam(callee)
					if si < 0 || si >= len(c.Common().Args) {
						return
					}
					key := callKey(fn, c) + "|start"
					what := "hash entries start right after the fan-out table (and fan-out entries at 0) at every call site"
					k, ok := constInt(c.Common().Args[si])
					switch {
					case !ok:
						r.bad(key, p.Rel(c.Pos()), what, "the start offset is not a constant")
					case k != want:
						r.bad(key, p.Rel(c.Pos()), what, fmt.Sprintf("start offset %d, but the fan-out table ([%d]uint32) ends at %d", k, arr.Len(), want))
					default:
						r.ok(key, p.Rel(c.Pos()), what)
					}
				})
			}
			// entry width
			widthOf := func(fn *ssa.Function) (int64, bool) {
				var w int64
				found := false
				eachCall(fn, func(c ssa.CallInstruction) {
					f := calleeFunc(c)
					if f == nil || f.Name() != "Seek" || len(c.Common().Args) == 0 {
						return
					}
					args := c.Common().Args
					if !c.Common().IsInvoke() {
						args = args[1:]
					}
					for v := range backward(args[0], nil) {
						if bo, ok := v.(*ssa.BinOp); ok && bo.Op == token.MUL {
							for _, o := range []ssa.Value{bo.X, bo.Y} {
								if k, ok := constInt(o); ok {
									w, found = k, true
								}
							}
						}
					}
				})
				return w, found
			}
			wr, ok1 := widthOf(rh)
			ww, ok2 := widthOf(wh)
			key := "pkg/index|entry-width"
			what := "reader and writer scale the entry index by the same width"
			switch {
			case !ok1 || !ok2:
				r.bad(key, p.Rel(rh.Pos()), what, "no `index × constant` offset found in readHash / writeHash")
			case wr != ww:
				r.bad(key, p.Rel(wh.Pos()), what, fmt.Sprintf("readHash scales by %d, writeHash by %d", wr, ww))
			default:
				r.ok(key, p.Rel(rh.Pos()), what)
			}
			// readHash reads W bytes
			nSl := 0
			for _, b := range rh.Blocks {
				for _, in := range b.Instrs {
					sl, ok := in.(*ssa.Slice)
					if !ok || sl.High == nil {
						continue
					}
					if _, isSlice := sl.X.Type().Underlying().(*types.Slice); !isSlice {
						continue
					}
					k, ok := constInt(sl.High)
					if !ok {
						continue
					}
					lo := int64(0)
					if sl.Low != nil {
						lo, _ = constInt(sl.Low)
					}
					key := fmt.Sprintf("%s|read-width#%d", funcName(rh), nSl)
					nSl++
					if k-lo != wr {
						r.bad(key, p.Rel(sl.Pos()), "readHash reads / returns exactly one entry", fmt.Sprintf("a slice of %d bytes where entries are %d bytes wide", k-lo, wr))
					} else {
						r.ok(key, p.Rel(sl.Pos()), "readHash reads / returns exactly one entry")
					}
				}
			}
			// byte-wise comparisons of a stored hash with a probe
			for _, fn := range fns {
				stored := map[ssa.Value]bool{}
				eachCall(fn, func(c ssa.CallInstruction) {
					if call, ok := c.(*ssa.Call); ok && calleeFunc(c) == rhObj {
						for _, ref := range *call.Referrers() {
							if ex, ok := ref.(*ssa.Extract); ok && ex.Index == 0 {
								stored[ex] = true
							}
						}
					}
				})
				if len(stored) == 0 {
					continue
				}
				done := map[*ssa.BasicBlock]bool{}
				n := 0
				for _, b := range fn.Blocks {
					for _, in := range b.Instrs {
						bo, ok := in.(*ssa.BinOp)
						if !ok {
							continue
						}
						switch bo.Op {
						case token.EQL, token.NEQ, token.LSS, token.GTR, token.LEQ, token.GEQ:
						default:
							continue
						}
						ix, base1 := byteElem(bo.X)
						iy, base2 := byteElem(bo.Y)
						if ix == nil || iy == nil || stripConv(ix) != stripConv(iy) {
							continue
						}
						if !derivesFromValue(base1, stored) && !derivesFromValue(base2, stored) {
							continue
						}
						ph, ok := stripConv(ix).(*ssa.Phi)
						if !ok {
							continue
						}
						h := ph.Block()
						if done[h] {
							continue
						}
						done[h] = true
						key := fmt.Sprintf("%s|compare-loop#%d", funcName(fn), n)
						n++
						what := "a byte-wise comparison of a stored hash with a probe covers the whole entry"
						bound, kind := cmpLoopBound(h, ph, base1, base2)
						start, startKnown := int64(0), false
						for _, e := range ph.Edges {
							if k, ok := constInt(e); ok {
								start, startKnown = k, true
							}
						}
						switch {
						case !startKnown || start != 0:
							r.bad(key, p.Rel(bo.Pos()), what, fmt.Sprintf("the comparison loop does not start at byte 0 (starts at %d): hashes that differ only before that byte are taken for equal", start))
						case kind == "len":
							r.okWhy(key, p.Rel(bo.Pos()), what, "the loop runs to the length of one of the compared slices")
						case kind == "const" && bound == wr:
							r.ok(key, p.Rel(bo.Pos()), what)
						case kind == "const":
							r.bad(key, p.Rel(bo.Pos()), what, fmt.Sprintf("the loop compares %d bytes of a %d-byte entry: hashes that agree on a prefix are taken for equal", bound, wr))
						default:
							r.bad(key, p.Rel(bo.Pos()), what, "the bound of the comparison loop is neither the entry width nor the length of a compared slice")
						}
					}
				}
			}
			// size read back from the last fan-out entry
			nSize := 0
			for _, fn := range fns {
				for _, b := range fn.Blocks {
					for _, in := range b.Instrs {
						st, ok := in.(*ssa.Store)
						if !ok || !fieldAddrOf(st.Addr, size) {
							continue
						}
						for v := range backward(st.Val, nil) {
							ex, ok := v.(*ssa.Extract)
							if !ok {
								continue
							}
							call, ok := ex.Tuple.(*ssa.Call)
							if !ok || calleeFunc(call) != ruObj {
								continue
							}
							key := fmt.Sprintf("%s|size-read#%d", funcName(fn), nSize)
							nSize++
							what := "the size is read back from the last fan-out entry"
							last := call.Call.Args[len(call.Call.Args)-1]
							if k, ok := constInt(last); ok && k == arr.Len()-1 {
								r.ok(key, p.Rel(call.Pos()), what)
							} else {
								r.bad(key, p.Rel(call.Pos()), what, fmt.Sprintf("the size is read from fan-out entry %s, the table has %d entries", last.Name(), arr.Len()))
							}
						}
					}
				}
			}
			return nil
		},
	})
}

// byteElem: v is a load of x[i] of a byte slice / array; returns i and x.
func byteElem(v ssa.Value) (ssa.Value, ssa.Value) {
	v = stripConv(v)
	u, ok := v.(*ssa.UnOp)
	if !ok || u.Op != token.MUL {
		return nil, nil
	}
	ia, ok := u.X.(*ssa.IndexAddr)
	if !ok {
		return nil, nil
	}
	if bt, ok := u.Type().Underlying().(*types.Basic); !ok || (bt.Kind() != types.Uint8 && bt.Kind() != types.Byte) {
		return nil, nil
	}
	return ia.Index, ia.X
}

// loopBound: the bound of the counter φ of the loop headed by h: a constant
// ("const"), the length of one of the given slices ("len"), or unknown ("").
func cmpLoopBound(h *ssa.BasicBlock, ph *ssa.Phi, bases ...ssa.Value) (int64, string) {
	if len(h.Instrs) == 0 {
		return 0, ""
	}
	ifi, ok := h.Instrs[len(h.Instrs)-1].(*ssa.If)
	if !ok {
		return 0, ""
	}
	bo, ok := ifi.Cond.(*ssa.BinOp)
	if !ok {
		return 0, ""
	}
	x, y, op := bo.X, bo.Y, bo.Op
	if stripConv(y) == ssa.Value(ph) {
		x, y = y, x
		switch op {
		case token.GTR:
			op = token.LSS
		case token.GEQ:
			op = token.LEQ
		}
	}
	if stripConv(x) != ssa.Value(ph) {
		return 0, ""
	}
	if k, ok := constInt(y); ok {
		switch op {
		case token.LSS:
			return k, "const"
		case token.LEQ:
			return k + 1, "const"
		}
		return 0, ""
	}
	if l := lenOf(y); l != nil && op == token.LSS {
		for _, b := range bases {
			if stripConv(b) == stripConv(l) {
				return 0, "len"
			}
		}
	}
	return 0, ""
}

func keysOf(m map[int64]bool) []int64 {
	var out []int64
	for k := range m {
		out = append(out, k)
	}
	sort.Slice(out, func(i, j int) bool { return out[i] < out[j] })
	return out
}

func init() {
	register(&Rule{
		ID: "C20-d", Template: "T10 agreement (what is inserted is what is counted)",
		Doc: "The fan-out table and the size count exactly the hashes that were written: if the loop of addToHashTable (or of a helper it uses) that looks up the insertion point of every pending hash can finish an iteration without placing that hash, or a list of hashes to insert is replaced by another slice (a filter: repeats inside the batch, already present, …), then Flush does not count the unfiltered batch — the argument of addToFanoutTable and the length added to the size are not the raw batch field. Counting more than was written makes a bucket cover a slot that was never filled: a lookup there reads past the data or finds a neighbour, and the next insertion shifts from the wrong end.",
		Min: 1,
		Run: func(p *Program, r *RuleResult) error {
			flush, err := p.SSAFunc("pkg/index.(*HashSet).Flush")
			if err != nil {
				return err
			}
			ath, err := p.SSAFunc("pkg/index.(*HashSet).addToHashTable")
			if err != nil {
				return err
			}
			ii, err := p.MustFuncs("pkg/index.insertIndex")
			if err != nil {
				return err
			}
			fan, err := p.MustFuncs("pkg/index.addToFanoutTable")
			if err != nil {
				return err
			}
			batch, err := p.Field("pkg/index.HashSet.batch")
			if err != nil {
				return err
			}
			size, err := p.Field("pkg/index.HashSet.size")
			if err != nil {
				return err
			}
			reach := samePkgReach(ath, inlineDepth)
			r.Analysed = len(reach) + 1
			// A: every iteration places its hash
			skipAt := ""
			nLoops := 0
			for _, fn := range reach {
				for _, c := range callsTo(fn, ii) {
					args := c.Common().Args
					elem := stripConv(args[len(args)-1])
					if !derivesFromField(elem, batch) {
						continue
					}
					h := enclosingLoop(c.Block())
					if h == nil {
						continue
					}
					nLoops++
					body := loopBody(h)
					place := map[ssa.Instruction]bool{}
					for b := range body {
						for _, in := range b.Instrs {
							if st, ok := in.(*ssa.Store); ok && stripConv(st.Val) == elem {
								place[st] = true
							}
						}
					}
					cut := cutSet{}
					for e := range loopExitEdges(h) {
						cut[e] = true
					}
					for _, pr := range h.Preds {
						if !body[pr] || len(pr.Instrs) == 0 {
							continue
						}
						if path, ok := reachAfter(fn, h.Instrs[0], pr.Instrs[len(pr.Instrs)-1], cut, place); ok {
							skipAt = fmtPath("an iteration of the insertion loop in "+funcName(fn)+" ends without placing its hash", path)
						}
					}
				}
			}
			if nLoops == 0 {
				return &AnchorError{"the loop of addToHashTable that calls insertIndex for every pending hash"}
			}
			// ... and a list of hashes to insert only grows: a [][]byte field written in the insertion
			// code is appended to (or freshly made), never replaced by a filtered copy
			if skipAt == "" {
				for _, fn := range reach {
					for _, b := range fn.Blocks {
						for _, in := range b.Instrs {
							st, ok := in.(*ssa.Store)
							if !ok {
								continue
							}
							fa, ok := st.Addr.(*ssa.FieldAddr)
							if !ok {
								continue
							}
							f := structField(fa.X.Type(), fa.Field)
							if f == nil || f == batch {
								continue
							}
							sl, ok := f.Type().Underlying().(*types.Slice)
							if !ok {
								continue
							}
							if in2, ok := sl.Elem().Underlying().(*types.Slice); !ok {
								continue
							} else if bt, ok := in2.Elem().Underlying().(*types.Basic); !ok || bt.Kind() != types.Uint8 {
								continue
							}
							grows := false
							switch v := stripConv(st.Val).(type) {
							case *ssa.Call:
								if isBuiltin(v, "append") && len(v.Call.Args) > 0 && derivesFromField(v.Call.Args[0], f) {
									grows = true
								}
							case *ssa.Slice:
								_, isLit := v.X.(*ssa.Alloc)
								grows = isLit
							case *ssa.MakeSlice:
								grows = true
							case *ssa.Const:
								grows = v.IsNil()
							}
							if !grows {
								skipAt = "the list of hashes to insert (" + f.Name() + ") is replaced by another slice at " + p.Rel(st.Pos()) + " in " + funcName(fn)
							}
						}
					}
				}
			}
			// B: Flush counts the raw batch
			rawBatch := func(v ssa.Value) bool {
				u, ok := stripConv(v).(*ssa.UnOp)
				return ok && u.Op == token.MUL && fieldAddrOf(u.X, batch)
			}
			countsRaw := ""
			for _, fn := range samePkgReach(flush, inlineDepth) {
				for _, c := range callsTo(fn, fan) {
					if a := c.Common().Args; len(a) >= 2 && rawBatch(a[1]) {
						countsRaw = "addToFanoutTable is given the whole batch (" + p.Rel(c.Pos()) + ")"
					}
				}
				for _, b := range fn.Blocks {
					for _, in := range b.Instrs {
						st, ok := in.(*ssa.Store)
						if !ok || !fieldAddrOf(st.Addr, size) {
							continue
						}
						for v := range backward(st.Val, nil) {
							if cl, ok := v.(*ssa.Call); ok && isBuiltin(cl, "len") && len(cl.Call.Args) == 1 && rawBatch(cl.Call.Args[0]) {
								if countsRaw == "" {
									countsRaw = "the size grows by len(batch) (" + p.Rel(st.Pos()) + ")"
								}
							}
						}
					}
				}
			}
			key := funcName(ath) + "|inserted=counted"
			what := "the fan-out table and the size count exactly the hashes that were written"
			switch {
			case skipAt == "":
				r.ok(key, p.Rel(ath.Pos()), what)
			case countsRaw != "":
				r.bad(key, p.Rel(ath.Pos()), what, skipAt+"; but "+countsRaw)
			default:
				r.okWhy(key, p.Rel(ath.Pos()), what, "the insertion filters the batch and Flush does not count the raw batch (the counted collection is not followed further)")
			}
			return nil
		},
	})
}

func init() {
	register(&Rule{
		ID: "C20-e", Template: "T1 must-traverse (flushed before it is consulted)",
		Doc: "The set is consulted only once it is flushed: every production call of (*HashSet).Has outside pkg/index is reachable only after a successful (*HashSet).Flush in the same function (or, if the function has none, in each of its callers) — additions still sitting in the batch are invisible to Has, so an unflushed set answers 'not a member' for a row the merge has resolved and the base version of that row is added next to it. (The property is stated for the flushed set; this is the one production consumer keeping its side of that.)",
		Min: 1,
		Run: func(p *Program, r *RuleResult) error {
			has, err := p.MustFuncs("pkg/index.(*HashSet).Has")
			if err != nil {
				return err
			}
			fl, err := p.MustFuncs("pkg/index.(*HashSet).Flush")
			if err != nil {
				return err
			}
			fns := p.ProdFuncs()
			r.Analysed = len(fns)
			gc := &guardCheck{p: p, pre: newSuccSummary(p, fl)}
			for _, fn := range fns {
				if strings.HasSuffix(fnPkgPath(fn), "/pkg/index") {
					continue
				}
				for _, c := range callsTo(fn, has) {
					key := callKey(fn, c)
					what := "membership is asked of a flushed set"
					if ok, why := gc.check(fn, c, wrapperDepth); ok {
						r.ok(key, p.Rel(c.Pos()), what)
					} else {
						r.bad(key, p.Rel(c.Pos()), what, "Has is reachable without a successful Flush before it: "+why)
					}
				}
			}
			return nil
		},
	})
}
