package main

// Rules added after the third red-team round (package boundaries, wrong outcomes of
// handled errors, guards that test the wrong thing, object reuse).

import (
	"fmt"
	"go/token"
	"go/types"
	"strings"

	"golang.org/x/tools/go/ssa"
)

func init() {
	// ---- the object store implementation keeps the contract its users rely on ----
	register(&Rule{
		ID: "C13-l", Template: "T1 must-traverse + who-may-return (store contract)",
		Doc: "A write that returned has happened: (*objbadger.Store).Set and Delete return success only after (*badger.DB).Update — a committed badger transaction — succeeded on every path (no write batch that is flushed later: the ref is written to SQLite right after, and a process that dies in between leaves the ref on a commit that was never stored); Delete stays idempotent — it returns no error other than the one (*badger.DB).Update gave it (prune deletes table indices and profiles unconditionally); and no production code opens the object store as a long-lived transaction (RepoDir.OpenObjectsTransaction / objbadger.NewTxn), whose writes are invisible and revocable until its Commit.",
		Min: 3,
		Run: func(p *Program, r *RuleResult) error {
			upd, err := externalMethods(p, "github.com/dgraph-io/badger/v3", "DB", "Update")
			if err != nil {
				return err
			}
			// an explicit transaction that is committed before returning is as durable
			if cm, err := externalMethods(p, "github.com/dgraph-io/badger/v3", "Txn", "Commit"); err == nil {
				for f := range cm {
					upd[f] = true
				}
			}
			sum := newSuccSummary(p, upd)
			r.Analysed = 2
			for _, name := range []string{"pkg/objects/badger.(*Store).Set", "pkg/objects/badger.(*Store).Delete"} {
				fn, err := p.SSAFunc(name)
				if err != nil {
					return err
				}
				what := "success is returned only after a committed badger transaction"
				if sum.wrapper(fn, wrapperDepth) {
					r.ok(funcName(fn)+"|durable", p.Rel(fn.Pos()), what)
				} else {
					r.bad(funcName(fn)+"|durable", p.Rel(fn.Pos()), what, funcName(fn)+" can return nil without (*badger.DB).Update having succeeded: the write is still in memory (a batch, a pending transaction) when the caller goes on to write the ref")
				}
				// errors returned are those of the badger call
				if strings.HasSuffix(name, "Delete") {
					bad := ""
					for _, ret := range returnsOf(fn) {
						v := retVal(ret, 0)
						if v == nil || isNilConst(v) {
							continue
						}
						ok := false
						for x := range backward(v, nil) {
							if c, isCall := x.(*ssa.Call); isCall && isCallTo(c, upd) != nil {
								ok = true
							}
						}
						if !ok {
							bad = "Delete returns an error that does not come from badger (" + p.Rel(ret.Pos()) + "): deleting an absent key must stay a no-op, prune relies on it"
						}
					}
					// … including inside the closure handed to Update: no sentinel of the repo
					var scan func(f *ssa.Function)
					scan = func(f *ssa.Function) {
						for _, ret := range returnsOf(f) {
							ei := errorResultIndex(f.Signature)
							if ei < 0 {
								continue
							}
							if v := retVal(ret, ei); v != nil {
								if u, ok := stripConv(v).(*ssa.UnOp); ok && u.Op == token.MUL {
									if g, ok := u.X.(*ssa.Global); ok && g.Pkg != nil && isRepoPkgPath(g.Pkg.Pkg.Path()) {
										bad = fmt.Sprintf("Delete answers %s.%s (%s): deleting an absent key must stay a no-op, prune deletes table indices and profiles unconditionally", g.Pkg.Pkg.Name(), g.Name(), p.Rel(ret.Pos()))
									}
								}
							}
						}
						for _, af := range f.AnonFuncs {
							scan(af)
						}
					}
					scan(fn)
					if bad != "" {
						r.bad(funcName(fn)+"|idempotent", p.Rel(fn.Pos()), "Delete reports only badger's own errors", bad)
					} else {
						r.ok(funcName(fn)+"|idempotent", p.Rel(fn.Pos()), "Delete reports only badger's own errors")
					}
				}
			}
			// no production user of the transactional store
			txnOpeners, err := p.MustFuncs("pkg/local.(*RepoDir).OpenObjectsTransaction", "pkg/objects/badger.NewTxn")
			if err != nil {
				return err
			}
			n := 0
			for _, fn := range p.ProdFuncs() {
				if strings.HasSuffix(fnPkgPath(fn), "/pkg/local") || strings.HasSuffix(fnPkgPath(fn), "/pkg/objects/badger") {
					continue
				}
				for _, c := range callsTo(fn, txnOpeners) {
					n++
					r.bad(callKey(fn, c), p.Rel(c.Pos()), "production code writes objects through the auto-committing store", funcName(fn)+" opens the object store as one long transaction: objects written through it do not exist until its Commit, while refs written meanwhile do")
				}
			}
			if n == 0 {
				r.ok("production|no-object-transaction", "", "production code writes objects through the auto-committing store")
			}
			return nil
		},
	})

	// ---- receiver: an object is stored before the next one is read ----
	register(&Rule{
		ID: "C07-h", Template: "T1 must-traverse (stored when acknowledged)",
		Doc: "Objects are stored in the order they arrive: in ObjectReceiver.Receive the handler called for a table object returns success only after objects.SaveTable succeeded, the one for a block only after objects.SaveCompressedBlock / SaveBlock, the one for a commit only after objects.SaveCommit (wrapper summaries, depth 3). A handler that only validates and queues the object for a later step lets commits of the same packfile be written before their tables; a failure in between leaves refs on commits whose tables never arrive, and the repeated fetch wants nothing.",
		Min: 3,
		Run: func(p *Program, r *RuleResult) error {
			recv, err := p.SSAFunc("pkg/api/utils.(*ObjectReceiver).Receive")
			if err != nil {
				return err
			}
			savers := map[string][]string{
				"table":  {"pkg/objects.SaveTable"},
				"block":  {"pkg/objects.SaveCompressedBlock", "pkg/objects.SaveBlock"},
				"commit": {"pkg/objects.SaveCommit"},
			}
			r.Analysed = 1
			// handlers: methods of ObjectReceiver called from Receive with the object bytes
			found := map[string]bool{}
			eachCall(recv, func(c ssa.CallInstruction) {
				sc := c.Common().StaticCallee()
				if sc == nil || sc.Signature.Recv() == nil || fnPkgPath(sc) != fnPkgPath(recv) {
					return
				}
				for kind, names := range savers {
					set, err := p.MustFuncs(names...)
					if err != nil {
						continue
					}
					// is this the handler of that kind? it reaches the saver in the call graph
					reaches := false
					for f := range p.Reachable(p.CG, sc) {
						if f.Object() != nil {
							if tf, ok := f.Object().(*types.Func); ok && set[tf] {
								reaches = true
							}
						}
					}
					nameHint := strings.Contains(strings.ToLower(sc.Name()), kind)
					if !reaches && !nameHint {
						continue
					}
					found[kind] = true
					key := fmt.Sprintf("%s|%s-handler %s", funcName(recv), kind, sc.Name())
					what := "the handler of a received " + kind + " returns success only after the " + kind + " was stored"
					if newSuccSummary(p, set).wrapper(sc, wrapperDepth) {
						r.ok(key, p.Rel(c.Pos()), what)
					} else {
						r.bad(key, p.Rel(c.Pos()), what, funcName(sc)+" can return success without "+strings.Join(names, " / ")+" having succeeded: the object is acknowledged (and later objects are stored) while it is not in the store yet")
					}
				}
			})
			for kind := range savers {
				if !found[kind] {
					r.missing(funcName(recv)+"|"+kind+"-handler", "Receive has no handler that stores a "+kind)
				}
			}
			return nil
		},
	})

	// ---- finder getters are repeatable ----
	register(&Rule{
		ID: "C08-g", Template: "T3 who-may-call (read-only getters)",
		Doc: "Asking twice gives the same answer: ClosedSetsFinder.CommitsToSend, TablesToSend and CommonCommmits do not take anything out of the finder's lists — no container/list Remove / Init / MoveTo* / PushFront and no truncation of commitLists / tableSumLists is reachable from them other than through enqueueWants (which only appends). A push session asks for the commits twice (shallow check, then the sender); a getter that consumes what it returns makes the second answer empty, and the remote ref is moved to commits that were never uploaded.",
		Min: 2,
		Run: func(p *Program, r *RuleResult) error {
			enq, err := p.SSAFunc("pkg/api/utils.(*ClosedSetsFinder).enqueueWants")
			if err != nil {
				return err
			}
			lists, err := p.Field("pkg/api/utils.ClosedSetsFinder.commitLists")
			if err != nil {
				return err
			}
			tlists, err := p.Field("pkg/api/utils.ClosedSetsFinder.tableSumLists")
			if err != nil {
				return err
			}
			r.Analysed = 3
			for _, name := range []string{"CommitsToSend", "TablesToSend", "CommonCommmits"} {
				fn, err := p.SSAFunc("pkg/api/utils.(*ClosedSetsFinder)." + name)
				if err != nil {
					return err
				}
				key := funcName(fn) + "|read-only"
				what := "the getter leaves the finder's lists as they are"
				bad := ""
				seen := map[*ssa.Function]bool{}
				var walk func(f *ssa.Function)
				walk = func(f *ssa.Function) {
					if seen[f] || f == enq || !p.IsProd(f) || len(f.Blocks) == 0 {
						return
					}
					seen[f] = true
					for _, b := range f.Blocks {
						for _, in := range b.Instrs {
							switch x := in.(type) {
							case ssa.CallInstruction:
								if cf := calleeFunc(x); cf != nil && cf.Pkg() != nil && cf.Pkg().Path() == "container/list" {
									switch cf.Name() {
									case "Remove", "Init", "MoveToFront", "MoveToBack", "MoveBefore", "MoveAfter", "PushFront", "PushBack", "InsertBefore", "InsertAfter", "PushBackList", "PushFrontList":
										bad = fmt.Sprintf("%s calls (*list.List).%s (%s): the list it reports from is modified by reporting", funcName(f), cf.Name(), p.Rel(x.Pos()))
									}
								}
								if sc := x.Common().StaticCallee(); sc != nil && fnPkgPath(sc) == fnPkgPath(fn) {
									walk(sc)
								}
							case *ssa.Store:
								if fa, ok := x.Addr.(*ssa.FieldAddr); ok {
									if fld := structField(fa.X.Type(), fa.Field); fld == lists || fld == tlists {
										bad = fmt.Sprintf("%s assigns ClosedSetsFinder.%s (%s)", funcName(f), fld.Name(), p.Rel(x.Pos()))
									}
								}
							}
						}
					}
				}
				walk(fn)
				if bad != "" {
					r.bad(key, p.Rel(fn.Pos()), what, bad)
				} else {
					r.ok(key, p.Rel(fn.Pos()), what)
				}
			}
			return nil
		},
	})

	// ---- prune: marking loops are complete ----
	register(&Rule{
		ID: "C12-i", Template: "loop completeness (marks)",
		Doc: "Every block and block index of a surviving table is marked: in pkg/prune a loop whose body sets a keep-mark (a store of `true` into a []bool) has no way out other than its end and error returns — no break, no early `continue` to an outer loop — and each iteration reaches the mark on every path that does not fail. A marking loop that stops at the first block it finds already marked skips the rest of a table that merely shares its first blocks with another, and the sweep deletes them.",
		Min: 2,
		Run: func(p *Program, r *RuleResult) error {
			if _, err := p.Func("pkg/prune.Prune"); err != nil {
				return err
			}
			fns := p.FuncsInPkg("pkg/prune")
			r.Analysed = len(fns)
			isMarkStore := func(in ssa.Instruction) bool {
				st, ok := in.(*ssa.Store)
				if !ok {
					return false
				}
				ia, ok := st.Addr.(*ssa.IndexAddr)
				if !ok {
					return false
				}
				sl, ok := ia.X.Type().Underlying().(*types.Slice)
				if !ok {
					return false
				}
				if bt, ok := sl.Elem().Underlying().(*types.Basic); !ok || bt.Kind() != types.Bool {
					return false
				}
				c, ok := st.Val.(*ssa.Const)
				return ok && c.Value != nil && c.Value.String() == "true"
			}
			// helpers that set a mark outside any loop of their own (the loop is their caller's)
			markFn := map[*ssa.Function]bool{}
			for round := 0; round < 2; round++ {
				for _, fn := range fns {
					for _, b := range fn.Blocks {
						for _, in := range b.Instrs {
							if enclosingLoop(b) != nil {
								continue
							}
							if isMarkStore(in) {
								markFn[fn] = true
							} else if c, ok := in.(ssa.CallInstruction); ok {
								if sc := c.Common().StaticCallee(); sc != nil && markFn[sc] {
									markFn[fn] = true
								}
							}
						}
					}
				}
			}
			for _, fn := range fns {
				done := map[*ssa.BasicBlock]bool{}
				n := 0
				for _, b := range fn.Blocks {
					for _, in := range b.Instrs {
						isMark := isMarkStore(in)
						if c, ok := in.(ssa.CallInstruction); ok && !isMark {
							if sc := c.Common().StaticCallee(); sc != nil && markFn[sc] {
								isMark = true
							}
						}
						if !isMark {
							continue
						}
						st := in
						h := enclosingLoop(b)
						if h == nil || done[h] {
							continue
						}
						done[h] = true
						key := fmt.Sprintf("%s|mark-loop#%d", funcName(fn), n)
						n++
						what := "a loop that sets keep-marks runs to its end"
						bad := ""
						for e := range loopExitEdges(h) {
							if e.from == h {
								continue
							}
							if !leadsToErrorReturn(fn, e.from.Succs[e.succ]) {
								bad = fmt.Sprintf("the loop is left early at %s without an error: the elements after that one are never marked", p.Rel(e.from.Instrs[len(e.from.Instrs)-1].Pos()))
							}
						}
						if bad != "" {
							r.bad(key, p.Rel(st.Pos()), what, bad)
						} else {
							r.ok(key, p.Rel(st.Pos()), what)
						}
					}
				}
			}
			return nil
		},
	})

	// ---- HTTP client: Content-Length is advisory ----
	register(&Rule{
		ID: "C18-c", Template: "who-may-read (advisory header)",
		Doc: "The body is read until it ends, not until a header says so: in pkg/api/client no value read from http.Response.ContentLength reaches the limit of io.LimitReader / io.CopyN / a make size / a slice bound. ContentLength is -1 for chunked or streamed responses; a reader limited by it delivers nothing, and the packfile decoder sees an empty stream or a truncated one depending on how the server happened to frame the same bytes.",
		Min: 1,
		Run: func(p *Program, r *RuleResult) error {
			var cl *types.Var
			for _, pkg := range p.SSA.AllPackages() {
				if pkg.Pkg != nil && pkg.Pkg.Path() == "net/http" {
					if tn, ok := pkg.Pkg.Scope().Lookup("Response").(*types.TypeName); ok {
						st := tn.Type().Underlying().(*types.Struct)
						for i := 0; i < st.NumFields(); i++ {
							if st.Field(i).Name() == "ContentLength" {
								cl = st.Field(i)
							}
						}
					}
				}
			}
			if cl == nil {
				return &AnchorError{"net/http.Response.ContentLength"}
			}
			fns := p.FuncsInPkg("pkg/api/client", "pkg/api/utils", "pkg/encoding/packfile")
			r.Analysed = len(fns)
			n := 0
			for _, fn := range fns {
				for _, b := range fn.Blocks {
					for _, in := range b.Instrs {
						var ops []ssa.Value
						what := ""
						switch x := in.(type) {
						case *ssa.Call:
							if f := calleeFunc(x); f != nil && f.Pkg() != nil && f.Pkg().Path() == "io" && (f.Name() == "LimitReader" || f.Name() == "CopyN" || f.Name() == "NewSectionReader") {
								ops, what = x.Call.Args, "io."+f.Name()
							}
						case *ssa.MakeSlice:
							ops, what = []ssa.Value{x.Len, x.Cap}, "make"
						}
						for _, o := range ops {
							if o != nil && derivesFromField(o, cl) {
								n++
								r.bad(fmt.Sprintf("%s|%s(ContentLength)", funcName(fn), what), p.Rel(in.Pos()), "Content-Length never bounds how much of a body is read", funcName(fn)+" feeds http.Response.ContentLength into "+what+": -1 (unknown length) yields an empty or truncated stream")
							}
						}
					}
				}
			}
			if n == 0 {
				r.ok("pkg/api/client|content-length-unused", "", "Content-Length never bounds how much of a body is read")
			}
			return nil
		},
	})
}

// externalMethods: a method of a named type of a non-repo package.
func externalMethods(p *Program, pkgPath, typeName, method string) (map[*types.Func]bool, error) {
	return stdMethods(p, pkgPath, map[string][]string{typeName: {method}})
}

var _ = token.ADD

func init() {
	register(&Rule{
		ID: "C05-g", Template: "origin (merge commit of a single non-base input)",
		Doc: "Merging a branch with something it already contains changes nothing: in every function of cmd/wrgl that computes a merge base, a call of a local helper that creates a merge commit (a helper that writes a ref) on a path reachable only through `len(inputs that differ from the base) == 1` passes, as the table, a value derived from that one input (an element of the list filled under the 'differs from the base' edge) — not from whichever commit was listed last. With --no-ff and the branch ahead of the merged commit, the merge commit would otherwise carry the base's table and silently revert the branch.",
		Min: 1,
		Run: func(p *Program, r *RuleResult) error {
			sca, err := p.MustFuncs("pkg/ref.SeekCommonAncestor")
			if err != nil {
				return err
			}
			writers, err := p.MustFuncs("pkg/ref.SaveRef", "pkg/ref.CommitMerge", "pkg/ref.CommitHead")
			if err != nil {
				return err
			}
			fns := p.FuncsInPkg("cmd/wrgl")
			r.Analysed = len(fns)
			helper := map[*ssa.Function]bool{}
			for _, fn := range fns {
				if len(callsTo(fn, writers)) > 0 {
					helper[fn] = true
				}
			}
			for _, fn := range fns {
				filtered, oneEdges, ok := ffContext(fn, sca)
				if !ok || len(oneEdges) == 0 {
					continue
				}
				eachCall(fn, func(c ssa.CallInstruction) {
					sc := c.Common().StaticCallee()
					if sc == nil || sc == fn || !helper[sc] {
						return
					}
					if _, reach := reachAfter(fn, nil, c, mkCut(oneEdges), nil); reach {
						return // not specific to the single-input case
					}
					key := callKey(fn, c) + "|single-input"
					what := "the merge commit of a single non-base input carries that input's table"
					// []byte arguments (sums) must come from the filtered list
					n := 0
					bad := ""
					for i, a := range c.Common().Args {
						sl, isSl := a.Type().Underlying().(*types.Slice)
						if !isSl || !isByte(sl.Elem()) {
							continue
						}
						n++
						from := false
						for x := range backwardCalls(a) {
							if ia, ok := x.(*ssa.IndexAddr); ok && filtered[ia.X] {
								from = true
							}
						}
						if !from {
							bad = fmt.Sprintf("argument %d (%s) does not derive from the one input that differs from the merge base", i, a.Name())
						}
					}
					if n == 0 {
						return
					}
					if bad != "" {
						r.bad(key, p.Rel(c.Pos()), what, bad)
					} else {
						r.ok(key, p.Rel(c.Pos()), what)
					}
				})
			}
			return nil
		},
	})
}

func init() {
	register(&Rule{
		ID: "C16-k", Template: "T3 who-may-call (unsynchronised store, one worker)",
		Doc: "The in-memory object store is a bare map: a production function that ingests into an *objmock.Store (the throw-away store `wrgl diff FILE FILE` and `wrgl preview` build) never asks the inserter for several workers — no ingest.WithNumWorkers option is built in a function that has such a store in hand. Workers write blocks concurrently; on a map without a lock that is `fatal error: concurrent map writes`.",
		Min: 1,
		Run: func(p *Program, r *RuleResult) error {
			wnw, err := p.MustFuncs("pkg/ingest.WithNumWorkers")
			if err != nil {
				return err
			}
			mock, err := p.NamedType("pkg/objects/mock.Store")
			if err != nil {
				return err
			}
			isMock := func(t types.Type) bool {
				if pt, ok := t.(*types.Pointer); ok {
					t = pt.Elem()
				}
				nt, ok := t.(*types.Named)
				return ok && nt.Obj() == mock.Obj()
			}
			fns := p.ProdFuncs()
			r.Analysed = len(fns)
			n := 0
			for _, fn := range fns {
				has := false
				for _, par := range fn.Params {
					if isMock(par.Type()) {
						has = true
					}
				}
				for _, b := range fn.Blocks {
					for _, in := range b.Instrs {
						if v, ok := in.(ssa.Value); ok && isMock(v.Type()) {
							has = true
						}
					}
				}
				if !has {
					continue
				}
				n++
				key := funcName(fn) + "|mock-store-workers"
				what := "an ingest into the unsynchronised in-memory store uses the default single worker"
				if cs := callsTo(fn, wnw); len(cs) > 0 {
					r.bad(key, p.Rel(cs[0].Pos()), what, funcName(fn)+" builds ingest.WithNumWorkers while holding an *objmock.Store: several workers would write its map concurrently")
				} else {
					r.ok(key, p.Rel(fn.Pos()), what)
				}
			}
			if n == 0 {
				r.ok("production|no-mock-store", "", "an ingest into the unsynchronised in-memory store uses the default single worker")
			}
			return nil
		},
	})

	register(&Rule{
		ID: "C08-h", Template: "provenance (a want is confirmed by the walk only)",
		Doc: "Wants not reachable from any ref are refused: in the function of pkg/api/utils that builds *UnrecognizedWantsError, every commit that is handed to a local check (isFullCommit) on the way to confirming a want is the one (*CommitsQueue).PopUntil handed out — the walk from all refs found it — or nil; never a commit fetched from the object store by hash. Looking the hash up directly accepts commits of deleted, not yet pruned branches.",
		Min: 1,
		Run: func(p *Program, r *RuleResult) error {
			popUntil, err := p.MustFuncs("pkg/ref.(*CommitsQueue).PopUntil")
			if err != nil {
				return err
			}
			fns := p.FuncsInPkg("pkg/api/utils")
			r.Analysed = len(fns)
			for _, fn := range fns {
				builds := false
				for _, b := range fn.Blocks {
					for _, in := range b.Instrs {
						if al, ok := in.(*ssa.Alloc); ok {
							if pt, ok := al.Type().(*types.Pointer); ok {
								if nt, ok := pt.Elem().(*types.Named); ok && nt.Obj().Name() == "UnrecognizedWantsError" {
									builds = true
								}
							}
						}
					}
				}
				if !builds {
					continue
				}
				// every commit handed to a fullness / confirmation check comes from the walk
				n := 0
				eachCall(fn, func(c ssa.CallInstruction) {
					sc := c.Common().StaticCallee()
					if sc == nil || sc == fn || fnPkgPath(sc) != fnPkgPath(fn) {
						return
					}
					for ai, a := range c.Common().Args {
						pt, ok := a.Type().(*types.Pointer)
						if !ok {
							continue
						}
						if nt, ok := pt.Elem().(*types.Named); !ok || nt.Obj().Name() != "Commit" {
							continue
						}
						n++
						key := fmt.Sprintf("%s|arg%d-from-walk", callKey(fn, c), ai)
						what := "the commit a want is confirmed with was handed out by the ref walk"
						bad := ""
						for x := range backward(a, nil) {
							cc, isCall := x.(*ssa.Call)
							if !isCall {
								continue
							}
							if isCallTo(cc, popUntil) == nil {
								bad = fmt.Sprintf("the commit can come from %s (%s) instead of (*CommitsQueue).PopUntil: a hash that no ref leads to is accepted because the object happens to be in the store", calleeLabel(cc), p.Rel(cc.Pos()))
							}
						}
						if bad != "" {
							r.bad(key, p.Rel(c.Pos()), what, bad)
						} else {
							r.ok(key, p.Rel(c.Pos()), what)
						}
					}
				})
				if n == 0 {
					r.missing(funcName(fn)+"|commit-check", "the function that refuses unreachable wants no longer checks a commit handed out by the walk")
				}
			}
			return nil
		},
	})

	register(&Rule{
		ID: "C08-i", Template: "T1 must-traverse (seen-across-wants is filled from finished walks)",
		Doc: "A commit is skipped as 'already listed' only when it is: in (*ClosedSetsFinder).enqueueWants the set that lets a later want stop at commits walked for an earlier one (the local map that the walk looks up with the comma-ok form and whose hit skips the commit) is extended only after the earlier want's commit list has been appended to ClosedSetsFinder.commitLists, on every path of the iteration. Filling it when a want is merely postponed makes other wants stop at commits that are in no list yet; they are listed later, after their children.",
		Min: 1,
		Run: func(p *Program, r *RuleResult) error {
			fn, err := p.SSAFunc("pkg/api/utils.(*ClosedSetsFinder).enqueueWants")
			if err != nil {
				return err
			}
			lists, err := p.Field("pkg/api/utils.ClosedSetsFinder.commitLists")
			if err != nil {
				return err
			}
			r.Analysed = 1
			// the append of a finished want's list
			block := map[ssa.Instruction]bool{}
			for _, b := range fn.Blocks {
				for _, in := range b.Instrs {
					if st, ok := in.(*ssa.Store); ok {
						if fa, ok := st.Addr.(*ssa.FieldAddr); ok && structField(fa.X.Type(), fa.Field) == lists {
							block[st] = true
						}
					}
				}
			}
			if len(block) == 0 {
				r.missing(funcName(fn)+"|commitLists", "enqueueWants no longer appends to ClosedSetsFinder.commitLists")
				return nil
			}
			// local maps that are looked up with comma-ok (membership sets)
			sets := map[ssa.Value]bool{}
			for _, b := range fn.Blocks {
				for _, in := range b.Instrs {
					if lk, ok := in.(*ssa.Lookup); ok && lk.CommaOk {
						if mm, ok := lk.X.(*ssa.MakeMap); ok {
							sets[mm] = true
						}
					}
				}
			}
			n := 0
			for _, b := range fn.Blocks {
				for _, in := range b.Instrs {
					mu, ok := in.(*ssa.MapUpdate)
					if !ok || !sets[mu.Map] {
						continue
					}
					mm := mu.Map.(*ssa.MakeMap)
					// only sets that live across wants: created outside the loop over wants.
					// outer = the outermost loop around the update that does not contain the MakeMap
					var outer *ssa.BasicBlock
					for _, cand := range fn.Blocks {
						if !isLoopHeader(cand) {
							continue
						}
						body := loopBody(cand)
						if !body[b] || body[mm.Block()] {
							continue
						}
						if outer == nil || body[outer] {
							outer = cand
						}
					}
					if outer == nil {
						continue
					}
					key := fmt.Sprintf("%s|seen-across-wants#%d", funcName(fn), n)
					n++
					what := "the cross-want seen set is extended only after the want's list was appended"
					cut := loopExitEdges(outer)
					if path, reach := reachAfter(fn, outer.Instrs[0], mu, cut, block); reach {
						r.bad(key, p.Rel(mu.Pos()), what, fmtPath("the set is extended on a path of the want's iteration that has not appended its commit list", path))
					} else {
						r.ok(key, p.Rel(mu.Pos()), what)
					}
				}
			}
			if n == 0 {
				r.missing(funcName(fn)+"|seen-across-wants", "no cross-want seen set found in enqueueWants")
			}
			return nil
		},
	})

	register(&Rule{
		ID: "C05-h", Template: "T4 refusal edge (versions keyed differently are not merged)",
		Doc: "A merge lines rows up by key: in pkg/merge, wherever the primary keys of two versions are compared (a string-slice equality whose operands come from (*objects.Table).PrimaryKey()), the 'differ' outcome ends the operation with an error on every path. A version that is logged and left out sends no row events, which the row merge reads as 'removed by that branch': every row the other branches did not touch is deleted.",
		Min: 1,
		Run: func(p *Program, r *RuleResult) error {
			pkf, err := p.MustFuncs("pkg/objects.(*Table).PrimaryKey")
			if err != nil {
				return err
			}
			fns := p.FuncsInPkg("pkg/merge")
			r.Analysed = len(fns)
			for _, fn := range fns {
				n := 0
				eachCall(fn, func(c ssa.CallInstruction) {
					call, ok := c.(*ssa.Call)
					if !ok || len(call.Call.Args) != 2 {
						return
					}
					if b, ok := call.Type().Underlying().(*types.Basic); !ok || b.Kind() != types.Bool {
						return
					}
					fromPK := 0
					for _, a := range call.Call.Args {
						for x := range backward(a, nil) {
							if cc, ok := x.(*ssa.Call); ok && isCallTo(cc, pkf) != nil {
								fromPK++
								break
							}
						}
					}
					if fromPK == 0 {
						return
					}
					key := fmt.Sprintf("%s|pk-compare#%d", funcName(fn), n)
					n++
					what := "versions whose primary keys differ are refused"
					differ := boolEdges(fn, forward([]ssa.Value{call}, fwdOpts{noBinOp: true}), false)
					if len(differ) == 0 {
						r.bad(key, p.Rel(c.Pos()), what, "the result of the key comparison does not decide a branch")
						return
					}
					for _, e := range differ {
						if ok, _ := abortsOnly(fn, e.from.Succs[e.succ], nil, nil, map[*ssa.BasicBlock]bool{}); !ok {
							r.bad(key, p.Rel(c.Pos()), what, "when the keys differ "+funcName(fn)+" can carry on (the odd version is skipped, logged or merged anyway)")
							return
						}
					}
					r.ok(key, p.Rel(c.Pos()), what)
				})
			}
			return nil
		},
	})

	register(&Rule{
		ID: "C06-h", Template: "ownership (the store gets its own copy)",
		Doc: "A stored value cannot change after it was stored: objects.saveObj hands objects.Store.Set a slice it has allocated itself (make + copy in the same function), never the caller's slice. Store implementations may keep the slice (the badger transaction store does until commit) and the callers of Save* reuse their buffers for the next object; without the copy a pending block is overwritten by the block index encoded after it and ends up stored under a key that is not the hash of its bytes.",
		Min: 1,
		Run: func(p *Program, r *RuleResult) error {
			fn, err := p.SSAFunc("pkg/objects.saveObj")
			if err != nil {
				return err
			}
			set, err := ifaceMethods(p, "pkg/objects.Store", "Set")
			if err != nil {
				return err
			}
			r.Analysed = 1
			n := 0
			eachCall(fn, func(c ssa.CallInstruction) {
				cc := c.Common()
				if !cc.IsInvoke() || !set[cc.Method] || len(cc.Args) < 2 {
					return
				}
				n++
				key := callKey(fn, c) + "|own-copy"
				what := "the value handed to Store.Set is a private copy"
				v := cc.Args[1]
				fresh := false
				for x := range backward(v, nil) {
					if _, ok := x.(*ssa.MakeSlice); ok {
						fresh = true
					}
					// append([]byte(nil), v...) allocates as well
					if ap, ok := x.(*ssa.Call); ok && isBuiltin(ap, "append") && len(ap.Call.Args) > 0 && isNilConst(stripConv(ap.Call.Args[0])) {
						fresh = true
					}
				}
				fromParam := false
				for x := range backward(v, nil) {
					if _, ok := x.(*ssa.Parameter); ok {
						if _, isSl := x.Type().Underlying().(*types.Slice); isSl {
							fromParam = true
						}
					}
				}
				if fresh && !fromParam {
					r.ok(key, p.Rel(c.Pos()), what)
				} else {
					r.bad(key, p.Rel(c.Pos()), what, "saveObj passes the caller's slice on to Store.Set: a store that keeps it sees whatever the caller encodes into that buffer next")
				}
			})
			if n == 0 {
				r.missing(funcName(fn)+"|Set", "saveObj no longer calls Store.Set")
			}
			return nil
		},
	})

	register(&Rule{
		ID: "C15-i", Template: "who-may-bind (no Go byte length in SQL)",
		Doc: "Prefixes are compared by the database's own notion of length: no argument bound to a statement of pkg/ref/sql derives from Go's len() of a string. SQLite's substr/length count characters, Go's len counts bytes; a prefix with a multi-byte character (a remote called `café`) compared through a Go-computed length matches nothing, and exclusion prefixes exclude nothing.",
		Min: 5,
		Run: func(p *Program, r *RuleResult) error {
			fns := p.FuncsInPkg("pkg/ref/sql")
			r.Analysed = len(fns)
			// helpers that build the argument list (they return a []interface{})
			for _, fn := range fns {
				returnsArgs := false
				res := fn.Signature.Results()
				for i := 0; i < res.Len(); i++ {
					if sl, ok := res.At(i).Type().Underlying().(*types.Slice); ok {
						if it, ok := sl.Elem().Underlying().(*types.Interface); ok && it.NumMethods() == 0 {
							returnsArgs = true
						}
					}
				}
				if !returnsArgs {
					continue
				}
				key := funcName(fn) + "|built-args"
				what := "no bound argument is a Go byte length"
				bad := ""
				for _, b := range fn.Blocks {
					for _, in := range b.Instrs {
						mi, ok := in.(*ssa.MakeInterface)
						if !ok {
							continue
						}
						for x := range backward(mi.X, nil) {
							if lc, ok := x.(*ssa.Call); ok && isBuiltin(lc, "len") && len(lc.Call.Args) == 1 {
								if bt, ok := lc.Call.Args[0].Type().Underlying().(*types.Basic); ok && bt.Info()&types.IsString != 0 {
									bad = "len() of a Go string is put into the argument list at " + p.Rel(mi.Pos()) + ": byte counts and SQLite's character counts differ for non-ASCII names"
								}
							}
						}
					}
				}
				if bad != "" {
					r.bad(key, p.Rel(fn.Pos()), what, bad)
				} else {
					r.ok(key, p.Rel(fn.Pos()), what)
				}
			}
			for _, fn := range fns {
				eachCall(fn, func(c ssa.CallInstruction) {
					if _, _, ok := isSQLCall(c); !ok {
						return
					}
					key := callKey(fn, c) + "|bound-args"
					what := "no bound argument is a Go byte length"
					bad := false
					check := func(v ssa.Value) {
						for x := range backward(v, nil) {
							if lc, ok := x.(*ssa.Call); ok && isBuiltin(lc, "len") && len(lc.Call.Args) == 1 {
								if b, ok := lc.Call.Args[0].Type().Underlying().(*types.Basic); ok && b.Info()&types.IsString != 0 {
									bad = true
								}
							}
						}
					}
					for _, el := range variadicElems(c) {
						check(el)
					}
					// a pre-built []interface{} handed over with args...
					args := c.Common().Args
					if len(args) > 0 {
						last := args[len(args)-1]
						if _, isSl := last.Type().Underlying().(*types.Slice); isSl {
							for x := range backward(last, nil) {
								if ap, ok := x.(*ssa.Call); ok && isBuiltin(ap, "append") && len(ap.Call.Args) == 2 {
									if els, ok := sliceLitElems(ap.Call.Args[1]); ok {
										for _, e := range els {
											check(e)
										}
									}
								}
							}
						}
					}
					if bad {
						r.bad(key, p.Rel(c.Pos()), what, "a value computed with len() of a Go string is bound into the statement: byte counts and SQLite's character counts differ for non-ASCII names")
					} else {
						r.ok(key, p.Rel(c.Pos()), what)
					}
				})
			}
			return nil
		},
	})
}

func isLoopHeader(b *ssa.BasicBlock) bool {
	for _, p := range b.Preds {
		if b.Dominates(p) {
			return true
		}
	}
	return false
}

func init() {
	register(&Rule{
		ID: "C10-j", Template: "loop completeness (a rejection does not end the operation)",
		Doc: "Other refs in the same operation are unaffected by a rejection: in every function of cmd/wrgl/fetch that writes refs inside a loop over the fetched refs, a return inside that loop carries an error that was returned by a call in the loop (a store or object read that failed) — never an error built on the spot for a refused ref (non-fast-forward, would clobber a tag). A refusal is displayed and the loop goes on; returning there leaves every ref that sorts after the refused one un-updated.",
		Min: 1,
		Run: func(p *Program, r *RuleResult) error {
			c, err := newC10(p)
			if err != nil {
				return err
			}
			fns := p.FuncsInPkg("cmd/wrgl/fetch")
			r.Analysed = len(fns)
			for _, fn := range fns {
				ei := errorResultIndex(fn.Signature)
				if ei < 0 {
					continue
				}
				loops := map[*ssa.BasicBlock]bool{}
				for _, s := range c.sites(fn) {
					if h := enclosingLoop(s.in.Block()); h != nil {
						// outermost loop around the site
						for {
							up := (*ssa.BasicBlock)(nil)
							for _, cand := range fn.Blocks {
								if cand != h && isLoopHeader(cand) && loopBody(cand)[h] {
									up = cand
								}
							}
							if up == nil {
								break
							}
							h = up
						}
						loops[h] = true
					}
				}
				for h := range loops {
					body := loopBody(h)
					n := 0
					for _, ret := range returnsOf(fn) {
						// returns that belong to the loop: reachable from the body without leaving through the header
						inLoopRet := false
						for b := range body {
							if b == h {
								continue
							}
							if blockReachesWithout(b, ret.Block(), h) {
								inLoopRet = true
								break
							}
						}
						if !inLoopRet || body[ret.Block()] == false && !reachedOnlyFromLoop(fn, ret.Block(), body, h) {
							continue
						}
						v := retVal(ret, ei)
						if v == nil || isNilConst(v) {
							continue
						}
						key := fmt.Sprintf("%s|return-in-ref-loop#%d", funcName(fn), n)
						n++
						what := "a return inside the loop over fetched refs reports a failed call, not a refused ref"
						operational := false
						for x := range backwardCalls(v) {
							var call *ssa.Call
							switch y := x.(type) {
							case *ssa.Extract:
								call, _ = y.Tuple.(*ssa.Call)
								if call != nil && !isErrorType(y.Type()) {
									call = nil
								}
							case *ssa.Call:
								if isErrorType(y.Type()) {
									call = y
								}
							}
							if call == nil {
								continue
							}
							if !definitelyNonNilError(call) && !isConstructorCall(call) {
								operational = true
							}
						}
						if operational {
							r.ok(key, p.Rel(ret.Pos()), what)
						} else {
							r.bad(key, p.Rel(ret.Pos()), what, "the returned error is constructed here, no failed call stands behind it: a refused ref ends the whole save loop and the refs after it are silently left alone")
						}
					}
					if n == 0 {
						r.ok(fmt.Sprintf("%s|ref-loop@%d", funcName(fn), h.Index), p.Rel(fn.Pos()), "a return inside the loop over fetched refs reports a failed call, not a refused ref")
					}
				}
			}
			return nil
		},
	})

	register(&Rule{
		ID: "C10-k", Template: "T3 who-may-write (option escalation stays local)",
		Doc: "Force for one remote is not force for the next: no function of cmd/wrgl or cmd/wrgl/fetch assigns a field whose name says force or mirror through a pointer it received as a parameter (or captured). pushSingleRepo turns force on for a remote configured as a mirror; done on a local copy that ends with the call, done through an options struct shared by `wrgl push --all` it makes every later repository of the same run a forced (and mirrored: remote-only refs deleted) push.",
		Min: 1,
		Run: func(p *Program, r *RuleResult) error {
			if _, err := p.Func("cmd/wrgl.pushSingleRepo"); err != nil {
				return err
			}
			fns := p.FuncsInPkg("cmd/wrgl", "cmd/wrgl/fetch")
			r.Analysed = len(fns)
			n := 0
			for _, fn := range fns {
				for _, b := range fn.Blocks {
					for _, in := range b.Instrs {
						st, ok := in.(*ssa.Store)
						if !ok {
							continue
						}
						fa, ok := st.Addr.(*ssa.FieldAddr)
						if !ok {
							continue
						}
						f := structField(fa.X.Type(), fa.Field)
						if f == nil || !(forceName.MatchString(f.Name()) || strings.Contains(strings.ToLower(f.Name()), "mirror")) {
							continue
						}
						shared := false
						for x := range backward(fa.X, nil) {
							switch x.(type) {
							case *ssa.Parameter, *ssa.FreeVar:
								shared = true
							}
						}
						if !shared {
							continue
						}
						// constructors that fill a fresh struct are fine (the pointer is a local Alloc)
						n++
						r.bad(fmt.Sprintf("%s|%s=", funcName(fn), f.Name()), p.Rel(st.Pos()), "a force / mirror option is not escalated through a shared pointer", funcName(fn)+" assigns "+f.Name()+" through a pointer it was given: the escalation outlives this call and applies to the caller's next repository")
					}
				}
			}
			if n == 0 {
				r.ok("cmd/wrgl|option-escalation-local", "", "a force / mirror option is not escalated through a shared pointer")
			}
			return nil
		},
	})
}

// isConstructorCall: a repo function whose every return is a non-nil error.
func isConstructorCall(c *ssa.Call) bool {
	return nonNilErrorDepth(c, 0)
}

// blockReachesWithout: is `to` reachable from `from` without passing through `avoid`?
func blockReachesWithout(from, to, avoid *ssa.BasicBlock) bool {
	seen := map[*ssa.BasicBlock]bool{avoid: true}
	stack := []*ssa.BasicBlock{from}
	for len(stack) > 0 {
		x := stack[len(stack)-1]
		stack = stack[:len(stack)-1]
		if x == to {
			return true
		}
		if seen[x] {
			continue
		}
		seen[x] = true
		stack = append(stack, x.Succs...)
	}
	return false
}

// reachedOnlyFromLoop: every predecessor chain of b that starts at the function
// entry passes through the loop body (b is an exit arm of the loop, e.g. its
// `return err`).
func reachedOnlyFromLoop(fn *ssa.Function, b *ssa.BasicBlock, body map[*ssa.BasicBlock]bool, h *ssa.BasicBlock) bool {
	return h.Dominates(b)
}

func init() {
	register(&Rule{
		ID: "C06-i", Template: "T1 must-traverse (scratch bytes are filled before they are written)",
		Doc: "Only bytes that were put there are written out: in pkg/encoding/..., and pkg/objects a slice obtained from (encoding.Bufferer).Buffer(n) — scratch space shared by all fields of an object, holding whatever the previous field left — reaches a Write call (or is returned) only after, on every path, something was stored into it (element stores, copy, binary.PutUint…, a Read into it). Writing it as-is, e.g. as 'sixteen zero bytes' for a zero time, emits the previous field's bytes and the object does not read back.",
		Min: 5,
		Run: func(p *Program, r *RuleResult) error {
			bufm, err := ifaceMethods(p, "pkg/encoding.Bufferer", "Buffer")
			if err != nil {
				return err
			}
			var fns []*ssa.Function
			for _, fn := range p.ProdFuncs() {
				pkg := strings.TrimPrefix(fnPkgPath(fn), modPath+"/")
				if pkg == "pkg/objects" || pkg == "pkg/encoding" || strings.HasPrefix(pkg, "pkg/encoding/") {
					fns = append(fns, fn)
				}
			}
			r.Analysed = len(fns)
			for _, fn := range fns {
				eachCall(fn, func(c ssa.CallInstruction) {
					cc := c.Common()
					isBuf := cc.IsInvoke() && bufm[cc.Method]
					if !isBuf {
						if f := calleeFunc(c); f == nil || f.Name() != "Buffer" || f.Type().(*types.Signature).Recv() == nil {
							return
						} else if sl, ok := f.Type().(*types.Signature).Results().At(0).Type().Underlying().(*types.Slice); !ok || !isByte(sl.Elem()) {
							return
						}
					}
					bv, ok := c.(*ssa.Call)
					if !ok {
						return
					}
					D := forward([]ssa.Value{bv}, fwdOpts{noBinOp: true})
					// fill events
					fills := map[ssa.Instruction]bool{}
					var sinks []ssa.Instruction
					for _, b := range fn.Blocks {
						for _, in := range b.Instrs {
							switch x := in.(type) {
							case *ssa.Store:
								if ia, ok := x.Addr.(*ssa.IndexAddr); ok && D[ia.X] {
									fills[x] = true
									// a loop that stores into every element fills the buffer: passing
									// its header counts (the zero-trip path means an empty buffer)
									if h := enclosingLoop(b); h != nil && len(h.Instrs) > 0 {
										early := false
										for e := range loopExitEdges(h) {
											if e.from != h {
												early = true
											}
										}
										if !early {
											fills[h.Instrs[0]] = true
										}
									}
								}
							case ssa.CallInstruction:
								if x == c {
									continue
								}
								filled := false
								for _, ai := range fillerArg(x) {
									if ai < len(x.Common().Args) && D[x.Common().Args[ai]] {
										filled = true
									}
								}
								if f := calleeFunc(x); f != nil && f.Pkg() != nil && f.Pkg().Path() == "encoding/binary" && strings.HasPrefix(f.Name(), "Put") {
									for _, a := range x.Common().Args {
										if D[a] {
											filled = true
										}
									}
								}
								if filled {
									fills[x] = true
									continue
								}
								// a Write (or any other call) that takes the bytes
								for _, a := range x.Common().Args {
									if D[a] {
										if xc := x.Common(); xc.IsInvoke() && xc.Method.Name() == "Write" || calleeFunc(x) != nil && calleeFunc(x).Name() == "Write" {
											sinks = append(sinks, x)
										}
									}
								}
							case *ssa.Return:
								for _, rv := range x.Results {
									if D[rv] {
										sinks = append(sinks, x)
									}
								}
							}
						}
					}
					for i, s := range sinks {
						key := fmt.Sprintf("%s|scratch→%d", callKey(fn, c), i)
						what := "scratch bytes are filled before they are written out"
						if path, reach := reachAfter(fn, c, s, nil, fills); reach {
							r.bad(key, p.Rel(s.Pos()), what, fmtPath("the bytes from Buffer() are written without anything having been stored into them: they still hold the previous field", path))
						} else {
							r.ok(key, p.Rel(s.Pos()), what)
						}
					}
				})
			}
			return nil
		},
	})
}

func init() {
	register(&Rule{
		ID: "C13-m", Template: "T1 must-traverse (a successful fetch saved its refs)",
		Doc: "A fetch that reports success has written its refs: cmd/wrgl/fetch.Fetch — itself or through helpers of the package — returns success only after saveFetchedRefs succeeded. 'Nothing to download' is not 'nothing to do': after an attempt that stored the objects and was interrupted before the refs, and for a remote ref that moved onto a commit already present, the objects phase has nothing left to fetch while the refs still have to be written; a shortcut past saveFetchedRefs makes the re-run report success with the remote-tracking refs never updated.",
		Min: 1,
		Run: func(p *Program, r *RuleResult) error {
			fn, err := p.SSAFunc("cmd/wrgl/fetch.Fetch")
			if err != nil {
				return err
			}
			save, err := p.MustFuncs("cmd/wrgl/fetch.saveFetchedRefs")
			if err != nil {
				return err
			}
			r.Analysed = 1
			ms := &mustSummary{match: func(in ssa.Instruction) bool {
				c, ok := in.(*ssa.Call)
				if !ok {
					return false
				}
				f := calleeFunc(c)
				return f != nil && save[f]
			}}
			key := funcName(fn) + "|refs-saved"
			what := "a fetch succeeds only after its refs were saved"
			if ok, ret := ms.check(fn, inlineDepth); ok {
				r.ok(key, p.Rel(fn.Pos()), what)
			} else if ret != nil {
				r.bad(key, p.Rel(ret.Pos()), what, "a successful return of Fetch (or of the helper it delegates to) is reachable without a successful saveFetchedRefs")
			} else {
				r.bad(key, p.Rel(fn.Pos()), what, "saveFetchedRefs is not reached from Fetch")
			}
			return nil
		},
	})
}

func init() {
	register(&Rule{
		ID: "C05-i", Template: "T10 agreement (parallel per-layer lists are written together)",
		Doc: "A layer's row sum and that row's position stay together: merge.Merge.Others[i] (the sum of the row in branch i) and Merge.OtherOffsets[i] (where that row is in branch i's table) are parallel lists; in pkg/merge every element store into one of them has, in the same basic block, an element store into the other with the same index value on the same Merge. The resolver fetches a branch's row through OtherOffsets[layer]; a sum recorded under one index with its offset under another (or under none) makes it read a different row of that branch — silently, the cell values of row 0 for instance.",
		Min: 2,
		Run: func(p *Program, r *RuleResult) error {
			others, err := p.Field("pkg/merge.Merge.Others")
			if err != nil {
				return err
			}
			offs, err := p.Field("pkg/merge.Merge.OtherOffsets")
			if err != nil {
				return err
			}
			fns := p.FuncsInPkg("pkg/merge")
			r.Analysed = len(fns)
			type elemStore struct {
				st   *ssa.Store
				ia   *ssa.IndexAddr
				base ssa.Value // the Merge
				fld  *types.Var
			}
			for _, fn := range fns {
				var stores []elemStore
				for _, b := range fn.Blocks {
					for _, in := range b.Instrs {
						st, ok := in.(*ssa.Store)
						if !ok {
							continue
						}
						ia, ok := st.Addr.(*ssa.IndexAddr)
						if !ok {
							continue
						}
						u, ok := stripConv(ia.X).(*ssa.UnOp)
						if !ok || u.Op != token.MUL {
							continue
						}
						fa, ok := u.X.(*ssa.FieldAddr)
						if !ok {
							continue
						}
						f := structField(fa.X.Type(), fa.Field)
						if f != others && f != offs {
							continue
						}
						stores = append(stores, elemStore{st, ia, fa.X, f})
					}
				}
				n := 0
				for _, s := range stores {
					key := fmt.Sprintf("%s|%s[i]#%d", funcName(fn), s.fld.Name(), n)
					n++
					what := "a layer's row sum and row offset are recorded under the same index"
					paired := false
					for _, t := range stores {
						if t.fld == s.fld || t.st.Block() != s.st.Block() {
							continue
						}
						if sameIndexVal(s.ia.Index, t.ia.Index) && (sameObject(s.base, t.base) || sameElem(s.base, t.base)) {
							paired = true
						}
					}
					if paired {
						r.ok(key, p.Rel(s.st.Pos()), what)
					} else {
						other := "OtherOffsets"
						if s.fld == offs {
							other = "Others"
						}
						r.bad(key, p.Rel(s.st.Pos()), what, fmt.Sprintf("%s[%s] is written here without %s[%s] being written next to it: the two lists no longer describe the same row of that layer", s.fld.Name(), s.ia.Index.Name(), other, s.ia.Index.Name()))
					}
				}
			}
			return nil
		},
	})
}
