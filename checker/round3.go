package main

// Rules added after the third red-team round (package boundaries, wrong outcomes of
// handled errors, guards that test the wrong thing, object reuse).

import (
	"fmt"
	"go/token"
	"go/types"
	"strings"

	"golang.org/x/tools/go/ssa"
)

func init() {
	// ---- the object store implementation keeps the contract its users rely on ----
	register(&Rule{
		ID: "C13-l", Template: "T1 must-traverse + who-may-return (store contract)",
		Doc: "A write that returned has happened: (*objbadger.Store).Set and Delete return success only after (*badger.DB).Update — a committed badger transaction — succeeded on every path (no write batch that is flushed later: the ref is written to SQLite right after, and a process that dies in between leaves the ref on a commit that was never stored); Delete stays idempotent — it returns no error other than the one (*badger.DB).Update gave it (prune deletes table indices and profiles unconditionally); and no production code opens the object store as a long-lived transaction (RepoDir.OpenObjectsTransaction / objbadger.NewTxn), whose writes are invisible and revocable until its Commit.",
		Min: 3,
		Run: func(p *Program, r *RuleResult) error {
			upd, err := externalMethods(p, "github.com/dgraph-io/badger/v3", "DB", "Update")
			if err != nil {
				return err
			}
			sum := newSuccSummary(p, upd)
			r.Analysed = 2
			for _, name := range []string{"pkg/objects/badger.(*Store).Set", "pkg/objects/badger.(*Store).Delete"} {
				fn, err := p.SSAFunc(name)
				if err != nil {
					return err
				}
				what := "success is returned only after a committed badger transaction"
				if sum.wrapper(fn, wrapperDepth) {
					r.ok(funcName(fn)+"|durable", p.Rel(fn.Pos()), what)
				} else {
					r.bad(funcName(fn)+"|durable", p.Rel(fn.Pos()), what, funcName(fn)+" can return nil without (*badger.DB).Update having succeeded: the write is still in memory (a batch, a pending transaction) when the caller goes on to write the ref")
				}
				// errors returned are those of the badger call
				if strings.HasSuffix(name, "Delete") {
					bad := ""
					for _, ret := range returnsOf(fn) {
						v := retVal(ret, 0)
						if v == nil || isNilConst(v) {
							continue
						}
						ok := false
						for x := range backward(v, nil) {
							if c, isCall := x.(*ssa.Call); isCall && isCallTo(c, upd) != nil {
								ok = true
							}
						}
						if !ok {
							bad = "Delete returns an error that does not come from badger (" + p.Rel(ret.Pos()) + "): deleting an absent key must stay a no-op, prune relies on it"
						}
					}
					if bad != "" {
						r.bad(funcName(fn)+"|idempotent", p.Rel(fn.Pos()), "Delete reports only badger's own errors", bad)
					} else {
						r.ok(funcName(fn)+"|idempotent", p.Rel(fn.Pos()), "Delete reports only badger's own errors")
					}
				}
			}
			// no production user of the transactional store
			txnOpeners, err := p.MustFuncs("pkg/local.(*RepoDir).OpenObjectsTransaction", "pkg/objects/badger.NewTxn")
			if err != nil {
				return err
			}
			n := 0
			for _, fn := range p.ProdFuncs() {
				if strings.HasSuffix(fnPkgPath(fn), "/pkg/local") || strings.HasSuffix(fnPkgPath(fn), "/pkg/objects/badger") {
					continue
				}
				for _, c := range callsTo(fn, txnOpeners) {
					n++
					r.bad(callKey(fn, c), p.Rel(c.Pos()), "production code writes objects through the auto-committing store", funcName(fn)+" opens the object store as one long transaction: objects written through it do not exist until its Commit, while refs written meanwhile do")
				}
			}
			if n == 0 {
				r.ok("production|no-object-transaction", "", "production code writes objects through the auto-committing store")
			}
			return nil
		},
	})

	// ---- receiver: an object is stored before the next one is read ----
	register(&Rule{
		ID: "C07-h", Template: "T1 must-traverse (stored when acknowledged)",
		Doc: "Objects are stored in the order they arrive: in ObjectReceiver.Receive the handler called for a table object returns success only after objects.SaveTable succeeded, the one for a block only after objects.SaveCompressedBlock / SaveBlock, the one for a commit only after objects.SaveCommit (wrapper summaries, depth 3). A handler that only validates and queues the object for a later step lets commits of the same packfile be written before their tables; a failure in between leaves refs on commits whose tables never arrive, and the repeated fetch wants nothing.",
		Min: 3,
		Run: func(p *Program, r *RuleResult) error {
			recv, err := p.SSAFunc("pkg/api/utils.(*ObjectReceiver).Receive")
			if err != nil {
				return err
			}
			savers := map[string][]string{
				"table":  {"pkg/objects.SaveTable"},
				"block":  {"pkg/objects.SaveCompressedBlock", "pkg/objects.SaveBlock"},
				"commit": {"pkg/objects.SaveCommit"},
			}
			r.Analysed = 1
			// handlers: methods of ObjectReceiver called from Receive with the object bytes
			found := map[string]bool{}
			eachCall(recv, func(c ssa.CallInstruction) {
				sc := c.Common().StaticCallee()
				if sc == nil || sc.Signature.Recv() == nil || fnPkgPath(sc) != fnPkgPath(recv) {
					return
				}
				for kind, names := range savers {
					set, err := p.MustFuncs(names...)
					if err != nil {
						continue
					}
					// is this the handler of that kind? it reaches the saver in the call graph
					reaches := false
					for f := range p.Reachable(p.CG, sc) {
						if f.Object() != nil {
							if tf, ok := f.Object().(*types.Func); ok && set[tf] {
								reaches = true
							}
						}
					}
					nameHint := strings.Contains(strings.ToLower(sc.Name()), kind)
					if !reaches && !nameHint {
						continue
					}
					found[kind] = true
					key := fmt.Sprintf("%s|%s-handler %s", funcName(recv), kind, sc.Name())
					what := "the handler of a received " + kind + " returns success only after the " + kind + " was stored"
					if newSuccSummary(p, set).wrapper(sc, wrapperDepth) {
						r.ok(key, p.Rel(c.Pos()), what)
					} else {
						r.bad(key, p.Rel(c.Pos()), what, funcName(sc)+" can return success without "+strings.Join(names, " / ")+" having succeeded: the object is acknowledged (and later objects are stored) while it is not in the store yet")
					}
				}
			})
			for kind := range savers {
				if !found[kind] {
					r.missing(funcName(recv)+"|"+kind+"-handler", "Receive has no handler that stores a "+kind)
				}
			}
			return nil
		},
	})

	// ---- finder getters are repeatable ----
	register(&Rule{
		ID: "C08-g", Template: "T3 who-may-call (read-only getters)",
		Doc: "Asking twice gives the same answer: ClosedSetsFinder.CommitsToSend, TablesToSend and CommonCommmits do not take anything out of the finder's lists — no container/list Remove / Init / MoveTo* / PushFront and no truncation of commitLists / tableSumLists is reachable from them other than through enqueueWants (which only appends). A push session asks for the commits twice (shallow check, then the sender); a getter that consumes what it returns makes the second answer empty, and the remote ref is moved to commits that were never uploaded.",
		Min: 2,
		Run: func(p *Program, r *RuleResult) error {
			enq, err := p.SSAFunc("pkg/api/utils.(*ClosedSetsFinder).enqueueWants")
			if err != nil {
				return err
			}
			lists, err := p.Field("pkg/api/utils.ClosedSetsFinder.commitLists")
			if err != nil {
				return err
			}
			tlists, err := p.Field("pkg/api/utils.ClosedSetsFinder.tableSumLists")
			if err != nil {
				return err
			}
			r.Analysed = 3
			for _, name := range []string{"CommitsToSend", "TablesToSend", "CommonCommmits"} {
				fn, err := p.SSAFunc("pkg/api/utils.(*ClosedSetsFinder)." + name)
				if err != nil {
					return err
				}
				key := funcName(fn) + "|read-only"
				what := "the getter leaves the finder's lists as they are"
				bad := ""
				seen := map[*ssa.Function]bool{}
				var walk func(f *ssa.Function)
				walk = func(f *ssa.Function) {
					if seen[f] || f == enq || !p.IsProd(f) || len(f.Blocks) == 0 {
						return
					}
					seen[f] = true
					for _, b := range f.Blocks {
						for _, in := range b.Instrs {
							switch x := in.(type) {
							case ssa.CallInstruction:
								if cf := calleeFunc(x); cf != nil && cf.Pkg() != nil && cf.Pkg().Path() == "container/list" {
									switch cf.Name() {
									case "Remove", "Init", "MoveToFront", "MoveToBack", "MoveBefore", "MoveAfter", "PushFront", "PushBack", "InsertBefore", "InsertAfter", "PushBackList", "PushFrontList":
										bad = fmt.Sprintf("%s calls (*list.List).%s (%s): the list it reports from is modified by reporting", funcName(f), cf.Name(), p.Rel(x.Pos()))
									}
								}
								if sc := x.Common().StaticCallee(); sc != nil && fnPkgPath(sc) == fnPkgPath(fn) {
									walk(sc)
								}
							case *ssa.Store:
								if fa, ok := x.Addr.(*ssa.FieldAddr); ok {
									if fld := structField(fa.X.Type(), fa.Field); fld == lists || fld == tlists {
										bad = fmt.Sprintf("%s assigns ClosedSetsFinder.%s (%s)", funcName(f), fld.Name(), p.Rel(x.Pos()))
									}
								}
							}
						}
					}
				}
				walk(fn)
				if bad != "" {
					r.bad(key, p.Rel(fn.Pos()), what, bad)
				} else {
					r.ok(key, p.Rel(fn.Pos()), what)
				}
			}
			return nil
		},
	})

	// ---- prune: marking loops are complete ----
	register(&Rule{
		ID: "C12-i", Template: "loop completeness (marks)",
		Doc: "Every block and block index of a surviving table is marked: in pkg/prune a loop whose body sets a keep-mark (a store of `true` into a []bool) has no way out other than its end and error returns — no break, no early `continue` to an outer loop — and each iteration reaches the mark on every path that does not fail. A marking loop that stops at the first block it finds already marked skips the rest of a table that merely shares its first blocks with another, and the sweep deletes them.",
		Min: 2,
		Run: func(p *Program, r *RuleResult) error {
			if _, err := p.Func("pkg/prune.Prune"); err != nil {
				return err
			}
			fns := p.FuncsInPkg("pkg/prune")
			r.Analysed = len(fns)
			for _, fn := range fns {
				done := map[*ssa.BasicBlock]bool{}
				n := 0
				for _, b := range fn.Blocks {
					for _, in := range b.Instrs {
						st, ok := in.(*ssa.Store)
						if !ok {
							continue
						}
						ia, ok := st.Addr.(*ssa.IndexAddr)
						if !ok {
							continue
						}
						sl, ok := ia.X.Type().Underlying().(*types.Slice)
						if !ok {
							continue
						}
						if bt, ok := sl.Elem().Underlying().(*types.Basic); !ok || bt.Kind() != types.Bool {
							continue
						}
						if c, ok := st.Val.(*ssa.Const); !ok || c.Value == nil || c.Value.String() != "true" {
							continue
						}
						h := enclosingLoop(b)
						if h == nil || done[h] {
							continue
						}
						done[h] = true
						key := fmt.Sprintf("%s|mark-loop#%d", funcName(fn), n)
						n++
						what := "a loop that sets keep-marks runs to its end"
						bad := ""
						for e := range loopExitEdges(h) {
							if e.from == h {
								continue
							}
							if !leadsToErrorReturn(fn, e.from.Succs[e.succ]) {
								bad = fmt.Sprintf("the loop is left early at %s without an error: the elements after that one are never marked", p.Rel(e.from.Instrs[len(e.from.Instrs)-1].Pos()))
							}
						}
						if bad != "" {
							r.bad(key, p.Rel(st.Pos()), what, bad)
						} else {
							r.ok(key, p.Rel(st.Pos()), what)
						}
					}
				}
			}
			return nil
		},
	})

	// ---- HTTP client: Content-Length is advisory ----
	register(&Rule{
		ID: "C18-c", Template: "who-may-read (advisory header)",
		Doc: "The body is read until it ends, not until a header says so: in pkg/api/client no value read from http.Response.ContentLength reaches the limit of io.LimitReader / io.CopyN / a make size / a slice bound. ContentLength is -1 for chunked or streamed responses; a reader limited by it delivers nothing, and the packfile decoder sees an empty stream or a truncated one depending on how the server happened to frame the same bytes.",
		Min: 1,
		Run: func(p *Program, r *RuleResult) error {
			var cl *types.Var
			for _, pkg := range p.SSA.AllPackages() {
				if pkg.Pkg != nil && pkg.Pkg.Path() == "net/http" {
					if tn, ok := pkg.Pkg.Scope().Lookup("Response").(*types.TypeName); ok {
						st := tn.Type().Underlying().(*types.Struct)
						for i := 0; i < st.NumFields(); i++ {
							if st.Field(i).Name() == "ContentLength" {
								cl = st.Field(i)
							}
						}
					}
				}
			}
			if cl == nil {
				return &AnchorError{"net/http.Response.ContentLength"}
			}
			fns := p.FuncsInPkg("pkg/api/client", "pkg/api/utils", "pkg/encoding/packfile")
			r.Analysed = len(fns)
			n := 0
			for _, fn := range fns {
				for _, b := range fn.Blocks {
					for _, in := range b.Instrs {
						var ops []ssa.Value
						what := ""
						switch x := in.(type) {
						case *ssa.Call:
							if f := calleeFunc(x); f != nil && f.Pkg() != nil && f.Pkg().Path() == "io" && (f.Name() == "LimitReader" || f.Name() == "CopyN" || f.Name() == "NewSectionReader") {
								ops, what = x.Call.Args, "io."+f.Name()
							}
						case *ssa.MakeSlice:
							ops, what = []ssa.Value{x.Len, x.Cap}, "make"
						}
						for _, o := range ops {
							if o != nil && derivesFromField(o, cl) {
								n++
								r.bad(fmt.Sprintf("%s|%s(ContentLength)", funcName(fn), what), p.Rel(in.Pos()), "Content-Length never bounds how much of a body is read", funcName(fn)+" feeds http.Response.ContentLength into "+what+": -1 (unknown length) yields an empty or truncated stream")
							}
						}
					}
				}
			}
			if n == 0 {
				r.ok("pkg/api/client|content-length-unused", "", "Content-Length never bounds how much of a body is read")
			}
			return nil
		},
	})
}

// externalMethods: a method of a named type of a non-repo package.
func externalMethods(p *Program, pkgPath, typeName, method string) (map[*types.Func]bool, error) {
	return stdMethods(p, pkgPath, map[string][]string{typeName: {method}})
}

var _ = token.ADD
