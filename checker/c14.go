package main

import (
	"go/token"
	"go/types"

	"golang.org/x/tools/go/ssa"
)

// txMutators: ref-store mutations a transaction entry point performs.
func txMutators(p *Program) (map[*types.Func]bool, error) {
	set, err := p.MustFuncs("pkg/ref.SaveRef", "pkg/ref.DeleteTransactionRefs", "pkg/ref.CommitHead", "pkg/ref.DeleteRef", "pkg/ref.DeleteHead")
	if err != nil {
		return nil, err
	}
	store, err := p.NamedType("pkg/ref.Store")
	if err != nil {
		return nil, err
	}
	iface := store.Underlying().(*types.Interface)
	n := 0
	for i := 0; i < iface.NumMethods(); i++ {
		switch iface.Method(i).Name() {
		case "UpdateTransaction", "DeleteTransaction", "Set", "SetWithLog", "Delete", "Rename", "Copy":
			set[iface.Method(i)] = true
			n++
		}
	}
	if n != 7 {
		return nil, &AnchorError{"ref.Store mutating methods"}
	}
	return set, nil
}

// statusIfs: the If instructions of fn whose condition is data-derived from a
// load of ref.Transaction.Status, or that test the error of a repo helper which
// itself contains such an If.
func statusIfs(p *Program, fn *ssa.Function, status *types.Var, depth int) []*ssa.If {
	var seeds []ssa.Value
	for _, b := range fn.Blocks {
		for _, in := range b.Instrs {
			switch x := in.(type) {
			case *ssa.FieldAddr:
				if structField(x.X.Type(), x.Field) == status {
					for _, ref := range *x.Referrers() {
						if u, ok := ref.(*ssa.UnOp); ok && u.Op == token.MUL {
							seeds = append(seeds, u)
						}
					}
				}
			case *ssa.Field:
				if structField(x.X.Type(), x.Field) == status {
					seeds = append(seeds, x)
				}
			case *ssa.Call:
				if depth > 0 {
					if sc := x.Call.StaticCallee(); sc != nil && isRepoPkgPath(fnPkgPath(sc)) && len(sc.Blocks) > 0 && errorResultIndex(sc.Signature) >= 0 {
						if len(statusIfs(p, sc, status, depth-1)) > 0 {
							for v := range errValuesOfCall(x) {
								seeds = append(seeds, v)
							}
						}
					}
				}
			}
		}
	}
	vals := forward(seeds, fwdOpts{})
	var out []*ssa.If
	for _, b := range fn.Blocks {
		if len(b.Instrs) == 0 {
			continue
		}
		if ifi, ok := b.Instrs[len(b.Instrs)-1].(*ssa.If); ok && vals[ifi.Cond] {
			out = append(out, ifi)
		}
	}
	return out
}

func init() {
	register(&Rule{
		ID: "C14-a", Template: "T1 must-traverse (typestate guard)",
		Doc: "In pkg/transaction every exported function that takes a transaction id and mutates refs or the transaction row passes, on every path to each mutation, a test of ref.Transaction.Status one of whose outcomes leaves without mutating: a committed transaction cannot be committed again or discarded.",
		Min: 4,
		Run: func(p *Program, r *RuleResult) error {
			muts, err := txMutators(p)
			if err != nil {
				return err
			}
			status, err := p.Field("pkg/ref.Transaction.Status")
			if err != nil {
				return err
			}
			for _, name := range []string{"pkg/transaction.Commit", "pkg/transaction.Discard"} {
				if _, err := p.Func(name); err != nil {
					return err
				}
			}
			fns := p.FuncsInPkg("pkg/transaction")
			r.Analysed = len(fns)
			for _, fn := range fns {
				if fn.Parent() != nil || fn.Object() == nil || !fn.Object().Exported() {
					continue
				}
				// entry points that change the state of one transaction
				if fn.Name() != "Commit" && fn.Name() != "Discard" {
					continue
				}
				effs := effSites(p, fn, muts, inlineDepth)
				var sites []ssa.CallInstruction
				for _, e := range effs {
					sites = append(sites, e.site)
				}
				ifs := statusIfs(p, fn, status, 1)
				blockers := map[ssa.Instruction]bool{}
				for _, i := range ifs {
					blockers[i] = true
				}
				// a guard must have an outcome from which no mutation is reachable
				realGuard := false
				for _, i := range ifs {
					for _, succ := range i.Block().Succs {
						reachesMut := false
						for _, s := range sites {
							if len(succ.Instrs) > 0 {
								if _, reach := reachAfter(fn, nil, s, nil, nil); reach {
									// reachable from entry; now from succ specifically
									if blockReaches(succ, s) {
										reachesMut = true
									}
								}
							}
						}
						if !reachesMut {
							realGuard = true
						}
					}
				}
				for _, e := range effs {
					s := e.site
					what := "transaction mutation happens only after the transaction's status was tested"
					key := effKey(fn, e)
					// a helper that tests the status itself before its mutation
					guardedInside := false
					for lvl, h := range e.via {
						hb := map[ssa.Instruction]bool{}
						for _, i := range statusIfs(p, h, status, 1) {
							hb[i] = true
						}
						if len(hb) == 0 {
							continue
						}
						if _, reach := reachAfter(h, nil, e.chain[lvl+1], nil, hb); !reach {
							guardedInside = true
						}
					}
					if guardedInside {
						r.okWhy(key, p.Rel(s.Pos()), what, "the helper tests Transaction.Status before its mutation"+viaText(e))
						continue
					}
					if len(ifs) == 0 {
						r.bad(key, p.Rel(s.Pos()), what, funcName(fn)+" never reads Transaction.Status"+viaText(e))
						continue
					}
					if path, reach := reachAfter(fn, nil, s, nil, blockers); reach {
						r.bad(key, p.Rel(s.Pos()), what, fmtPath("mutation reachable before any test of Transaction.Status"+viaText(e), path))
						continue
					}
					if !realGuard {
						r.bad(key, p.Rel(s.Pos()), what, "the status test has no outcome that avoids the mutations")
						continue
					}
					r.ok(key, p.Rel(s.Pos()), what)
				}
			}
			return nil
		},
	})

	register(&Rule{
		ID: "C14-b", Template: "T4 permit-cut (idempotent re-run)",
		Doc: "transaction.Commit can be completed by re-running it: every ref mutation inside its per-branch loop is reachable only through the 'not yet logged' edge of a lookup in the map returned by ref.Store.GetTransactionLogs(id), so a branch already moved by an interrupted attempt is not committed a second time.",
		Min: 1,
		Run: func(p *Program, r *RuleResult) error {
			fn, err := p.SSAFunc("pkg/transaction.Commit")
			if err != nil {
				return err
			}
			sr, err := p.MustFuncs("pkg/ref.SaveRef", "pkg/ref.CommitHead")
			if err != nil {
				return err
			}
			store, err := p.NamedType("pkg/ref.Store")
			if err != nil {
				return err
			}
			var gtl *types.Func
			iface := store.Underlying().(*types.Interface)
			for i := 0; i < iface.NumMethods(); i++ {
				if iface.Method(i).Name() == "GetTransactionLogs" {
					gtl = iface.Method(i)
				}
			}
			if gtl == nil {
				return &AnchorError{"ref.Store.GetTransactionLogs"}
			}
			r.Analysed = 1
			var logs []ssa.Value
			eachCall(fn, func(c ssa.CallInstruction) {
				if call, ok := c.(*ssa.Call); ok && c.Common().IsInvoke() && c.Common().Method == gtl {
					for _, ref := range *call.Referrers() {
						if ex, ok := ref.(*ssa.Extract); ok && ex.Index == 0 {
							logs = append(logs, ex)
						}
					}
				}
			})
			logSet := forward(logs, fwdOpts{noBinOp: true})
			var okVals []ssa.Value
			var lookupKeys []ssa.Value
			for _, b := range fn.Blocks {
				for _, in := range b.Instrs {
					if lk, ok := in.(*ssa.Lookup); ok && lk.CommaOk && logSet[lk.X] {
						lookupKeys = append(lookupKeys, lk.Index)
						for _, ref := range *lk.Referrers() {
							if ex, ok := ref.(*ssa.Extract); ok && ex.Index == 1 {
								okVals = append(okVals, ex)
							}
						}
					}
				}
			}
			cut := mkCut(boolEdges(fn, forward(okVals, fwdOpts{noBinOp: true}), false))
			for _, e := range effSites(p, fn, sr, inlineDepth) {
				s := e.site
				what := "branch moved only if this transaction has not already moved it"
				key := effKey(fn, e)
				if len(logs) == 0 {
					r.bad(key, p.Rel(s.Pos()), what, "transaction.Commit does not consult GetTransactionLogs: a re-run after a failure at the k-th branch stacks duplicate commits on the first k-1 branches")
					continue
				}
				// the membership test must ask for the name the update will be logged under
				keyAgrees := false
				if args := e.inner.Common().Args; len(args) >= 2 {
					for _, lkKey := range lookupKeys {
						if sameElemSub(lkKey, args[1], e.sub) {
							keyAgrees = true
						}
					}
				}
				// the lookup may sit in the helper that holds the update, handed the logs as an
				// argument (round 7, N2-r8): look for a guarded level down the chain of helpers
				guardedBelow := false
				if len(e.via) > 0 {
					ls := logSet
					for i, g := range e.via {
						var seeds []ssa.Value
						cargs := e.chain[i].Common().Args
						for j, prm := range g.Params {
							if j < len(cargs) && ls[cargs[j]] {
								seeds = append(seeds, prm)
							}
						}
						if len(seeds) == 0 {
							break
						}
						ls = forward(seeds, fwdOpts{noBinOp: true})
						var oks, keys []ssa.Value
						for _, b := range g.Blocks {
							for _, in := range b.Instrs {
								if lk, ok := in.(*ssa.Lookup); ok && lk.CommaOk && ls[lk.X] {
									keys = append(keys, lk.Index)
									for _, ref := range *lk.Referrers() {
										if ex, ok := ref.(*ssa.Extract); ok && ex.Index == 1 {
											oks = append(oks, ex)
										}
									}
								}
							}
						}
						if len(oks) == 0 || i+1 >= len(e.chain) {
							continue
						}
						gcut := mkCut(boolEdges(g, forward(oks, fwdOpts{noBinOp: true}), false))
						if _, reach := reachAfter(g, nil, e.chain[i+1], gcut, nil); reach {
							continue
						}
						if args := e.inner.Common().Args; len(args) >= 2 {
							for _, k := range keys {
								if sameElemSub(k, args[1], e.sub) {
									guardedBelow = true
								}
							}
						}
					}
				}
				if guardedBelow {
					r.okWhy(key, p.Rel(s.Pos()), what, "guarded by the lookup inside the helper that is handed the transaction's logs"+viaText(e))
				} else if path, reach := reachAfter(fn, nil, s, cut, nil); reach {
					r.bad(key, p.Rel(s.Pos()), what, fmtPath("ref update reachable without passing the not-yet-logged edge", path))
				} else if !keyAgrees {
					r.bad(key, p.Rel(s.Pos()), what, "the transaction-log lookup uses a different key than the ref name the update is logged under (the reflog is keyed by the full ref name): the test can never find an already-moved branch")
				} else {
					r.ok(key, p.Rel(s.Pos()), what)
				}
			}
			return nil
		},
	})

	register(&Rule{
		ID: "C14-c", Template: "T3 who-may-call (reachability)",
		Doc: "Discarding never touches a branch: no head-ref write (ref.SaveRef, CommitHead, ref.Store.SetWithLog) and no non-transaction ref delete is reachable from transaction.Discard other than ref.DeleteTransactionRefs and ref.Store.DeleteTransaction.",
		Min: 1,
		Run: func(p *Program, r *RuleResult) error {
			fn, err := p.SSAFunc("pkg/transaction.Discard")
			if err != nil {
				return err
			}
			forbidden, err := p.MustFuncs("pkg/ref.SaveRef", "pkg/ref.CommitHead", "pkg/ref.CommitMerge", "pkg/ref.SaveTag", "pkg/ref.SaveRemoteRef", "pkg/ref.DeleteHead", "pkg/ref.DeleteTag", "pkg/ref.DeleteRemoteRef", "pkg/ref.DeleteAllRemoteRefs", "pkg/ref.RenameRef", "pkg/ref.CopyRef", "pkg/ref.RenameAllRemoteRefs")
			if err != nil {
				return err
			}
			reach := map[*ssa.Function]bool{}
			// production functions reachable through static calls only (the store's
			// implementation is behind the interface and not part of this rule)
			var walk func(f *ssa.Function)
			walk = func(f *ssa.Function) {
				if reach[f] || !p.IsProd(f) {
					return
				}
				reach[f] = true
				eachCall(f, func(c ssa.CallInstruction) {
					if sc := c.Common().StaticCallee(); sc != nil {
						walk(sc)
					}
				})
				for _, af := range f.AnonFuncs {
					walk(af)
				}
			}
			walk(fn)
			r.Analysed = len(reach)
			bad := false
			for f := range reach {
				for _, c := range callsTo(f, forbidden) {
					r.bad(callKey(f, c), p.Rel(c.Pos()), "no branch/tag/remote ref mutation reachable from Discard", funcName(f)+" is reachable from transaction.Discard")
					bad = true
				}
				eachCall(f, func(c ssa.CallInstruction) {
					cc := c.Common()
					if cc.IsInvoke() && (cc.Method.Name() == "SetWithLog" || cc.Method.Name() == "Set" || cc.Method.Name() == "Rename" || cc.Method.Name() == "Copy") && cc.Method.Pkg() != nil && cc.Method.Pkg().Path() == modPath+"/pkg/ref" {
						r.bad(callKey(f, c), p.Rel(c.Pos()), "no ref write reachable from Discard", funcName(f)+" is reachable from transaction.Discard")
						bad = true
					}
				})
			}
			if !bad {
				r.ok(funcName(fn)+"|reachable-ref-writes", p.Rel(fn.Pos()), "no branch/tag/remote ref mutation reachable from Discard")
			}
			return nil
		},
	})
}

// blockReaches: is instruction `to` reachable from the start of block b?
func blockReaches(b *ssa.BasicBlock, to ssa.Instruction) bool {
	seen := map[*ssa.BasicBlock]bool{}
	stack := []*ssa.BasicBlock{b}
	for len(stack) > 0 {
		x := stack[len(stack)-1]
		stack = stack[:len(stack)-1]
		if seen[x] {
			continue
		}
		seen[x] = true
		if x == to.Block() {
			return true
		}
		stack = append(stack, x.Succs...)
	}
	return false
}

func init() {
	register(&Rule{
		ID: "C14-f", Template: "T2 never-follows (the record goes last)",
		Doc: "A discard that was interrupted can be run again: in transaction.Discard (and the helpers it calls) no deletion of staged refs (ref.DeleteTransactionRefs) is reachable after the transaction's own record was deleted (ref.Store.DeleteTransaction). With the record gone first, a failure while the staged refs are removed leaves txs/<id>/* behind for good: Discard answers 'no such transaction' from then on and garbage collection, which starts from the records, never finds them.",
		Min: 1,
		Run: func(p *Program, r *RuleResult) error {
			fn, err := p.SSAFunc("pkg/transaction.Discard")
			if err != nil {
				return err
			}
			refDel, err := p.MustFuncs("pkg/ref.DeleteTransactionRefs")
			if err != nil {
				return err
			}
			rowDel, err := ifaceMethods(p, "pkg/ref.Store", "DeleteTransaction")
			if err != nil {
				return err
			}
			r.Analysed = 1
			rows := effSites(p, fn, rowDel, inlineDepth)
			refs := effSites(p, fn, refDel, inlineDepth)
			if len(rows) == 0 {
				r.missing(funcName(fn)+"|record", "transaction.Discard does not delete the transaction record")
				return nil
			}
			if len(refs) == 0 {
				r.bad(funcName(fn)+"|staged-refs", p.Rel(fn.Pos()), "Discard removes the staged refs", "ref.DeleteTransactionRefs is not reached from transaction.Discard")
				return nil
			}
			for _, a := range rows {
				key := effKey(fn, a) + "|last"
				what := "the transaction record is deleted after the staged refs"
				bad := ""
				for _, b := range refs {
					if a.site == b.site {
						// both inside one helper: look inside it
						continue
					}
					if path, reach := reachAfter(fn, a.site, b.site, nil, nil); reach {
						bad = fmtPath("staged refs are deleted ("+p.Rel(b.inner.Pos())+") after the record was deleted ("+p.Rel(a.inner.Pos())+")", path)
					}
				}
				// the same inside helpers that contain both
				for _, h := range a.via {
					hr := effSites(p, h, rowDel, 0)
					hf := effSites(p, h, refDel, 0)
					for _, x := range hr {
						for _, y := range hf {
							if path, reach := reachAfter(h, x.site, y.site, nil, nil); reach {
								bad = fmtPath("in "+funcName(h)+" staged refs are deleted after the record was deleted", path)
							}
						}
					}
				}
				if bad != "" {
					r.bad(key, p.Rel(a.site.Pos()), what, bad)
				} else {
					r.ok(key, p.Rel(a.site.Pos()), what)
				}
			}
			return nil
		},
	})
}
