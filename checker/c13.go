package main

import (
	"go/types"

	"golang.org/x/tools/go/ssa"
)

func init() {
	register(&Rule{
		ID: "C13-a", Template: "T2 never-follows",
		Doc: "The table object is the commit point: in every production function that writes a table object (objects.SaveTable), no write of an index derived from it (SaveTableIndex, SaveBlockIndex, or a wrapper that performs one, e.g. ingest.IndexTable) can follow the SaveTable call on any path. A crash between the two would leave a table that is advertised as present (TableExist / negotiation) without its index.",
		Min: 2,
		Run: func(p *Program, r *RuleResult) error {
			st, err := p.MustFuncs("pkg/objects.SaveTable")
			if err != nil {
				return err
			}
			derived, err := p.MustFuncs("pkg/objects.SaveTableIndex", "pkg/objects.SaveBlockIndex")
			if err != nil {
				return err
			}
			sum := newSuccSummary(p, derived)
			fns := p.ProdFuncs()
			r.Analysed = len(fns)
			for _, fn := range fns {
				as := callsTo(fn, st)
				if len(as) == 0 {
					continue
				}
				var bs []ssa.CallInstruction
				eachCall(fn, func(c ssa.CallInstruction) {
					if call, ok := c.(*ssa.Call); ok && sum.matches(call, wrapperDepth) {
						bs = append(bs, call)
					}
				})
				for _, a := range as {
					what := "no derived-index write after the table object is written"
					if ok, w := neverFollows(p, fn, []ssa.CallInstruction{a}, bs); ok {
						r.ok(callKey(fn, a), p.Rel(a.Pos()), what)
					} else {
						r.bad(callKey(fn, a), p.Rel(a.Pos()), what, w)
					}
				}
			}
			return nil
		},
	})
}

var _ = types.Typ
