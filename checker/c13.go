package main

import (
	"fmt"
	"go/types"

	"golang.org/x/tools/go/ssa"
)

func init() {
	register(&Rule{
		ID: "C13-a", Template: "T2 never-follows",
		Doc: "The table object is the commit point: in every production function that writes a table object (objects.SaveTable), no write of an index derived from it (SaveTableIndex, SaveBlockIndex, or a wrapper that performs one, e.g. ingest.IndexTable) can follow the SaveTable call on any path. A crash between the two would leave a table that is advertised as present (TableExist / negotiation) without its index.",
		Min: 2,
		Run: func(p *Program, r *RuleResult) error {
			st, err := p.MustFuncs("pkg/objects.SaveTable")
			if err != nil {
				return err
			}
			derived, err := p.MustFuncs("pkg/objects.SaveTableIndex", "pkg/objects.SaveBlockIndex")
			if err != nil {
				return err
			}
			sum := newSuccSummary(p, derived)
			fns := p.ProdFuncs()
			r.Analysed = len(fns)
			for _, fn := range fns {
				as := callsTo(fn, st)
				if len(as) == 0 {
					continue
				}
				var bs []ssa.CallInstruction
				eachCall(fn, func(c ssa.CallInstruction) {
					if call, ok := c.(*ssa.Call); ok && sum.matches(call, wrapperDepth) {
						bs = append(bs, call)
					}
				})
				for _, a := range as {
					what := "no derived-index write after the table object is written"
					if ok, w := neverFollows(p, fn, []ssa.CallInstruction{a}, bs); ok {
						r.ok(callKey(fn, a), p.Rel(a.Pos()), what)
					} else {
						r.bad(callKey(fn, a), p.Rel(a.Pos()), what, w)
					}
				}
			}
			return nil
		},
	})
}

// refWriteParams computes, for every production function, which of its
// parameters flow into the value argument of ref.Store.Set / SetWithLog (directly or
// through callees): "calling f with x at position i writes x into a ref".
type refWriteSummary struct {
	p      *Program
	set    map[*types.Func]bool // ref.Store.Set, SetWithLog
	params map[*ssa.Function]map[int]bool
}

func newRefWriteSummary(p *Program) (*refWriteSummary, error) {
	store, err := p.NamedType("pkg/ref.Store")
	if err != nil {
		return nil, err
	}
	iface, ok := store.Underlying().(*types.Interface)
	if !ok {
		return nil, &AnchorError{"pkg/ref.Store is not an interface"}
	}
	s := &refWriteSummary{p: p, set: map[*types.Func]bool{}, params: map[*ssa.Function]map[int]bool{}}
	for i := 0; i < iface.NumMethods(); i++ {
		m := iface.Method(i)
		if m.Name() == "Set" || m.Name() == "SetWithLog" {
			s.set[m] = true
		}
	}
	if len(s.set) != 2 {
		return nil, &AnchorError{"pkg/ref.Store.Set / SetWithLog"}
	}
	fns := p.ProdFuncs()
	for changed, round := true, 0; changed && round < 6; round++ {
		changed = false
		for _, fn := range fns {
			if len(fn.Params) == 0 {
				continue
			}
			for i, par := range fn.Params {
				if s.params[fn][i] {
					continue
				}
				fw := forward([]ssa.Value{par}, fwdOpts{noBinOp: true})
				hit := false
				eachCall(fn, func(c ssa.CallInstruction) {
					if hit {
						return
					}
					for _, ai := range s.sumArgs(c) {
						if ai < len(c.Common().Args) && fw[c.Common().Args[ai]] {
							hit = true
						}
					}
				})
				if hit {
					if s.params[fn] == nil {
						s.params[fn] = map[int]bool{}
					}
					s.params[fn][i] = true
					changed = true
				}
			}
		}
	}
	return s, nil
}

// sumArgs: indices into c.Common().Args that are written into a ref by this call.
func (s *refWriteSummary) sumArgs(c ssa.CallInstruction) []int {
	cc := c.Common()
	if cc.IsInvoke() {
		if s.set[cc.Method] {
			return []int{1}
		}
		return nil
	}
	callee := cc.StaticCallee()
	if callee == nil {
		return nil
	}
	var out []int
	for i := range s.params[callee] {
		out = append(out, i)
	}
	return out
}

func init() {
	register(&Rule{
		ID: "C13-b", Template: "T1 must-traverse (join + error-channel)",
		Doc: "Where worker goroutines write the blocks of a table, the table object is written only after they were joined and none failed: in the packages that launch block workers (a go statement in a function that also waits on a sync.WaitGroup), every objects.SaveTable call — in the launching function itself, or in a helper it calls afterwards — is reachable only after (*sync.WaitGroup).Wait and through the 'channel empty' (ok==false) edge of `err, ok := <-errChan`; when launching/joining and saving are split into helpers, the joining helper must return nil only on that edge and the saving helper must be called only after it succeeded.",
		Min: 1,
		Run: func(p *Program, r *RuleResult) error {
			st, err := p.MustFuncs("pkg/objects.SaveTable")
			if err != nil {
				return err
			}
			fns := p.ProdFuncs()
			r.Analysed = len(fns)
			isWait := func(c ssa.CallInstruction) bool {
				f := calleeFunc(c)
				return f != nil && f.FullName() == "(*sync.WaitGroup).Wait"
			}
			// joinInfo: Wait calls and channel-empty edges of fn
			type joinInfo struct {
				waits []ssa.CallInstruction
				empty cutSet
			}
			info := func(fn *ssa.Function) joinInfo {
				var ji joinInfo
				eachCall(fn, func(c ssa.CallInstruction) {
					if isWait(c) {
						ji.waits = append(ji.waits, c)
					}
				})
				var okVals []ssa.Value
				for _, b := range fn.Blocks {
					for _, in := range b.Instrs {
						u, ok := in.(*ssa.UnOp)
						if !ok || u.Op.String() != "<-" || !u.CommaOk {
							continue
						}
						ch, ok := u.X.Type().Underlying().(*types.Chan)
						if !ok || !isErrorType(ch.Elem()) {
							continue
						}
						for _, ref := range *u.Referrers() {
							if ex, ok := ref.(*ssa.Extract); ok && ex.Index == 1 {
								okVals = append(okVals, ex)
							}
						}
					}
				}
				ji.empty = mkCut(boolEdges(fn, forward(okVals, fwdOpts{noBinOp: true}), false))
				return ji
			}
			// guarded: instruction `to` in fn is reachable only after Wait and the channel-empty edge
			guarded := func(fn *ssa.Function, to ssa.Instruction) (bool, string) {
				ji := info(fn)
				if len(ji.waits) == 0 {
					return false, "no (*sync.WaitGroup).Wait in " + funcName(fn)
				}
				blk := map[ssa.Instruction]bool{}
				for _, w := range ji.waits {
					blk[w] = true
				}
				if path, reach := reachAfter(fn, nil, to, nil, blk); reach {
					return false, fmtPath("reachable without passing WaitGroup.Wait", path)
				}
				if len(ji.empty) == 0 {
					return false, "no `err, ok := <-errChan` test in " + funcName(fn)
				}
				for _, w := range ji.waits {
					if path, reach := reachAfter(fn, w, to, ji.empty, nil); reach {
						return false, fmtPath("reachable after Wait without taking the channel-empty edge", path)
					}
				}
				return true, ""
			}
			// joiners: functions that wait and return success only on the channel-empty edge
			joiners := map[*types.Func]bool{}
			launchPkgs := map[string]bool{}
			for _, fn := range fns {
				hasGo := false
				for _, b := range fn.Blocks {
					for _, in := range b.Instrs {
						if _, ok := in.(*ssa.Go); ok {
							hasGo = true
						}
					}
				}
				ji := info(fn)
				if hasGo && len(ji.waits) > 0 {
					launchPkgs[fnPkgPath(fn)] = true
				}
				if len(ji.waits) == 0 || errorResultIndex(fn.Signature) < 0 || fn.Object() == nil {
					continue
				}
				all := true
				any := false
				ei := errorResultIndex(fn.Signature)
				for _, ret := range returnsOf(fn) {
					v := retVal(ret, ei)
					if v != nil && (definitelyNonNilError(v) || nonNilByGuard(fn, ret, v)) {
						continue
					}
					// a return of the received error itself on the ok==true edge is an error return
					if v != nil && !isNilConst(v) {
						if ex, ok := v.(*ssa.Extract); ok {
							if u, ok := ex.Tuple.(*ssa.UnOp); ok && u.Op.String() == "<-" {
								continue
							}
						}
					}
					any = true
					if ok, _ := guarded(fn, ret); !ok {
						all = false
					}
				}
				if all && any {
					if f, ok := fn.Object().(*types.Func); ok {
						joiners[f] = true
					}
				}
			}
			joinSum := newSuccSummary(p, joiners)
			var check func(fn *ssa.Function, sink ssa.Instruction, depth int) (bool, string)
			check = func(fn *ssa.Function, sink ssa.Instruction, depth int) (bool, string) {
				if ok, _ := guarded(fn, sink); ok {
					return true, ""
				}
				// preceded by a successful joiner?
				var okJoin bool
				eachCall(fn, func(c ssa.CallInstruction) {
					call, isCall := c.(*ssa.Call)
					if !isCall || ssa.Instruction(call) == sink || !joinSum.matches(call, wrapperDepth) {
						return
					}
					if orderedAfterSuccess(fn, call, sink, errorResultIndex(fn.Signature)) {
						okJoin = true
					}
				})
				if okJoin {
					return true, ""
				}
				_, why := guarded(fn, sink)
				if depth <= 0 {
					return false, why
				}
				// the obligation moves to the callers in the same package
				node := p.CG.Nodes[fn]
				if node == nil {
					return false, why
				}
				n := 0
				for _, e := range node.In {
					cf := e.Caller.Func
					if e.Site == nil || !p.IsProd(cf) || fnPkgPath(cf) != fnPkgPath(fn) {
						continue
					}
					n++
					if ok, w := check(cf, e.Site, depth-1); !ok {
						return false, "via caller " + funcName(cf) + ": " + w
					}
				}
				if n == 0 {
					return false, why + " (and no caller in the package establishes it)"
				}
				return true, ""
			}
			for _, fn := range fns {
				if !launchPkgs[fnPkgPath(fn)] {
					continue
				}
				for _, s := range callsTo(fn, st) {
					what := "table written only after the workers were joined and the error channel was empty"
					key := callKey(fn, s)
					if ok, why := check(fn, s, wrapperDepth); ok {
						r.ok(key, p.Rel(s.Pos()), what)
					} else {
						r.bad(key, p.Rel(s.Pos()), what, "SaveTable "+why)
					}
				}
			}
			return nil
		},
	})

	register(&Rule{
		ID: "C13-c", Template: "SSA data dependence",
		Doc: "Ref after commit object: in every production function that calls objects.SaveCommit and writes a ref (ref.Store.Set/SetWithLog directly or through any wrapper whose parameter flows into the written value), the value written is data-dependent on SaveCommit's result, so the ref write cannot be ordered before the commit object exists.",
		Min: 6,
		Run: func(p *Program, r *RuleResult) error {
			sc, err := p.MustFuncs("pkg/objects.SaveCommit")
			if err != nil {
				return err
			}
			rw, err := newRefWriteSummary(p)
			if err != nil {
				return err
			}
			fns := p.ProdFuncs()
			r.Analysed = len(fns)
			// helpers that save the commit object and hand its sum on: result index of the sum
			sumOf := map[*ssa.Function]int{}
			scSum := newSuccSummary(p, sc)
			for round := 0; round < 2; round++ {
				for _, h := range fns {
					if _, done := sumOf[h]; done || h.Parent() != nil {
						continue
					}
					var hs []ssa.Value
					eachCall(h, func(c ssa.CallInstruction) {
						call, ok := c.(*ssa.Call)
						if !ok {
							return
						}
						idx := -1
						if f := calleeFunc(c); f != nil && sc[f] {
							idx = 0
						} else if g := call.Call.StaticCallee(); g != nil {
							if k, ok := sumOf[g]; ok {
								idx = k
							}
						}
						if idx < 0 {
							return
						}
						for _, ref := range *call.Referrers() {
							if ex, ok := ref.(*ssa.Extract); ok && ex.Index == idx {
								hs = append(hs, ex)
							}
						}
					})
					if len(hs) == 0 || !scSum.wrapper(h, wrapperDepth) {
						continue
					}
					fwh := forward(hs, fwdOpts{noBinOp: true})
					ei := errorResultIndex(h.Signature)
					for _, ret := range returnsOf(h) {
						if v := retVal(ret, ei); v != nil && (definitelyNonNilError(v) || nonNilByGuard(h, ret, v)) {
							continue
						}
						for i := range ret.Results {
							if fwh[retVal(ret, i)] {
								sumOf[h] = i
							}
						}
					}
				}
			}
			for _, fn := range fns {
				saves := callsTo(fn, sc)
				var seeds []ssa.Value
				for _, s := range saves {
					call, ok := s.(*ssa.Call)
					if !ok {
						continue
					}
					for _, ref := range *call.Referrers() {
						if ex, ok := ref.(*ssa.Extract); ok && ex.Index == 0 {
							seeds = append(seeds, ex)
						}
					}
				}
				// calls of sum-returning helpers count as the save
				eachCall(fn, func(c ssa.CallInstruction) {
					call, ok := c.(*ssa.Call)
					if !ok {
						return
					}
					g := call.Call.StaticCallee()
					if g == nil {
						return
					}
					k, ok := sumOf[g]
					if !ok {
						return
					}
					saves = append(saves, c)
					if g.Signature.Results().Len() == 1 {
						seeds = append(seeds, call)
					}
					for _, ref := range *call.Referrers() {
						if ex, ok := ref.(*ssa.Extract); ok && ex.Index == k {
							seeds = append(seeds, ex)
						}
					}
				})
				if len(saves) == 0 {
					continue
				}
				if _, isHelper := sumOf[fn]; isHelper && len(callsTo(fn, sc)) == 0 {
					// a pure pass-through of another helper: its callers carry the obligation
				}
				fw := forward(seeds, fwdOpts{noBinOp: true})
				eachCall(fn, func(c ssa.CallInstruction) {
					for _, ai := range rw.sumArgs(c) {
						what := "ref written with the sum returned by SaveCommit"
						key := callKey(fn, c)
						arg := c.Common().Args[ai]
						if fw[arg] {
							okAll := true
							for _, sv := range saves {
								if call, isCall := sv.(*ssa.Call); isCall {
									if path, reach := reachAfter(fn, call, c, mkCut(successEdges(fn, call)), nil); reach {
										r.bad(key, p.Rel(c.Pos()), what+" after SaveCommit succeeded", fmtPath("ref write reachable from SaveCommit without passing its error test's success edge", path))
										okAll = false
										break
									}
								}
							}
							if okAll {
								r.ok(key, p.Rel(c.Pos()), what)
							}
						} else {
							r.bad(key, p.Rel(c.Pos()), what, "the value written into the ref does not derive from the SaveCommit call in "+funcName(fn)+": the ref may be written before (or instead of) the commit object")
						}
					}
				})
			}
			return nil
		},
	})
}

func fmtPath(msg string, path []int) string { return fmt.Sprintf("%s (blocks %v)", msg, path) }
