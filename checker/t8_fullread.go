package main

// T8 full-read: a direct call of Read on an io.Reader assumes nothing about how
// many bytes arrive. In decoder code every such call must be (ii) the body of a
// delegating Read method, or (iii) inside a loop that accumulates the byte count
// and consumes n before examining the error. Anything else mistakes a short read
// for a full read (or drops bytes delivered together with io.EOF).

import (
	"fmt"
	"go/token"
	"go/types"

	"golang.org/x/tools/go/ssa"
)

func isReadSig(sig *types.Signature) bool {
	if sig.Params().Len() != 1 || sig.Results().Len() != 2 {
		return false
	}
	sl, ok := sig.Params().At(0).Type().Underlying().(*types.Slice)
	if !ok || !isByte(sl.Elem()) {
		return false
	}
	b, ok := sig.Results().At(0).Type().Underlying().(*types.Basic)
	return ok && b.Kind() == types.Int && isErrorType(sig.Results().At(1).Type())
}

// readerCall: c is a call of a method Read([]byte) (int, error) — an interface
// invoke, or a static call to a repo method with that shape (delegating readers).
func readerCall(c ssa.CallInstruction) (buf ssa.Value, ok bool) {
	cc := c.Common()
	if cc.IsInvoke() {
		if cc.Method.Name() == "Read" && isReadSig(cc.Method.Type().(*types.Signature)) {
			return cc.Args[0], true
		}
		return nil, false
	}
	sc := cc.StaticCallee()
	if sc == nil || sc.Name() != "Read" || sc.Signature.Recv() == nil {
		return nil, false
	}
	// signature without receiver
	sig := sc.Signature
	if sig.Params().Len() != 1 || sig.Results().Len() != 2 {
		return nil, false
	}
	if !isReadSig(types.NewSignatureType(nil, nil, nil, sig.Params(), sig.Results(), false)) {
		return nil, false
	}
	// bufio.Reader.Read and friends may return short as well; bytes.Reader etc. too
	return cc.Args[1], true
}

func init() {
	register(&Rule{
		ID: "C18-a", Template: "T8 full-read",
		Doc: "Decoders never assume that one Read call fills the buffer: in pkg/encoding/..., pkg/objects, pkg/api/client and pkg/api/utils every direct Read([]byte) call on a reader is either inside a delegating Read method (the short read is passed on), or inside a loop whose continuation depends on the accumulated byte count and in which n is consumed before the error is examined; everything else must go through io.ReadFull / io.ReadAtLeast / io.ReadAll / io.Copy.",
		Min: 20,
		Run: func(p *Program, r *RuleResult) error {
			if _, err := p.Func("pkg/encoding/packfile.(*PackfileReader).ReadObject"); err != nil {
				return err
			}
			var fns []*ssa.Function
			for _, fn := range p.ProdFuncs() {
				pk := fnPkgPath(fn)
				if pk == modPath+"/pkg/objects" || pk == modPath+"/pkg/api/client" || pk == modPath+"/pkg/api/utils" ||
					pk == modPath+"/pkg/encoding" || len(pk) > len(modPath+"/pkg/encoding/") && pk[:len(modPath+"/pkg/encoding/")] == modPath+"/pkg/encoding/" {
					fns = append(fns, fn)
				}
			}
			r.Analysed = len(fns)
			fullReadScan(p, r, fns)
			return nil
		},
	})
}

// fullReadScan places one obligation on every direct read of fns (see C18-a).
func fullReadScan(p *Program, r *RuleResult, fns []*ssa.Function) {
	for _, fn := range fns {
		eachCall(fn, func(c ssa.CallInstruction) {
			if f := calleeFunc(c); f != nil && f.Pkg() != nil && f.Pkg().Path() == "io" {
				switch f.Name() {
				case "ReadAtLeast":
					if ok, why := readAtLeastIsFull(fn, c); ok {
						r.okWhy(callKey(fn, c), p.Rel(c.Pos()), "a single Read call is not assumed to fill the buffer", why)
					} else {
						r.bad(callKey(fn, c), p.Rel(c.Pos()), "a single Read call is not assumed to fill the buffer", funcName(fn)+" "+why)
					}
					return
				case "ReadFull", "ReadAll", "Copy", "CopyN":
					r.okWhy(callKey(fn, c), p.Rel(c.Pos()), "a single Read call is not assumed to fill the buffer", "read made by io."+f.Name()+", which loops until the request is satisfied")
					return
				}
			}
			buf, ok := readerCall(c)
			if !ok {
				return
			}
			call, isCall := c.(*ssa.Call)
			if !isCall {
				return
			}
			key := callKey(fn, c)
			what := "a single Read call is not assumed to fill the buffer"
			// (ii) delegating Read method
			root := fn
			if root.Name() == "Read" && root.Signature.Recv() != nil && len(root.Params) == 2 && sameObject(buf, root.Params[1]) {
				r.okWhy(key, p.Rel(c.Pos()), what, "delegating Read method: the short read is passed on to the caller")
				return
			}
			// (iii) accumulate-in-loop
			ok, why := accumulatingLoop(fn, call)
			if ok {
				r.okWhy(key, p.Rel(c.Pos()), what, why)
				return
			}
			if why != "" {
				r.bad(key, p.Rel(c.Pos()), what, funcName(fn)+": "+why)
				return
			}
			r.bad(key, p.Rel(c.Pos()), what, fmt.Sprintf("%s calls Read once and continues as if the buffer were full: a transport that delivers fewer bytes (or the last bytes together with io.EOF) changes what is decoded", funcName(fn)))
		})
	}
}

// accumulatingLoop: the Read call is in a loop; its byte count n flows into an
// accumulator (φ in the loop) that the loop's continuation condition depends on;
// and on the path from the call to the first nil-test of its error that leaves the
// function, n has been added (the add dominates the EOF exit) — approximated as:
// every Return reachable from the call without passing the accumulation is
// unreachable... i.e. the add instruction is executed on every path from the call
// back to the loop head.
func accumulatingLoop(fn *ssa.Function, call *ssa.Call) (bool, string) {
	if !inLoop(call.Block()) {
		return false, ""
	}
	var n ssa.Value
	for _, ref := range *call.Referrers() {
		if ex, ok := ref.(*ssa.Extract); ok && ex.Index == 0 {
			n = ex
		}
	}
	if n == nil {
		return false, ""
	}
	fw := forward([]ssa.Value{n}, fwdOpts{})
	// accumulator: a BinOp ADD in fw whose other operand is a φ that (transitively) takes the add as an edge
	var acc *ssa.BinOp
	for v := range fw {
		bo, ok := v.(*ssa.BinOp)
		if !ok || bo.Op != token.ADD {
			continue
		}
		for _, opnd := range []ssa.Value{bo.X, bo.Y} {
			if ph, ok := opnd.(*ssa.Phi); ok {
				for _, e := range ph.Edges {
					if e == bo {
						acc = bo
					}
				}
			}
		}
	}
	if acc == nil {
		return false, ""
	}
	// loop continuation depends on the accumulator
	dep := false
	for _, b := range fn.Blocks {
		if len(b.Instrs) == 0 {
			continue
		}
		if ifi, ok := b.Instrs[len(b.Instrs)-1].(*ssa.If); ok && inLoop(b) {
			bw := backward(ifi.Cond, nil)
			if bw[acc] {
				dep = true
			}
			for v := range bw {
				if ph, ok := v.(*ssa.Phi); ok {
					for _, e := range ph.Edges {
						if e == acc {
							dep = true
						}
					}
				}
			}
		}
	}
	if !dep {
		return false, ""
	}
	// n must be consumed before a *successful* exit: any Return with a nil error reachable
	// from the call must pass the accumulation
	ei := errorResultIndex(fn.Signature)
	for _, ret := range returnsOf(fn) {
		if ei >= 0 {
			v := retVal(ret, ei)
			if v != nil && (definitelyNonNilError(v) || nonNilByGuard(fn, ret, v)) {
				continue
			}
			if v != nil && !isNilConst(v) {
				// returns some error variable: fine only if it is the Read error on its non-nil edge
				if vals := errValuesOfCall(call); vals != nil && vals[v] {
					continue
				}
			}
		}
		if _, reach := reachAfter(fn, call, ret, nil, map[ssa.Instruction]bool{acc: true}); reach {
			return false, ""
		}
	}
	// io.EOF may arrive together with the last bytes: before the end of input is turned
	// into an error of the function's own making (io.ErrUnexpectedEOF, a parse error),
	// the accumulated count must have been compared with the target of the loop
	if vals := errValuesOfCall(call); vals != nil {
		eofTrue := testEdges(fn, eofTestsOn(fn, vals, "io", "EOF"), true)
		if len(eofTrue) > 0 {
			// the target: what the loop condition compares the accumulator with
			targets := map[ssa.Value]bool{}
			accLike := map[ssa.Value]bool{acc: true}
			for v := range forward([]ssa.Value{acc}, fwdOpts{noBinOp: true}) {
				accLike[v] = true
			}
			var cmpEdges []edge
			for _, b := range fn.Blocks {
				if len(b.Instrs) == 0 {
					continue
				}
				ifi, ok := b.Instrs[len(b.Instrs)-1].(*ssa.If)
				if !ok {
					continue
				}
				bo, ok := ifi.Cond.(*ssa.BinOp)
				if !ok {
					continue
				}
				for _, pair := range [][2]ssa.Value{{bo.X, bo.Y}, {bo.Y, bo.X}} {
					if accLike[stripConv(pair[0])] || accLike[pair[0]] {
						if _, isConst := constInt(pair[1]); !isConst {
							if inLoop(b) {
								targets[stripConv(pair[1])] = true
							}
						}
					}
				}
			}
			for _, b := range fn.Blocks {
				if len(b.Instrs) == 0 {
					continue
				}
				ifi, ok := b.Instrs[len(b.Instrs)-1].(*ssa.If)
				if !ok {
					continue
				}
				bo, ok := ifi.Cond.(*ssa.BinOp)
				if !ok {
					continue
				}
				for _, pair := range [][2]ssa.Value{{bo.X, bo.Y}, {bo.Y, bo.X}} {
					if (accLike[stripConv(pair[0])] || accLike[pair[0]]) && targets[stripConv(pair[1])] {
						cmpEdges = append(cmpEdges, edge{b, 0}, edge{b, 1})
					}
				}
			}
			for _, e := range eofTrue {
				from := e.from.Succs[e.succ]
				if len(from.Instrs) == 0 {
					continue
				}
				for _, ret := range returnsOf(fn) {
					if ei < 0 {
						continue
					}
					v := retVal(ret, ei)
					if v == nil || isNilConst(v) || vals[v] {
						continue // success, or the reader's own error handed on
					}
					if isGlobalNamed(v, "io", "EOF") {
						continue
					}
					if ret.Block() != from {
						if _, reach := reachAfter(fn, from.Instrs[0], ret, mkCut(cmpEdges), nil); !reach {
							continue
						}
					}
					return false, "turns an io.EOF of the reader into an error of its own without first comparing the bytes accumulated so far with the number wanted: a transport that delivers the last bytes together with io.EOF makes a complete field look truncated"
				}
			}
		}
	}
	// no exit from the loop may depend on a plain iteration counter: the number of Read
	// calls needed is the transport's choice, not the decoder's
	header := loopHeaderOf(call.Block())
	if header != nil {
		exits := loopExitEdges(header)
		readVals := forward(readResults(call), fwdOpts{})
		for e := range exits {
			if len(e.from.Instrs) == 0 {
				continue
			}
			ifi, ok := e.from.Instrs[len(e.from.Instrs)-1].(*ssa.If)
			if !ok {
				continue
			}
			if readVals[ifi.Cond] {
				continue
			}
			bw := backward(ifi.Cond, nil)
			derivedFromRead := false
			for v := range bw {
				if readVals[v] || v == ssa.Value(acc) {
					derivedFromRead = true
				}
			}
			if derivedFromRead {
				continue
			}
			for v := range bw {
				ph, isPhi := v.(*ssa.Phi)
				if !isPhi || ph.Block() != header {
					continue
				}
				for k, pred := range header.Preds {
					if !header.Dominates(pred) || k >= len(ph.Edges) {
						continue
					}
					if inc, isInc := ph.Edges[k].(*ssa.BinOp); isInc && inc.Op == token.ADD && (inc.X == ssa.Value(ph) || inc.Y == ssa.Value(ph)) {
						// unconditional increment: executed on every trip round the loop
						everyTrip := true
						for _, bp := range header.Preds {
							if header.Dominates(bp) && !(inc.Block() == bp || inc.Block().Dominates(bp)) {
								everyTrip = false
							}
						}
						if everyTrip {
							return false, "a loop exit depends on the number of Read calls made (iteration counter), not on what was read"
						}
					}
				}
			}
		}
	}
	return true, "read loop: the byte count is accumulated and the loop continues until the expected size is reached; no successful exit skips the accumulation"
}

func readResults(call *ssa.Call) []ssa.Value {
	var out []ssa.Value
	for _, ref := range *call.Referrers() {
		if ex, ok := ref.(*ssa.Extract); ok {
			out = append(out, ex)
		}
	}
	return out
}

// readAtLeastIsFull: io.ReadAtLeast(r, buf, min) is a full read only when min is the
// buffer's length; otherwise fewer bytes than the buffer may come back, and what
// follows must continue at the returned count.
func readAtLeastIsFull(fn *ssa.Function, c ssa.CallInstruction) (bool, string) {
	args := c.Common().Args
	if len(args) != 3 {
		return true, "read made by io.ReadAtLeast"
	}
	full := false
	if x := lenArgOf(args[2]); x != nil && (x == args[1] || stripConv(x) == stripConv(args[1])) {
		full = true
	}
	if sl, ok := args[1].(*ssa.Slice); ok && !full {
		if sl.High != nil && (sl.High == args[2] || stripConv(sl.High) == stripConv(args[2])) && sl.Low == nil {
			full = true
		}
		if sl.High != nil {
			if hk, ok1 := constInt(sl.High); ok1 {
				if mk, ok2 := constInt(args[2]); ok2 {
					lk := int64(0)
					if sl.Low != nil {
						lk, _ = constInt(sl.Low)
					}
					full = mk == hk-lk
				}
			}
		}
	}
	if full {
		return true, "read made by io.ReadAtLeast with the buffer's length as minimum"
	}
	var n ssa.Value
	if call, ok := c.(*ssa.Call); ok {
		for _, ref := range *call.Referrers() {
			if ex, ok := ref.(*ssa.Extract); ok && ex.Index == 0 {
				n = ex
			}
		}
	}
	if n == nil {
		return false, "calls io.ReadAtLeast with a minimum below the buffer's length and ignores how many bytes arrived"
	}
	for v := range forward([]ssa.Value{n}, fwdOpts{}) {
		if s2, ok := v.(*ssa.Slice); ok {
			_ = s2
		}
	}
	// some later slice expression must start at (a value derived from) the count
	for _, b := range fn.Blocks {
		for _, in := range b.Instrs {
			if s2, ok := in.(*ssa.Slice); ok && s2.Low != nil {
				for x := range backward(s2.Low, nil) {
					if x == n {
						return true, "partial io.ReadAtLeast whose count positions the follow-up read"
					}
				}
			}
		}
	}
	return false, "calls io.ReadAtLeast with a minimum below the buffer's length, and no later read resumes at the returned count (a follow-up read at a fixed offset overwrites or skips bytes when the first read ends in between)"
}
