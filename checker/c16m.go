package main

// C16-m: scratch objects are per worker.
//
// Encoders, decoders, editors, hashes and buffers keep scratch slices between calls.
// A worker that is started several times (`go` inside a loop) must use its own; one
// instance reached through a field of the object all workers share is written by all
// of them at once.

import (
	"fmt"
	"go/types"
	"os"
	"sort"
	"strings"

	"golang.org/x/tools/go/ssa"
)

func namedOf(t types.Type) *types.Named {
	if pt, ok := t.Underlying().(*types.Pointer); ok {
		t = pt.Elem()
	}
	n, _ := t.(*types.Named)
	return n
}

func hasLockField(n *types.Named) bool {
	st, ok := n.Underlying().(*types.Struct)
	if !ok {
		return false
	}
	for i := 0; i < st.NumFields(); i++ {
		s := st.Field(i).Type().String()
		if strings.HasSuffix(s, "sync.Mutex") || strings.HasSuffix(s, "sync.RWMutex") {
			return true
		}
	}
	return false
}

func init() {
	register(&Rule{
		ID: "C16-m", Template: "ownership (scratch objects are per worker)",
		Doc: "Workers do not share scratch state: in the pipeline packages, a function started with `go` inside a loop (several instances run at once) and everything it calls use an unsynchronised stateful helper — a repo type with a pointer-receiver method that writes its own fields and no mutex (StrListEncoder / Decoder / Editor, BlockIndex builders, buffers …), bytes.Buffer, a meow hash — only if that helper was created by the worker itself: not loaded from a field of an object that exists once for all workers, directly or through a per-worker struct whose field was filled from such a field. Two workers editing rows through one StrListEditor overwrite each other's offsets: block indices come out wrong for some interleavings and the table differs from the one-worker table.",
		Min: 1,
		Run: func(p *Program, r *RuleResult) error {
			if _, err := p.SSAFunc("pkg/ingest.(*Inserter).insertBlock"); err != nil {
				return err
			}
			pkgs := []string{"pkg/diff", "pkg/merge", "pkg/ingest", "pkg/sorter", "pkg/api/utils"}
			fns := p.FuncsInPkg(pkgs...)
			r.Analysed = len(fns)
			// stateful types: a pointer-receiver method stores into a field of the receiver
			stateful := map[*types.Named]bool{}
			for _, f := range p.RepoFuncs {
				recv := f.Signature.Recv()
				if recv == nil || len(f.Params) == 0 {
					continue
				}
				if _, isPtr := recv.Type().(*types.Pointer); !isPtr {
					continue
				}
				n := namedOf(recv.Type())
				if n == nil || hasLockField(n) {
					continue
				}
				for _, b := range f.Blocks {
					for _, in := range b.Instrs {
						if st, ok := in.(*ssa.Store); ok {
							if fa, ok := st.Addr.(*ssa.FieldAddr); ok && fa.X == ssa.Value(f.Params[0]) {
								stateful[n] = true
							}
							// an element of a slice the receiver holds
							if ia, ok := st.Addr.(*ssa.IndexAddr); ok {
								for x := range backward(ia.X, func(v ssa.Value) bool { _, isCall := v.(*ssa.Call); return !isCall }) {
									if fa, ok := x.(*ssa.FieldAddr); ok && fa.X == ssa.Value(f.Params[0]) {
										stateful[n] = true
									}
								}
							}
						}
					}
				}
			}
			isStateful := func(t types.Type) (string, bool) {
				if _, isPtr := t.Underlying().(*types.Pointer); !isPtr {
					return "", false
				}
				n := namedOf(t)
				if n == nil || n.Obj().Pkg() == nil {
					return "", false
				}
				if stateful[n] {
					return n.Obj().Pkg().Name() + "." + n.Obj().Name(), true
				}
				q := n.Obj().Pkg().Path() + "." + n.Obj().Name()
				switch {
				case q == "bytes.Buffer", strings.HasSuffix(q, "/meow.Digest"), q == "bufio.Writer", q == "bufio.Reader":
					return n.Obj().Pkg().Name() + "." + n.Obj().Name(), true
				}
				return "", false
			}
			// worker bodies: `go` inside a loop
			bodies := map[*ssa.Function]bool{}
			for _, fn := range fns {
				for _, b := range fn.Blocks {
					for _, in := range b.Instrs {
						g, ok := in.(*ssa.Go)
						if !ok || enclosingLoop(b) == nil {
							continue
						}
						if mc, ok := g.Call.Value.(*ssa.MakeClosure); ok {
							if f, ok := mc.Fn.(*ssa.Function); ok {
								bodies[f] = true
							}
						} else if sc := g.Call.StaticCallee(); sc != nil {
							bodies[sc] = true
						}
					}
				}
			}
			inPkgs := map[*ssa.Function]bool{}
			for _, f := range fns {
				inPkgs[f] = true
			}
			for _, body := range sortedFuncs(bodies) {
				reach := map[*ssa.Function]bool{}
				var walk func(f *ssa.Function, d int)
				walk = func(f *ssa.Function, d int) {
					if reach[f] || !inPkgs[f] {
						return
					}
					reach[f] = true
					if d <= 0 {
						return
					}
					eachCall(f, func(c ssa.CallInstruction) {
						if sc := c.Common().StaticCallee(); sc != nil {
							walk(sc, d-1)
						}
					})
				}
				walk(body, 3)
				// struct types allocated by the worker
				own := map[*types.Named]bool{}
				for f := range reach {
					for _, b := range f.Blocks {
						for _, in := range b.Instrs {
							if al, ok := in.(*ssa.Alloc); ok {
								// the allocated object itself (not a local that holds a pointer to one)
								if n, ok := al.Type().(*types.Pointer).Elem().(*types.Named); ok {
									own[n] = true
								}
							}
						}
					}
				}
				// shared(field): the field belongs to an object that is not the worker's own, or was filled from one
				var sharedField func(base types.Type, f *types.Var, depth int) (bool, string)
				sharedField = func(base types.Type, f *types.Var, depth int) (bool, string) {
					n := namedOf(base)
					if n == nil {
						return false, ""
					}
					if !own[n] {
						return true, n.Obj().Name() + "." + f.Name()
					}
					if depth <= 0 {
						return false, ""
					}
					// own struct: where do the values stored into this field come from?
					for g := range reach {
						for _, b := range g.Blocks {
							for _, in := range b.Instrs {
								st, ok := in.(*ssa.Store)
								if !ok {
									continue
								}
								fa, ok := st.Addr.(*ssa.FieldAddr)
								if !ok || structField(fa.X.Type(), fa.Field) != f {
									continue
								}
								for x := range backward(st.Val, func(v ssa.Value) bool { _, isCall := v.(*ssa.Call); return !isCall }) {
									if u, ok := x.(*ssa.UnOp); ok {
										if fa2, ok := u.X.(*ssa.FieldAddr); ok {
											if sh, via := sharedField(fa2.X.Type(), structField(fa2.X.Type(), fa2.Field), depth-1); sh {
												return true, via + " → " + n.Obj().Name() + "." + f.Name()
											}
										}
									}
								}
							}
						}
					}
					return false, ""
				}
				type hit struct{ key, pos, wit string }
				var hits []hit
				nUses := 0
				for _, f := range sortedFuncs(reach) {
					eachCall(f, func(c ssa.CallInstruction) {
						for _, a := range c.Common().Args {
							tn, ok := isStateful(a.Type())
							if !ok {
								continue
							}
							nUses++
							v := stripConv(a)
							if os.Getenv("WRGLCHECK_DEBUG") != "" {
								fmt.Fprintf(os.Stderr, "C16-m use %s in %s: %T %s\n", tn, funcName(f), v, v.String())
							}
							u, ok := v.(*ssa.UnOp)
							if !ok {
								continue
							}
							fa, ok := u.X.(*ssa.FieldAddr)
							if !ok {
								continue
							}
							fld := structField(fa.X.Type(), fa.Field)
							if sh, via := sharedField(fa.X.Type(), fld, 3); sh {
								hits = append(hits, hit{fmt.Sprintf("%s|shared %s via %s", funcName(body), tn, via), p.Rel(c.Pos()),
									fmt.Sprintf("%s uses a %s that it did not create: it is reached through %s, which exists once for all instances of the worker %s", funcName(f), tn, via, funcName(body))})
							}
						}
					})
				}
				sort.Slice(hits, func(i, j int) bool { return hits[i].key+hits[i].pos < hits[j].key+hits[j].pos })
				seen := map[string]bool{}
				for _, h := range hits {
					if seen[h.key] {
						continue
					}
					seen[h.key] = true
					r.bad(h.key, h.pos, "a worker's stateful helpers are its own", h.wit)
				}
				if len(hits) == 0 {
					r.okWhy(funcName(body)+"|own-scratch", p.Rel(body.Pos()), "a worker's stateful helpers are its own", fmt.Sprintf("%d uses of stateful helpers in the worker and what it calls", nUses))
				}
			}
			return nil
		},
	})
}

// ---- C16-n: an error channel shared by a varying number of producers is sized with them ----

// startsGoroutine: fn contains a go statement, or calls a repo function that does (bounded).
func startsGoroutine(fn *ssa.Function, depth int, seen map[*ssa.Function]bool) bool {
	if fn == nil || len(fn.Blocks) == 0 || seen[fn] {
		return false
	}
	seen[fn] = true
	for _, b := range fn.Blocks {
		for _, in := range b.Instrs {
			switch x := in.(type) {
			case *ssa.Go:
				return true
			case ssa.CallInstruction:
				if depth > 0 {
					if sc := x.Common().StaticCallee(); sc != nil && isRepoPkgPath(fnPkgPath(sc)) && startsGoroutine(sc, depth-1, seen) {
						return true
					}
				}
			}
		}
	}
	return false
}

func init() {
	register(&Rule{
		ID: "C16-n", Template: "agreement (channel capacity vs. a varying number of producers)",
		Doc: "An error in one producer never parks another one for good: where a pipeline function hands the same error channel, inside a loop, to calls that start goroutines (one differ per merged branch …), the channel in effect at that loop — made in the function itself, in a helper it calls before the loop, or else in the constructor of the object that holds it — is not made with a constant capacity (or unbuffered): its readers take at most one error after the data is drained, so with fewer slots than producers the second failing producer blocks on its send, never closes its output, and the caller hangs instead of getting the error.",
		Min: 1,
		Run: func(p *Program, r *RuleResult) error {
			if _, err := p.SSAFunc("pkg/merge.(*Merger).Start"); err != nil {
				return err
			}
			fns := p.FuncsInPkg("pkg/ingest", "pkg/sorter", "pkg/diff", "pkg/merge")
			r.Analysed = len(fns)
			makesInto := func(f *ssa.Function, fld *types.Var) []*ssa.MakeChan {
				var out []*ssa.MakeChan
				for _, b := range f.Blocks {
					for _, in := range b.Instrs {
						st, ok := in.(*ssa.Store)
						if !ok {
							continue
						}
						fa, ok := st.Addr.(*ssa.FieldAddr)
						if !ok || structField(fa.X.Type(), fa.Field) != fld {
							continue
						}
						if mk, ok := stripConv(st.Val).(*ssa.MakeChan); ok {
							out = append(out, mk)
						}
					}
				}
				return out
			}
			for _, fn := range fns {
				n := 0
				eachCall(fn, func(c ssa.CallInstruction) {
					sc := c.Common().StaticCallee()
					if sc == nil || !isRepoPkgPath(fnPkgPath(sc)) || enclosingLoop(c.Block()) == nil {
						return
					}
					var ch ssa.Value
					for _, a := range c.Common().Args {
						if isErrChan(a.Type()) {
							ch = a
						}
					}
					if ch == nil || !startsGoroutine(sc, 2, map[*ssa.Function]bool{}) {
						return
					}
					key := fmt.Sprintf("%s|errchan-in-loop#%d", funcName(fn), n)
					n++
					what := "an error channel handed to producers started in a loop is sized with their number"
					// a constant number of iterations?
					if bnd := loopBound(c.Block()); bnd != nil {
						if _, isConst := constInt(bnd); isConst {
							r.okWhy(key, p.Rel(c.Pos()), what, "the loop runs a constant number of times")
							return
						}
					}
					var origins func(f *ssa.Function, v ssa.Value, at ssa.Instruction, depth int) ([]*ssa.MakeChan, string)
					origins = func(f *ssa.Function, v ssa.Value, at ssa.Instruction, depth int) ([]*ssa.MakeChan, string) {
						v = stripConv(v)
						switch x := v.(type) {
						case *ssa.MakeChan:
							return []*ssa.MakeChan{x}, "in " + funcName(f)
						case *ssa.Parameter:
							if depth <= 0 {
								return nil, ""
							}
							idx := -1
							for i, prm := range f.Params {
								if prm == x {
									idx = i
								}
							}
							var out []*ssa.MakeChan
							wh := ""
							if node := p.CG.Nodes[f]; node != nil && idx >= 0 {
								for _, e := range node.In {
									if e.Site == nil || fnPkgPath(e.Caller.Func) != fnPkgPath(f) || idx >= len(e.Site.Common().Args) {
										continue
									}
									ms, w := origins(e.Caller.Func, e.Site.Common().Args[idx], e.Site, depth-1)
									out = append(out, ms...)
									if w != "" {
										wh = w
									}
								}
							}
							return out, wh
						case *ssa.Call:
							h := x.Call.StaticCallee()
							if h == nil || depth <= 0 || len(h.Blocks) == 0 || fnPkgPath(h) != fnPkgPath(f) {
								return nil, ""
							}
							var out []*ssa.MakeChan
							wh := ""
							for _, ret := range returnsOf(h) {
								for _, res := range ret.Results {
									if isErrChan(res.Type()) {
										ms, w := origins(h, res, ret, depth-1)
										out = append(out, ms...)
										if w != "" {
											wh = w
										}
									}
								}
							}
							return out, wh
						case *ssa.UnOp:
							fa, ok := x.X.(*ssa.FieldAddr)
							if !ok {
								return nil, ""
							}
							fld := structField(fa.X.Type(), fa.Field)
							ms := makesInto(f, fld)
							eachCall(f, func(h ssa.CallInstruction) {
								if hs := h.Common().StaticCallee(); hs != nil && fnPkgPath(hs) == fnPkgPath(f) && hs != sc {
									if _, before := reachAfter(f, h, at, nil, nil); before {
										ms = append(ms, makesInto(hs, fld)...)
									}
								}
							})
							if len(ms) > 0 {
								return ms, "in " + funcName(f) + " or a helper it calls first"
							}
							// the constructor(s): functions that fill the field of an object they allocate
							for _, g := range p.FuncsInPkg(strings.TrimPrefix(fnPkgPath(f), modPath+"/")) {
								for _, mk := range makesInto(g, fld) {
									for _, ref := range *mk.Referrers() {
										if st, ok := ref.(*ssa.Store); ok {
											if fa2, ok := st.Addr.(*ssa.FieldAddr); ok {
												if _, fresh := fa2.X.(*ssa.Alloc); fresh {
													ms = append(ms, mk)
												}
											}
										}
									}
								}
							}
							return ms, "in the constructor"
						}
						return nil, ""
					}
					makes, where := origins(fn, ch, c, 3)
					if len(makes) == 0 {
						r.okWhy(key, p.Rel(c.Pos()), what, "the channel is not made in this package (its owner carries the obligation)")
						return
					}
					for _, mk := range makes {
						if k, isConst := constInt(mk.Size); isConst {
							r.bad(key, p.Rel(mk.Pos()), what, fmt.Sprintf("the channel is made %s with the constant capacity %d (%s), but %s hands it to a goroutine-starting call once per iteration of a loop whose bound is not constant", where, k, p.Rel(mk.Pos()), funcName(fn)))
							return
						}
					}
					r.ok(key, p.Rel(c.Pos()), what)
				})
			}
			return nil
		},
	})
}
