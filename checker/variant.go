package main

// Rule self-validation: a variant is a unified diff against /repo's tree with a
// header naming the rule it targets. It is applied to a copy of the touched files
// in a temp dir outside /repo and /verif; the patched contents are handed to the
// loader as an in-memory overlay, so /repo is never modified and nothing is built
// or executed. "fault" variants must make the rule fire at the named construct,
// "benign" variants (behaviour-preserving refactorings) must leave it silent.

import (
	"bufio"
	"bytes"
	"encoding/json"
	"fmt"
	"os"
	"os/exec"
	"path/filepath"
	"regexp"
	"sort"
	"strings"
)

type variantSpec struct {
	Path     string
	Property string
	Rule     string
	Kind     string // fault | benign
	Expect   string // substring of the key of the obligation that must be violated (fault)
	Tier     string // quick | thorough
	Desc     string
}

type variantResult struct {
	Status string        `json:"status"` // ran | skipped | error
	Detail string        `json:"detail"`
	Bad    []violatedKey `json:"bad"`
}

func parseVariant(path string) (*variantSpec, error) {
	f, err := os.Open(path)
	if err != nil {
		return nil, err
	}
	defer f.Close()
	v := &variantSpec{Path: path, Tier: "thorough"}
	sc := bufio.NewScanner(f)
	for sc.Scan() {
		l := sc.Text()
		if !strings.HasPrefix(l, "#") {
			break
		}
		l = strings.TrimSpace(strings.TrimPrefix(l, "#"))
		k, val, ok := strings.Cut(l, ":")
		if !ok {
			continue
		}
		val = strings.TrimSpace(val)
		switch strings.TrimSpace(k) {
		case "property":
			v.Property = val
		case "rule":
			v.Rule = val
		case "kind":
			v.Kind = val
		case "expect":
			v.Expect = val
		case "tier":
			v.Tier = val
		case "desc":
			v.Desc = val
		}
	}
	if v.Rule == "" || (v.Kind != "fault" && v.Kind != "benign" && v.Kind != "repair") {
		return nil, fmt.Errorf("%s: header needs '# rule:' and '# kind: fault|benign|repair'", path)
	}
	return v, nil
}

// listVariants: variants whose rule belongs to prop; quick tier runs those marked "tier: quick".
func listVariants(dir, prop, tier string) []*variantSpec {
	ps := props[prop]
	if ps == nil {
		return nil
	}
	inProp := map[string]bool{}
	for _, r := range ps.Rules {
		inProp[r] = true
	}
	var out []*variantSpec
	files, _ := filepath.Glob(filepath.Join(dir, "*.patch"))
	sort.Strings(files)
	for _, f := range files {
		v, err := parseVariant(f)
		if err != nil {
			fmt.Fprintf(os.Stderr, "wrglcheck: %v\n", err)
			continue
		}
		if !inProp[v.Rule] {
			continue
		}
		if tier == "quick" && v.Tier != "quick" {
			continue
		}
		out = append(out, v)
	}
	return out
}

// applyVariant returns the overlay for a patch, or skipped=true when the patch
// does not apply to the current tree.
func applyVariant(v *variantSpec, repo string) (overlay map[string][]byte, skipped bool, detail string) {
	data, err := os.ReadFile(v.Path)
	if err != nil {
		return nil, true, err.Error()
	}
	var files []string
	for _, l := range strings.Split(string(data), "\n") {
		if strings.HasPrefix(l, "+++ ") {
			f := strings.Fields(l[4:])[0]
			f = strings.TrimPrefix(f, "b/")
			files = append(files, f)
		}
	}
	if len(files) == 0 {
		return nil, true, "patch names no file"
	}
	tmp, err := os.MkdirTemp("", "wrglcheck-variant-")
	if err != nil {
		return nil, true, err.Error()
	}
	defer os.RemoveAll(tmp)
	for _, f := range files {
		src, err := os.ReadFile(filepath.Join(repo, f))
		if err != nil {
			return nil, true, "file of the patch is missing in the tree: " + f
		}
		os.MkdirAll(filepath.Dir(filepath.Join(tmp, f)), 0o755)
		os.WriteFile(filepath.Join(tmp, f), src, 0o644)
	}
	cmd := exec.Command("patch", "-p1", "-s", "-F", "2", "--no-backup-if-mismatch", "-d", tmp, "-i", v.Path)
	var out bytes.Buffer
	cmd.Stdout, cmd.Stderr = &out, &out
	if err := cmd.Run(); err != nil {
		return nil, true, "patch does not apply to the current tree: " + lastLines(out.String(), 2)
	}
	overlay = map[string][]byte{}
	for _, f := range files {
		b, err := os.ReadFile(filepath.Join(tmp, f))
		if err != nil {
			return nil, true, err.Error()
		}
		overlay[filepath.Join(repo, f)] = b
	}
	return overlay, false, ""
}

// runVariant is the child-process entry: prints "VARIANT <json>".
func runVariant(path string) int {
	v, err := parseVariant(path)
	if err != nil {
		fmt.Fprintln(os.Stderr, err)
		return 2
	}
	res := variantResult{}
	overlay, skipped, detail := applyVariant(v, *flagRepo)
	if skipped {
		res.Status, res.Detail = "skipped", detail
	} else {
		p, err := Load(LoadOpts{RepoDir: *flagRepo, Overlay: overlay})
		if err != nil {
			// the variant does not type-check on this tree (the tree changed under it)
			res.Status, res.Detail = "skipped", "variant does not compile on the current tree: "+lastLines(err.Error(), 3)
		} else {
			r := rules[v.Rule]
			if r == nil {
				res.Status, res.Detail = "error", "unknown rule "+v.Rule
			} else {
				rr := runRule(p, r)
				res.Status = "ran"
				res.Bad = collectBad([]*RuleResult{rr})
			}
		}
	}
	b, _ := json.Marshal(res)
	fmt.Println("VARIANT " + string(b))
	return 0
}

func runVariantChild(v *variantSpec) variantResult {
	cmd := exec.Command(selfExe(), "-variant", v.Path, "-repo", *flagRepo, "-verif", *flagVerif)
	cmd.Env = append(os.Environ(), "GOMAXPROCS=4")
	var out, errb bytes.Buffer
	cmd.Stdout, cmd.Stderr = &out, &errb
	if err := cmd.Run(); err != nil {
		return variantResult{Status: "error", Detail: fmt.Sprintf("%v: %s", err, lastLines(errb.String(), 5))}
	}
	for _, l := range strings.Split(out.String(), "\n") {
		if strings.HasPrefix(l, "VARIANT ") {
			var r variantResult
			if err := json.Unmarshal([]byte(l[8:]), &r); err != nil {
				return variantResult{Status: "error", Detail: err.Error()}
			}
			return r
		}
	}
	return variantResult{Status: "error", Detail: "no VARIANT line in child output"}
}

// judgeVariant compares the variant's violated keys with the base tree's.
func judgeVariant(v *variantSpec, r variantResult, baseBad map[string]bool) string {
	switch r.Status {
	case "skipped":
		return "selftest-skipped: " + r.Detail
	case "error":
		return "FAILED: " + r.Detail
	}
	var newKeys []string
	for _, k := range r.Bad {
		if !baseBad[k.Rule+"|"+k.Key] {
			newKeys = append(newKeys, k.Key+" ("+k.Status+" at "+k.Pos+")")
		}
	}
	sort.Strings(newKeys)
	if v.Kind == "repair" {
		// a repaired scratch copy: the known finding named by expect must be gone and nothing new may appear
		for _, k := range r.Bad {
			if strings.Contains(k.Key, v.Expect) {
				return "FAILED: rule still fires on the repaired variant at " + k.Key
			}
		}
		if len(newKeys) > 0 {
			return fmt.Sprintf("FAILED: rule fired on the repaired variant: %v", newKeys)
		}
		return "ok: rule silent at the known finding on the repaired variant"
	}
	if v.Kind == "fault" {
		for _, k := range newKeys {
			if strings.Contains(k, v.Expect) {
				return "ok: rule fired on the seeded construct: " + k
			}
		}
		// ordinals (#n) shift when the tree under the variant has changed: compare without them
		for _, k := range newKeys {
			if strings.Contains(stripOrdinals(k), stripOrdinals(v.Expect)) {
				return "ok: rule fired on the seeded construct (ordinal differs): " + k
			}
		}
		if len(baseBad) > 0 && len(newKeys) == 0 {
			// the base tree already violates at that construct (tree was mutated): not decidable here
			for k := range baseBad {
				if strings.Contains(k, v.Expect) && strings.HasPrefix(k, v.Rule+"|") {
					return "selftest-skipped: the current tree already violates the rule at the seeded construct"
				}
			}
		}
		return fmt.Sprintf("FAILED: rule did not fire at %q; new violations: %v", v.Expect, newKeys)
	}
	if len(newKeys) > 0 {
		return fmt.Sprintf("FAILED: rule fired on a behaviour-preserving variant: %v", newKeys)
	}
	return "ok: rule silent on the behaviour-preserving variant"
}

var ordinalRe = regexp.MustCompile(`#\d+`)

func stripOrdinals(s string) string { return ordinalRe.ReplaceAllString(s, "") }
