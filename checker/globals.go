package main

// Package-level mutable state shared by every goroutine of the process.
//
// C16-g  (a) `append(G, …)` on a package-level slice G whose result is not stored
//            back: if G has spare capacity the append writes into G's backing array
//            and every result aliases it — two goroutines building keys at the
//            same time overwrite each other's bytes. G must be initialised tight
//            (conversion from a string constant, composite literal, make with
//            len == cap).
//        (b) a package-level array/slice used as scratch space outside init: a
//            store through it, or its storage handed to a call that fills it
//            (io.ReadFull, Read, copy, binary.PutUint…).

import (
	"fmt"
	"go/token"
	"go/types"
	"sort"
	"strings"

	"golang.org/x/tools/go/ssa"
)

func isBuiltin(c ssa.CallInstruction, name string) bool {
	b, ok := c.Common().Value.(*ssa.Builtin)
	return ok && b.Name() == name
}

// globalOf: v is a load of a package-level variable (possibly converted).
func globalOf(v ssa.Value) *ssa.Global {
	v = stripConv(v)
	if u, ok := v.(*ssa.UnOp); ok && u.Op == token.MUL {
		if g, ok := u.X.(*ssa.Global); ok {
			return g
		}
	}
	return nil
}

// spareCap: may slice value v have capacity beyond its length by construction?
func spareCap(v ssa.Value, depth int, seen map[ssa.Value]bool) (bool, string) {
	if depth > 6 || seen[v] {
		return false, ""
	}
	seen[v] = true
	switch x := v.(type) {
	case *ssa.MakeSlice:
		if x.Len == x.Cap {
			return false, ""
		}
		if a, ok := constInt(x.Len); ok {
			if b, ok := constInt(x.Cap); ok && a == b {
				return false, ""
			}
		}
		return true, "make with capacity beyond the length"
	case *ssa.Slice:
		if x.Max != nil && x.Max == x.High {
			return false, ""
		}
		if pt, ok := x.X.Type().Underlying().(*types.Pointer); ok {
			if at, ok := pt.Elem().Underlying().(*types.Array); ok {
				// slice of an array (constant-size make, composite literal)
				limit := at.Len()
				if x.Max != nil {
					if m, ok := constInt(x.Max); ok {
						limit = m
					} else {
						return true, "slice of an array with a computed capacity"
					}
				}
				if x.High == nil {
					if limit == at.Len() {
						return false, ""
					}
					return true, "slice of an array capped below its length"
				}
				if h, ok := constInt(x.High); ok {
					if h < limit {
						return true, fmt.Sprintf("slice [:%d] of a %d-element array", h, limit)
					}
					return false, ""
				}
				return true, "slice of an array with a computed length"
			}
		}
		if ok, why := spareCap(x.X, depth+1, seen); ok {
			return true, why
		}
		if _, isMake := x.X.(*ssa.MakeSlice); isMake && x.High != nil {
			return true, "reslice of a longer make"
		}
		return false, ""
	case *ssa.Call:
		if isBuiltin(x, "append") && len(x.Call.Args) > 0 {
			return spareCap(x.Call.Args[0], depth+1, seen)
		}
		if sc := x.Call.StaticCallee(); sc != nil && len(sc.Blocks) > 0 {
			for _, ret := range returnsOf(sc) {
				for _, rv := range ret.Results {
					if _, ok := rv.Type().Underlying().(*types.Slice); ok {
						if ok, why := spareCap(rv, depth+1, seen); ok {
							return true, why + " (in " + funcName(sc) + ")"
						}
					}
				}
			}
		}
		return false, ""
	case *ssa.Phi:
		for _, e := range x.Edges {
			if ok, why := spareCap(e, depth+1, seen); ok {
				return true, why
			}
		}
	case *ssa.ChangeType:
		return spareCap(x.X, depth+1, seen)
	case *ssa.Convert:
		return false, "" // string → []byte of a package-level initialiser is tight
	}
	return false, ""
}

// fillers: callees that write into a []byte argument (argument index).
func fillerArg(c ssa.CallInstruction) []int {
	cc := c.Common()
	if b, ok := cc.Value.(*ssa.Builtin); ok {
		if b.Name() == "copy" {
			return []int{0}
		}
		return nil
	}
	if cc.IsInvoke() {
		switch cc.Method.Name() {
		case "Read", "ReadAt", "ReadFull":
			return []int{0}
		case "PutUint16", "PutUint32", "PutUint64":
			return []int{0}
		}
		return nil
	}
	f := calleeFunc(c)
	if f == nil || f.Pkg() == nil {
		return nil
	}
	switch f.Pkg().Path() + "." + f.Name() {
	case "io.ReadFull", "io.ReadAtLeast":
		return []int{1}
	case "encoding/binary.PutUvarint", "encoding/binary.PutVarint", "encoding/hex.Encode", "encoding/hex.Decode":
		return []int{0}
	}
	if sig, ok := f.Type().(*types.Signature); ok && sig.Recv() != nil {
		switch f.Name() {
		case "Read", "ReadAt":
			return []int{0}
		case "PutUint16", "PutUint32", "PutUint64":
			return []int{0}
		}
	}
	return nil
}

func init() {
	register(&Rule{
		ID: "C16-g", Template: "ownership (package-level storage is not scratch space)",
		Doc: "Goroutines never share a hidden buffer: (a) every `append(G, …)` whose base is a package-level slice G and whose result is not assigned back to G requires G to be initialised without spare capacity — otherwise the append writes into G's backing array and all results alias it, so concurrent key builders (objects.blockKey & co., used by ingest workers, differs and transfers at once) overwrite each other's checksum bytes and an object is stored or looked up under another object's key; (b) no production function outside init stores through a package-level array/slice or hands its storage to a call that fills it (io.ReadFull, Read, copy, PutUint…).",
		Min: 4,
		Run: func(p *Program, r *RuleResult) error {
			for _, a := range []string{"pkg/objects.blockKey", "pkg/objects.commitKey"} {
				if _, err := p.Func(a); err != nil {
					return err
				}
			}
			fns := p.ProdFuncs()
			r.Analysed = len(fns)
			// initial values of package-level variables: stores in the package initialisers
			inits := map[*ssa.Global][]ssa.Value{}
			for _, pkg := range p.SSA.AllPackages() {
				if pkg.Pkg == nil || !isRepoPkgPath(pkg.Pkg.Path()) {
					continue
				}
				if ini := pkg.Func("init"); ini != nil {
					for _, b := range ini.Blocks {
						for _, in := range b.Instrs {
							if st, ok := in.(*ssa.Store); ok {
								if g, ok := st.Addr.(*ssa.Global); ok {
									inits[g] = append(inits[g], st.Val)
								}
							}
						}
					}
				}
			}
			type site struct {
				key, pos, why string
				bad           bool
			}
			var sites []site
			for _, fn := range fns {
				if fn.Name() == "init" && fn.Parent() == nil {
					continue
				}
				nApp := 0
				for _, b := range fn.Blocks {
					for _, in := range b.Instrs {
						switch x := in.(type) {
						case *ssa.Call:
							if isBuiltin(x, "append") && len(x.Call.Args) > 0 {
								g := globalOf(x.Call.Args[0])
								if g == nil || g.Pkg == nil || !isRepoPkgPath(g.Pkg.Pkg.Path()) {
									continue
								}
								// result stored back into g: ordinary growth of a package-level list
								back := false
								for _, ref := range *x.Referrers() {
									if st, ok := ref.(*ssa.Store); ok && st.Addr == ssa.Value(g) {
										back = true
									}
								}
								if back {
									continue
								}
								key := fmt.Sprintf("%s|append(%s)#%d", funcName(fn), g.Name(), nApp)
								nApp++
								s := site{key: key, pos: p.Rel(x.Pos())}
								vals, known := inits[g]
								if !known {
									s.bad, s.why = true, "package-level slice "+g.Name()+" has no analysable initialiser"
								}
								for _, v := range vals {
									if ok, why := spareCap(v, 0, map[ssa.Value]bool{}); ok {
										s.bad, s.why = true, fmt.Sprintf("package-level slice %s is initialised with spare capacity (%s): append writes into the shared backing array and every result aliases it", g.Name(), why)
									}
								}
								sites = append(sites, s)
							}
							// storage of a package-level array/slice handed to a filler
							for _, ai := range fillerArg(x) {
								if ai >= len(x.Call.Args) {
									continue
								}
								if g := globalStorage(x.Call.Args[ai], 0); g != nil && g.Pkg != nil && isRepoPkgPath(g.Pkg.Pkg.Path()) {
									sites = append(sites, site{key: fmt.Sprintf("%s|fill(%s)", funcName(fn), g.Name()), pos: p.Rel(x.Pos()), bad: true,
										why: fmt.Sprintf("%s fills package-level storage %s: every goroutine decoding at the same time shares these bytes", calleeLabel(x), g.Name())})
								}
							}
						case *ssa.Store:
							if g := globalStorage(x.Addr, 0); g != nil && g.Pkg != nil && isRepoPkgPath(g.Pkg.Pkg.Path()) {
								if _, direct := x.Addr.(*ssa.Global); direct {
									continue // assignment of the variable itself: T9 / other rules
								}
								if _, isMap := derefType(g.Type()).Underlying().(*types.Map); isMap {
									continue
								}
								sites = append(sites, site{key: fmt.Sprintf("%s|store(%s)", funcName(fn), g.Name()), pos: p.Rel(x.Pos()), bad: true,
									why: "store into package-level storage " + g.Name() + " outside init"})
							}
						}
					}
				}
			}
			sort.Slice(sites, func(i, j int) bool { return sites[i].key < sites[j].key })
			seen := map[string]bool{}
			for _, s := range sites {
				if seen[s.key] {
					continue
				}
				seen[s.key] = true
				what := "package-level storage is not written by concurrent callers"
				if strings.Contains(s.key, "|append(") {
					what = "append on a package-level base cannot write into the shared backing array"
				}
				if s.bad {
					r.bad(s.key, s.pos, what, s.why)
				} else {
					r.ok(s.key, s.pos, what)
				}
			}
			return nil
		},
	})
}

// globalStorage: v addresses (or is a slice of) the storage of a package-level
// array or slice variable.
func globalStorage(v ssa.Value, depth int) *ssa.Global {
	if depth > 5 {
		return nil
	}
	switch x := v.(type) {
	case *ssa.Global:
		return x
	case *ssa.IndexAddr:
		return globalStorage(x.X, depth+1)
	case *ssa.FieldAddr:
		return nil // fields of package-level structs: handled by the lock rules
	case *ssa.Slice:
		return globalStorage(x.X, depth+1)
	case *ssa.UnOp:
		if x.Op == token.MUL {
			if g, ok := x.X.(*ssa.Global); ok {
				if _, isSlice := g.Type().(*types.Pointer).Elem().Underlying().(*types.Slice); isSlice {
					return g
				}
			}
		}
	case *ssa.ChangeType:
		return globalStorage(x.X, depth+1)
	}
	return nil
}

// ---- C16-i: pooled objects ----

// pooledDerived: v and what shares storage with it — its fields, what is loaded
// from them, slices/pointers returned by its own methods.
func pooledDerived(fn *ssa.Function, root ssa.Value) map[ssa.Value]bool {
	D := map[ssa.Value]bool{root: true}
	for changed := true; changed; {
		changed = false
		add := func(v ssa.Value) {
			if v != nil && !D[v] {
				D[v] = true
				changed = true
			}
		}
		for _, b := range fn.Blocks {
			for _, in := range b.Instrs {
				switch x := in.(type) {
				case *ssa.FieldAddr:
					if D[x.X] {
						add(x)
					}
				case *ssa.Field:
					if D[x.X] {
						add(x)
					}
				case *ssa.UnOp:
					if x.Op == token.MUL && D[x.X] {
						if _, isFA := x.X.(*ssa.FieldAddr); isFA {
							switch x.Type().Underlying().(type) {
							case *types.Pointer, *types.Slice, *types.Map, *types.Interface:
								add(x)
							}
						}
					}
				case *ssa.Phi:
					for _, e := range x.Edges {
						if D[e] {
							add(x)
						}
					}
				case *ssa.ChangeType:
					if D[x.X] {
						add(x)
					}
				case *ssa.MakeInterface:
					if D[x.X] {
						add(x)
					}
				case *ssa.Slice:
					if D[x.X] {
						add(x)
					}
				case *ssa.Call:
					// a method of the pooled object that hands out its storage
					cc := x.Common()
					var recv ssa.Value
					if cc.IsInvoke() {
						recv = cc.Value
					} else if sc := cc.StaticCallee(); sc != nil && sc.Signature.Recv() != nil && len(cc.Args) > 0 {
						recv = cc.Args[0]
					}
					if recv != nil && D[recv] {
						switch x.Type().Underlying().(type) {
						case *types.Slice, *types.Pointer:
							add(x)
						}
					}
				}
			}
		}
	}
	return D
}

func init() {
	register(&Rule{
		ID: "C16-i", Template: "typestate (no use after release)",
		Doc: "An object handed back to a sync.Pool belongs to whoever takes it next: in every production function, after (*sync.Pool).Put(x) nothing that shares storage with x (x itself, its fields, slices/pointers returned by its methods such as Bytes()) is used again in that activation, and when the Put is deferred nothing that shares storage with x is returned to the caller. Two transfers or two IndexTable calls at the same time would otherwise read and write each other's bytes: a table index holding another table's keys, or a received object whose body changes under the receiver.",
		Min: 3,
		Run: func(p *Program, r *RuleResult) error {
			fns := p.ProdFuncs()
			r.Analysed = len(fns)
			isPut := func(c ssa.CallInstruction) bool {
				f := calleeFunc(c)
				return f != nil && f.FullName() == "(*sync.Pool).Put"
			}
			isGet := func(in ssa.Instruction) bool {
				c, ok := in.(ssa.CallInstruction)
				if !ok {
					return false
				}
				f := calleeFunc(c)
				return f != nil && f.FullName() == "(*sync.Pool).Get"
			}
			for _, fn := range fns {
				n := 0
				for _, b := range fn.Blocks {
					for _, in := range b.Instrs {
						ci, ok := in.(ssa.CallInstruction)
						if !ok || !isPut(ci) || len(ci.Common().Args) < 2 {
							continue
						}
						root := ci.Common().Args[1]
						if mi, ok := root.(*ssa.MakeInterface); ok {
							root = mi.X
						}
						D := pooledDerived(fn, root)
						key := fmt.Sprintf("%s|Pool.Put#%d", funcName(fn), n)
						n++
						what := "nothing that shares storage with a pooled object is used after it was put back"
						_, deferred := in.(*ssa.Defer)
						if deferred {
							bad := ""
							for _, ret := range returnsOf(fn) {
								for i := range ret.Results {
									v := retVal(ret, i)
									if v != nil && D[v] {
										bad = "the function returns " + v.Name() + " (" + p.Rel(ret.Pos()) + "), which shares storage with the object that the deferred Put releases: the caller reads bytes that the next user of the pool overwrites"
									}
								}
							}
							if bad != "" {
								r.bad(key, p.Rel(in.Pos()), what, bad)
							} else {
								r.ok(key, p.Rel(in.Pos()), what)
							}
							continue
						}
						// immediate Put: no later use (a new Get starts a new life)
						block := map[ssa.Instruction]bool{}
						for _, b2 := range fn.Blocks {
							for _, i2 := range b2.Instrs {
								if isGet(i2) {
									block[i2] = true
								}
							}
						}
						// … and so does executing the definition of the pooled value again
						// (the next element of a loop over objects that are all put back)
						if def, ok := root.(ssa.Instruction); ok {
							block[def] = true
						}
						bad := ""
						for _, b2 := range fn.Blocks {
							for _, i2 := range b2.Instrs {
								if i2 == in || bad != "" {
									continue
								}
								if _, ok := i2.(*ssa.DebugRef); ok {
									continue
								}
								uses := false
								for _, op := range i2.Operands(nil) {
									if *op != nil && D[*op] {
										uses = true
									}
								}
								if !uses {
									continue
								}
								if v, ok := i2.(ssa.Value); ok && D[v] {
									// deriving is not using: FieldAddr etc. — but loads and calls are
									switch i2.(type) {
									case *ssa.FieldAddr, *ssa.Phi, *ssa.ChangeType, *ssa.MakeInterface, *ssa.Slice:
										continue
									}
								}
								if path, reach := reachAfter(fn, in, i2, nil, block); reach {
									bad = fmtPath("used again at "+p.Rel(i2.Pos())+" after it was put back", path)
								}
							}
						}
						if bad != "" {
							r.bad(key, p.Rel(in.Pos()), what, bad)
						} else {
							r.ok(key, p.Rel(in.Pos()), what)
						}
					}
				}
			}
			return nil
		},
	})
}

// ---- C08-f: a slice handed out from an object's own state is not reordered by the borrower ----

// exposedResults: result indexes of fn through which it returns a slice that it
// also keeps in a field of its receiver (stored into, or loaded from, the field).
func exposedResults(fn *ssa.Function) map[int]*types.Var {
	out := map[int]*types.Var{}
	if fn.Signature.Recv() == nil || len(fn.Params) == 0 {
		return out
	}
	recv := fn.Params[0]
	fieldOf := func(addr ssa.Value) *types.Var {
		fa, ok := addr.(*ssa.FieldAddr)
		if !ok || fa.X != ssa.Value(recv) {
			return nil
		}
		return structField(fa.X.Type(), fa.Field)
	}
	kept := map[ssa.Value]*types.Var{}
	for _, b := range fn.Blocks {
		for _, in := range b.Instrs {
			switch x := in.(type) {
			case *ssa.Store:
				if f := fieldOf(x.Addr); f != nil {
					if _, ok := x.Val.Type().Underlying().(*types.Slice); ok {
						for v := range backward(x.Val, func(v ssa.Value) bool { _, isCall := v.(*ssa.Call); return !isCall }) {
							kept[v] = f
						}
						kept[x.Val] = f
					}
				}
			case *ssa.UnOp:
				if x.Op == token.MUL {
					if f := fieldOf(x.X); f != nil {
						if _, ok := x.Type().Underlying().(*types.Slice); ok {
							kept[x] = f
						}
					}
				}
			}
		}
	}
	for _, ret := range returnsOf(fn) {
		for i := range ret.Results {
			v := retVal(ret, i)
			if v == nil {
				continue
			}
			if _, ok := v.Type().Underlying().(*types.Slice); !ok {
				continue
			}
			if f, ok := kept[v]; ok {
				out[i] = f
				continue
			}
			if ph, ok := v.(*ssa.Phi); ok {
				for _, e := range ph.Edges {
					if f, ok := kept[e]; ok {
						out[i] = f
					}
				}
			}
		}
	}
	return out
}

// reorderedParams: indexes of slice parameters that fn sorts or overwrites in place.
func reorderedParams(fn *ssa.Function) map[int]string {
	out := map[int]string{}
	for i, par := range fn.Params {
		if _, ok := par.Type().Underlying().(*types.Slice); !ok {
			continue
		}
		D := forward([]ssa.Value{par}, fwdOpts{noBinOp: true})
		for _, b := range fn.Blocks {
			for _, in := range b.Instrs {
				switch x := in.(type) {
				case *ssa.Call:
					f := calleeFunc(x)
					if f != nil && f.Pkg() != nil && (f.Pkg().Path() == "sort" || f.Pkg().Path() == "slices") && len(x.Call.Args) > 0 {
						switch f.Name() {
						case "Slice", "SliceStable", "Sort", "Stable", "Strings", "Ints", "SortFunc", "SortStableFunc", "Reverse":
							a := x.Call.Args[0]
							if mi, ok := a.(*ssa.MakeInterface); ok {
								a = mi.X
							}
							if D[a] {
								out[i] = "sorts it in place (" + shortObj(f) + ")"
							}
						}
					}
				case *ssa.Store:
					if ia, ok := x.Addr.(*ssa.IndexAddr); ok && D[ia.X] {
						out[i] = "stores into its elements"
					}
				}
			}
		}
	}
	return out
}

func init() {
	register(&Rule{
		ID: "C08-f", Template: "ownership (borrowed slice is not reordered)",
		Doc: "The send order survives being looked at: a slice that a method returns while also keeping it in a field of its receiver (a cached result) is never handed, by any production caller, to a function that sorts or overwrites that parameter in place. ClosedSetsFinder.CommitsToSend yields commits parents-first; a borrower that re-sorts a cached list (e.g. newest first for a report) silently changes the order the object sender later reads from the same finder, and the receiver rejects children that arrive before their parents.",
		Min: 1,
		Run: func(p *Program, r *RuleResult) error {
			if _, err := p.SSAFunc("pkg/api/utils.(*ClosedSetsFinder).CommitsToSend"); err != nil {
				return err
			}
			fns := p.ProdFuncs()
			r.Analysed = len(fns)
			exposers := map[*ssa.Function]map[int]*types.Var{}
			mutators := map[*ssa.Function]map[int]string{}
			for _, fn := range fns {
				if e := exposedResults(fn); len(e) > 0 {
					exposers[fn] = e
				}
				if m := reorderedParams(fn); len(m) > 0 {
					mutators[fn] = m
				}
			}
			r.note("methods returning a slice they also keep in a field: %d; functions that reorder a slice parameter in place: %d", len(exposers), len(mutators))
			n := 0
			for _, fn := range fns {
				for _, b := range fn.Blocks {
					for _, in := range b.Instrs {
						call, ok := in.(*ssa.Call)
						if !ok {
							continue
						}
						sc := call.Call.StaticCallee()
						if sc == nil || exposers[sc] == nil {
							continue
						}
						// values of the exposed results in the caller
						var exposed []ssa.Value
						if sc.Signature.Results().Len() == 1 {
							exposed = append(exposed, call)
						} else {
							for _, ref := range *call.Referrers() {
								if ex, ok := ref.(*ssa.Extract); ok {
									if _, isExp := exposers[sc][ex.Index]; isExp {
										exposed = append(exposed, ex)
									}
								}
							}
						}
						if len(exposed) == 0 {
							continue
						}
						D := forward(exposed, fwdOpts{noBinOp: true})
						eachCall(fn, func(c2 ssa.CallInstruction) {
							m := c2.Common().StaticCallee()
							if m == nil || mutators[m] == nil {
								return
							}
							for pi, how := range mutators[m] {
								if pi < len(c2.Common().Args) && D[c2.Common().Args[pi]] {
									n++
									var fld *types.Var
									for _, f := range exposers[sc] {
										fld = f
									}
									r.bad(callKey(fn, c2)+"|borrowed", p.Rel(c2.Pos()), "a slice borrowed from another object's state is not reordered",
										fmt.Sprintf("%s hands the slice returned by %s (also kept in its field %s) to %s, which %s: the owner's later readers see the new order", funcName(fn), funcName(sc), fld.Name(), funcName(m), how))
								}
							}
						})
					}
				}
			}
			if n == 0 {
				r.ok("production|borrowed-slices", "", "a slice borrowed from another object's state is not reordered")
			}
			return nil
		},
	})
}

// ---- C16-j: nobody waits for a goroutine that may be parked in a send only the waiter can take ----

func fieldOfChanValue(v ssa.Value) *types.Var {
	v = stripConv(v)
	if u, ok := v.(*ssa.UnOp); ok && u.Op == token.MUL {
		if fa, ok := u.X.(*ssa.FieldAddr); ok {
			return structField(fa.X.Type(), fa.Field)
		}
	}
	return nil
}

func init() {
	register(&Rule{
		ID: "C16-j", Template: "wait-for cycle (stop waits for a producer that waits for its consumer)",
		Doc: "Stopping never deadlocks: in the pipeline packages, if a goroutine started by a method of a type delivers values with a plain blocking send on a channel kept in a field of that type (a channel handed out to the consumer), then no method of the type blocks on a receive from another field channel that only this goroutine closes or sends on (its completion signal). The consumer that calls Stop is the only one who could take the pending value — with a tick pending, Stop would wait for the goroutine and the goroutine for the caller of Stop.",
		Min: 1,
		Run: func(p *Program, r *RuleResult) error {
			if _, err := p.SSAFunc("pkg/progress.(*SingleTracker).Stop"); err != nil {
				return err
			}
			fns := p.FuncsInPkg("pkg/progress", "pkg/pbar", "pkg/diff", "pkg/merge", "pkg/ingest", "pkg/sorter")
			r.Analysed = len(fns)
			// goroutine bodies: closures launched with `go`
			type gor struct {
				fn        *ssa.Function
				sendsOn   map[*types.Var]token.Pos
				completes map[*types.Var]bool
			}
			var gors []gor
			for _, fn := range fns {
				for _, b := range fn.Blocks {
					for _, in := range b.Instrs {
						g, ok := in.(*ssa.Go)
						if !ok {
							continue
						}
						var body *ssa.Function
						if mc, ok := g.Call.Value.(*ssa.MakeClosure); ok {
							body, _ = mc.Fn.(*ssa.Function)
						} else if sc := g.Call.StaticCallee(); sc != nil {
							body = sc
						}
						if body == nil || len(body.Blocks) == 0 {
							continue
						}
						x := gor{fn: body, sendsOn: map[*types.Var]token.Pos{}, completes: map[*types.Var]bool{}}
						for _, b2 := range body.Blocks {
							for _, i2 := range b2.Instrs {
								switch y := i2.(type) {
								case *ssa.Send:
									if f := fieldOfChanValue(y.Chan); f != nil {
										x.sendsOn[f] = y.Pos()
									}
								case ssa.CallInstruction:
									if isBuiltin(y, "close") && len(y.Common().Args) == 1 {
										if f := fieldOfChanValue(y.Common().Args[0]); f != nil {
											x.completes[f] = true
										}
									}
								}
							}
						}
						gors = append(gors, x)
					}
				}
			}
			n := 0
			for _, fn := range fns {
				for _, b := range fn.Blocks {
					for _, in := range b.Instrs {
						u, ok := in.(*ssa.UnOp)
						if !ok || u.Op != token.ARROW {
							continue
						}
						f := fieldOfChanValue(u.X)
						if f == nil {
							continue
						}
						for _, g := range gors {
							if g.fn == fn || !g.completes[f] {
								continue
							}
							for sf, pos := range g.sendsOn {
								if sf == f {
									continue
								}
								n++
								r.bad(fmt.Sprintf("%s|waits-on %s", funcName(fn), f.Name()), p.Rel(u.Pos()), "no method waits for a goroutine that can be parked in a blocking send to the consumer",
									fmt.Sprintf("%s blocks on <-%s, which only the goroutine %s closes; that goroutine delivers with a plain blocking send on %s (%s) and cannot finish while a value is pending — the caller of %s is the one who would have to receive it", funcName(fn), f.Name(), funcName(g.fn), sf.Name(), p.Rel(pos), fn.Name()))
							}
						}
					}
				}
			}
			if n == 0 {
				r.ok("pipeline|no-wait-for-cycle", "", "no method waits for a goroutine that can be parked in a blocking send to the consumer")
			}
			return nil
		},
	})
}

// ---- C05-f: a retained row does not live in a recycled buffer ----

// retainedParams: slice parameters that fn keeps (stores the slice itself, not a
// copy) in storage reachable from its receiver.
func retainedParams(fn *ssa.Function) map[int]bool {
	out := map[int]bool{}
	if fn.Signature.Recv() == nil || len(fn.Params) < 2 {
		return out
	}
	recv := fn.Params[0]
	fromRecv := func(v ssa.Value) bool {
		for x := range backward(v, nil) {
			if x == ssa.Value(recv) {
				return true
			}
		}
		return false
	}
	for i, par := range fn.Params[1:] {
		if _, ok := par.Type().Underlying().(*types.Slice); !ok {
			continue
		}
		same := forward([]ssa.Value{par}, fwdOpts{noBinOp: true})
		for _, b := range fn.Blocks {
			for _, in := range b.Instrs {
				switch x := in.(type) {
				case *ssa.Store:
					if same[x.Val] && x.Val.Type() == par.Type() {
						if _, isAlloc := x.Addr.(*ssa.Alloc); !isAlloc && fromRecv(x.Addr) {
							out[i+1] = true
						}
						// element of a literal that is appended to receiver state
						if ia, ok := x.Addr.(*ssa.IndexAddr); ok {
							if al, ok := ia.X.(*ssa.Alloc); ok {
								for _, ref := range *al.Referrers() {
									if sl, ok := ref.(*ssa.Slice); ok {
										for _, r2 := range *sl.Referrers() {
											if c, ok := r2.(*ssa.Call); ok && isBuiltin(c, "append") && len(c.Call.Args) == 2 && c.Call.Args[1] == ssa.Value(sl) && fromRecv(c.Call.Args[0]) {
												out[i+1] = true
											}
										}
									}
								}
							}
						}
					}
				}
			}
		}
	}
	return out
}

// selfFed: call is `x = F(…, x, …)` in a loop — one of its arguments is the
// (loop-carried) slice result of the same call: F works in the caller's buffer.
func selfFed(call *ssa.Call) bool {
	results := map[ssa.Value]bool{}
	if _, ok := call.Type().Underlying().(*types.Slice); ok {
		results[call] = true
	}
	for _, ref := range *call.Referrers() {
		if ex, ok := ref.(*ssa.Extract); ok {
			if sl, ok := ex.Type().Underlying().(*types.Slice); ok {
				if _, nested := sl.Elem().Underlying().(*types.Slice); nested {
					results[ex] = true
				}
			}
		}
	}
	if len(results) == 0 {
		return false
	}
	for _, a := range call.Call.Args {
		if sl, ok := a.Type().Underlying().(*types.Slice); !ok {
			continue
		} else if _, nested := sl.Elem().Underlying().(*types.Slice); !nested {
			continue
		}
		for x := range backward(a, func(v ssa.Value) bool { _, isCall := v.(*ssa.Call); return !isCall }) {
			if results[x] {
				return true
			}
		}
	}
	return false
}

func init() {
	register(&Rule{
		ID: "C05-f", Template: "ownership (retained × recycled)",
		Doc: "Rows collected for the merge result keep their content: if a method keeps the row slice it is given (stores the slice itself into its receiver's state, as opposed to copying the cells), then no production caller passes it a row that lives in a recycled buffer — an element of a [][]string that the caller feeds back, iteration after iteration, into the function that filled it (x = f(…, x, …)). The next block would overwrite rows that are still waiting in the sorter, and the sorter's duplicate filter then silently drops them.",
		Min: 1,
		Run: func(p *Program, r *RuleResult) error {
			if _, err := p.SSAFunc("pkg/sorter.(*Sorter).AddRow"); err != nil {
				return err
			}
			fns := p.ProdFuncs()
			r.Analysed = len(fns)
			retainers := map[*ssa.Function]map[int]bool{}
			for _, fn := range fns {
				if m := retainedParams(fn); len(m) > 0 {
					retainers[fn] = m
				}
			}
			// retention through a wrapper that passes its own parameter on
			for round := 0; round < 3; round++ {
				for _, fn := range fns {
					for i, par := range fn.Params {
						if retainers[fn][i] {
							continue
						}
						if _, ok := par.Type().Underlying().(*types.Slice); !ok {
							continue
						}
						same := forward([]ssa.Value{par}, fwdOpts{noBinOp: true})
						eachCall(fn, func(c ssa.CallInstruction) {
							sc := c.Common().StaticCallee()
							if sc == nil || retainers[sc] == nil {
								return
							}
							for k := range retainers[sc] {
								if k < len(c.Common().Args) && same[c.Common().Args[k]] {
									if retainers[fn] == nil {
										retainers[fn] = map[int]bool{}
									}
									retainers[fn][i] = true
								}
							}
						})
					}
				}
			}
			r.note("methods that keep a slice parameter in their receiver's state: %d", len(retainers))
			n := 0
			for _, fn := range fns {
				eachCall(fn, func(c ssa.CallInstruction) {
					sc := c.Common().StaticCallee()
					if sc == nil || retainers[sc] == nil {
						return
					}
					for k := range retainers[sc] {
						if k >= len(c.Common().Args) {
							continue
						}
						for x := range backward(c.Common().Args[k], func(v ssa.Value) bool { _, isCall := v.(*ssa.Call); return !isCall }) {
							var src *ssa.Call
							switch y := x.(type) {
							case *ssa.Extract:
								src, _ = y.Tuple.(*ssa.Call)
							case *ssa.Call:
								src = y
							}
							if src != nil && selfFed(src) {
								n++
								r.bad(callKey(fn, c)+"|recycled", p.Rel(c.Pos()), "a retained row does not live in a recycled buffer",
									fmt.Sprintf("%s keeps the slice it is given, and %s passes it an element of the buffer that %s (%s) refills on every iteration", funcName(sc), funcName(fn), calleeLabel(src), p.Rel(src.Pos())))
							}
						}
					}
				})
			}
			if n == 0 {
				r.ok("production|retained-rows", "", "a retained row does not live in a recycled buffer")
			}
			return nil
		},
	})
}

// ---- C16-l: a worker announces that it is done after it has published its results ----

// storesSharedField: f (or a repo function it calls, bounded) stores into a field of
// something it did not allocate itself (receiver, parameter, captured variable).
func storesSharedField(f *ssa.Function, depth int, seen map[*ssa.Function]bool) bool {
	if f == nil || len(f.Blocks) == 0 || seen[f] {
		return false
	}
	seen[f] = true
	for _, b := range f.Blocks {
		for _, in := range b.Instrs {
			switch x := in.(type) {
			case *ssa.Store:
				if fa, ok := x.Addr.(*ssa.FieldAddr); ok {
					base := fa.X
					for {
						if u, ok := base.(*ssa.UnOp); ok && u.Op == token.MUL {
							base = u.X
							continue
						}
						if fa2, ok := base.(*ssa.FieldAddr); ok {
							base = fa2.X
							continue
						}
						break
					}
					switch base.(type) {
					case *ssa.Parameter, *ssa.FreeVar:
						return true
					}
				}
			case ssa.CallInstruction:
				if depth > 0 {
					if sc := x.Common().StaticCallee(); sc != nil && isRepoPkgPath(fnPkgPath(sc)) && storesSharedField(sc, depth-1, seen) {
						return true
					}
				}
			}
		}
	}
	return false
}

func init() {
	register(&Rule{
		ID: "C16-l", Template: "T2 never-follows (WaitGroup.Done is a worker's last effect)",
		Doc: "Whoever waits for the workers sees everything they produced: in a function started with `go` (pipeline packages), nothing that writes state shared with the waiter runs after the worker's (*sync.WaitGroup).Done — no deferred call of a repo function that stores into a field of its receiver / parameter / captured variable is registered before the deferred Done (deferred calls run last-in first-out, so it would run after it), and no such call follows a plain Done(). A worker that signals Done and then publishes its blocks races with the waiter, which has already read the list: blocks and rows are lost in a fraction of the runs with more than one worker.",
		Min: 1,
		Run: func(p *Program, r *RuleResult) error {
			if _, err := p.SSAFunc("pkg/ingest.(*Inserter).insertBlock"); err != nil {
				return err
			}
			fns := p.FuncsInPkg("pkg/progress", "pkg/pbar", "pkg/diff", "pkg/merge", "pkg/ingest", "pkg/sorter", "pkg/api/utils", "pkg/api/client")
			r.Analysed = len(fns)
			isDone := func(c *ssa.CallCommon) bool {
				f := c.StaticCallee()
				if f == nil || f.Name() != "Done" {
					return false
				}
				if recv := f.Signature.Recv(); recv != nil {
					return strings.Contains(recv.Type().String(), "sync.WaitGroup")
				}
				return false
			}
			bodies := map[*ssa.Function]bool{}
			for _, fn := range fns {
				for _, b := range fn.Blocks {
					for _, in := range b.Instrs {
						g, ok := in.(*ssa.Go)
						if !ok {
							continue
						}
						if mc, ok := g.Call.Value.(*ssa.MakeClosure); ok {
							if f, ok := mc.Fn.(*ssa.Function); ok {
								bodies[f] = true
							}
						} else if sc := g.Call.StaticCallee(); sc != nil {
							bodies[sc] = true
						}
					}
				}
			}
			for _, fn := range sortedFuncs(bodies) {
				if len(fn.Blocks) == 0 {
					continue
				}
				var doneDefers, donePlain []ssa.Instruction
				for _, b := range fn.Blocks {
					for _, in := range b.Instrs {
						switch x := in.(type) {
						case *ssa.Defer:
							if isDone(&x.Call) {
								doneDefers = append(doneDefers, x)
							}
						case *ssa.Call:
							if isDone(&x.Call) {
								donePlain = append(donePlain, x)
							}
						}
					}
				}
				if len(doneDefers)+len(donePlain) == 0 {
					continue
				}
				key := funcName(fn) + "|done-last"
				what := "nothing shared is written after the worker's WaitGroup.Done"
				bad := ""
				calleeOf := func(cc *ssa.CallCommon) *ssa.Function {
					if mc, ok := cc.Value.(*ssa.MakeClosure); ok {
						f, _ := mc.Fn.(*ssa.Function)
						return f
					}
					return cc.StaticCallee()
				}
				for _, b := range fn.Blocks {
					for _, in := range b.Instrs {
						switch x := in.(type) {
						case *ssa.Defer:
							if isDone(&x.Call) {
								continue
							}
							f := calleeOf(&x.Call)
							if f == nil || !isRepoPkgPath(fnPkgPath(f)) || !storesSharedField(f, 2, map[*ssa.Function]bool{}) {
								continue
							}
							for _, d := range doneDefers {
								if _, reach := reachAfter(fn, x, d, nil, nil); reach {
									bad = fmt.Sprintf("`defer %s` (%s) is registered before `defer Done()` (%s): it runs after Done, when the waiter may already have read what it writes", funcName(f), p.Rel(x.Pos()), p.Rel(d.Pos()))
								}
							}
						case *ssa.Call:
							f := calleeOf(&x.Call)
							if f == nil || !isRepoPkgPath(fnPkgPath(f)) || !storesSharedField(f, 2, map[*ssa.Function]bool{}) {
								continue
							}
							for _, d := range donePlain {
								if _, reach := reachAfter(fn, d, x, nil, nil); reach {
									bad = fmt.Sprintf("%s (%s) can run after Done() (%s)", funcName(f), p.Rel(x.Pos()), p.Rel(d.Pos()))
								}
							}
						}
					}
				}
				if bad != "" {
					r.bad(key, p.Rel(fn.Pos()), what, bad)
				} else {
					r.ok(key, p.Rel(fn.Pos()), what)
				}
			}
			return nil
		},
	})
}
