package main

import (
	"fmt"
	"go/types"

	"golang.org/x/tools/go/ssa"
)

func init() {
	register(&Rule{
		ID: "C08-a", Template: "T1 must-traverse",
		Doc: "Wants not reachable from any ref are refused: in ClosedSetsFinder.Process every store of a caller-supplied hash into the Wants map happens only after the reachability check (the function of pkg/api/utils that builds *UnrecognizedWantsError) succeeded.",
		Min: 1,
		Run: func(p *Program, r *RuleResult) error {
			proc, err := p.SSAFunc("pkg/api/utils.(*ClosedSetsFinder).Process")
			if err != nil {
				return err
			}
			unrec, err := p.NamedType("pkg/api/utils.UnrecognizedWantsError")
			if err != nil {
				return err
			}
			wantsField, err := p.Field("pkg/api/utils.ClosedSetsFinder.Wants")
			if err != nil {
				return err
			}
			checkers := map[*types.Func]bool{}
			for _, fn := range p.FuncsInPkg("pkg/api/utils") {
				if fn.Parent() != nil {
					continue
				}
				for _, b := range fn.Blocks {
					for _, in := range b.Instrs {
						if al, ok := in.(*ssa.Alloc); ok {
							if pt, ok := al.Type().(*types.Pointer); ok && types.Identical(pt.Elem(), unrec) {
								if obj, ok := fn.Object().(*types.Func); ok {
									checkers[obj] = true
								}
							}
						}
					}
				}
			}
			if len(checkers) == 0 {
				return &AnchorError{"a function of pkg/api/utils that builds *UnrecognizedWantsError"}
			}
			r.Analysed = 1
			g := &guardCheck{p: p, pre: newSuccSummary(p, checkers)}
			if len(proc.Params) < 2 {
				return &AnchorError{"Process(wants, …) parameter"}
			}
			fromWants := forward([]ssa.Value{proc.Params[1]}, fwdOpts{throughIndex: true, noBinOp: true, throughField: true})
			n := 0
			for _, b := range proc.Blocks {
				for _, in := range b.Instrs {
					mu, ok := in.(*ssa.MapUpdate)
					if !ok || !derivedFromField(mu.Map, wantsField) {
						continue
					}
					if !fromWants[mu.Key] && !fromWants[stripConv(mu.Key)] {
						continue
					}
					key := fmt.Sprintf("%s|Wants[want]=…#%d", funcName(proc), n)
					n++
					what := "a requested hash is accepted as a want only after it was found reachable from a ref"
					if ok, w := g.check(proc, mu, 0); ok {
						r.ok(key, p.Rel(mu.Pos()), what)
					} else {
						r.bad(key, p.Rel(mu.Pos()), what, w)
					}
				}
			}
			return nil
		},
	})

	register(&Rule{
		ID: "C08-b", Template: "constant arguments on reachable calls",
		Doc: "The reachability check's frontier is seeded from an unfiltered ref listing: every ref.Store.Filter / FilterKey invocation reachable from ClosedSetsFinder.Process passes nil prefixes and nil exclusions.",
		Min: 1,
		Run: func(p *Program, r *RuleResult) error {
			proc, err := p.SSAFunc("pkg/api/utils.(*ClosedSetsFinder).Process")
			if err != nil {
				return err
			}
			store, err := p.NamedType("pkg/ref.Store")
			if err != nil {
				return err
			}
			iface := store.Underlying().(*types.Interface)
			filt := map[*types.Func]bool{}
			for i := 0; i < iface.NumMethods(); i++ {
				if n := iface.Method(i).Name(); n == "Filter" || n == "FilterKey" {
					filt[iface.Method(i)] = true
				}
			}
			reach := map[*ssa.Function]bool{}
			for f := range p.Reachable(p.CG, proc) {
				if p.IsProd(f) {
					reach[f] = true
				}
			}
			r.Analysed = len(reach)
			for _, fn := range sortedFuncs(reach) {
				eachCall(fn, func(c ssa.CallInstruction) {
					cc := c.Common()
					if !cc.IsInvoke() || !filt[cc.Method] {
						return
					}
					what := "ref listing that seeds the want-reachability frontier must be unfiltered"
					if len(cc.Args) == 2 && isNilConst(cc.Args[0]) && isNilConst(cc.Args[1]) {
						r.ok(callKey(fn, c), p.Rel(c.Pos()), what)
					} else {
						r.bad(callKey(fn, c), p.Rel(c.Pos()), what, "a filtered ref listing is reachable from ClosedSetsFinder.Process: wants that are only reachable from the excluded refs would be refused (or accepted without being reachable)")
					}
				})
			}
			return nil
		},
	})
}
