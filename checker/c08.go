package main

import (
	"fmt"
	"go/types"
	"sort"

	"golang.org/x/tools/go/ssa"
)

func init() {
	register(&Rule{
		ID: "C08-a", Template: "T1 must-traverse",
		Doc: "Wants not reachable from any ref are refused: in ClosedSetsFinder.Process every store of a caller-supplied hash into the Wants map happens only after the reachability check (the function of pkg/api/utils that builds *UnrecognizedWantsError) succeeded.",
		Min: 1,
		Run: func(p *Program, r *RuleResult) error {
			proc, err := p.SSAFunc("pkg/api/utils.(*ClosedSetsFinder).Process")
			if err != nil {
				return err
			}
			unrec, err := p.NamedType("pkg/api/utils.UnrecognizedWantsError")
			if err != nil {
				return err
			}
			wantsField, err := p.Field("pkg/api/utils.ClosedSetsFinder.Wants")
			if err != nil {
				return err
			}
			checkers := map[*types.Func]bool{}
			for _, fn := range p.FuncsInPkg("pkg/api/utils") {
				if fn.Parent() != nil {
					continue
				}
				for _, b := range fn.Blocks {
					for _, in := range b.Instrs {
						if al, ok := in.(*ssa.Alloc); ok {
							if pt, ok := al.Type().(*types.Pointer); ok && types.Identical(pt.Elem(), unrec) {
								if obj, ok := fn.Object().(*types.Func); ok {
									checkers[obj] = true
								}
							}
						}
					}
				}
			}
			if len(checkers) == 0 {
				return &AnchorError{"a function of pkg/api/utils that builds *UnrecognizedWantsError"}
			}
			r.Analysed = 1
			g := &guardCheck{p: p, pre: newSuccSummary(p, checkers)}
			if len(proc.Params) < 2 {
				return &AnchorError{"Process(wants, …) parameter"}
			}
			fromWants := forward([]ssa.Value{proc.Params[1]}, fwdOpts{throughIndex: true, noBinOp: true, throughField: true})
			n := 0
			for _, b := range proc.Blocks {
				for _, in := range b.Instrs {
					mu, ok := in.(*ssa.MapUpdate)
					if !ok || !derivedFromField(mu.Map, wantsField) {
						continue
					}
					if !fromWants[mu.Key] && !fromWants[stripConv(mu.Key)] {
						continue
					}
					key := fmt.Sprintf("%s|Wants[want]=…#%d", funcName(proc), n)
					n++
					what := "a requested hash is accepted as a want only after it was found reachable from a ref"
					if ok, w := g.check(proc, mu, 0); ok {
						r.ok(key, p.Rel(mu.Pos()), what)
					} else {
						r.bad(key, p.Rel(mu.Pos()), what, w)
					}
				}
			}
			return nil
		},
	})

	register(&Rule{
		ID: "C08-b", Template: "constant arguments on reachable calls",
		Doc: "The reachability check's frontier is seeded from an unfiltered ref listing: every ref.Store.Filter / FilterKey invocation reachable from ClosedSetsFinder.Process passes nil prefixes and nil exclusions.",
		Min: 1,
		Run: func(p *Program, r *RuleResult) error {
			proc, err := p.SSAFunc("pkg/api/utils.(*ClosedSetsFinder).Process")
			if err != nil {
				return err
			}
			store, err := p.NamedType("pkg/ref.Store")
			if err != nil {
				return err
			}
			iface := store.Underlying().(*types.Interface)
			filt := map[*types.Func]bool{}
			for i := 0; i < iface.NumMethods(); i++ {
				if n := iface.Method(i).Name(); n == "Filter" || n == "FilterKey" {
					filt[iface.Method(i)] = true
				}
			}
			reach := map[*ssa.Function]bool{}
			for f := range p.Reachable(p.CG, proc) {
				if p.IsProd(f) {
					reach[f] = true
				}
			}
			r.Analysed = len(reach)
			for _, fn := range sortedFuncs(reach) {
				eachCall(fn, func(c ssa.CallInstruction) {
					cc := c.Common()
					if !cc.IsInvoke() || !filt[cc.Method] {
						return
					}
					what := "ref listing that seeds the want-reachability frontier must be unfiltered"
					if len(cc.Args) == 2 && isNilConst(cc.Args[0]) && isNilConst(cc.Args[1]) {
						r.ok(callKey(fn, c), p.Rel(c.Pos()), what)
					} else {
						r.bad(callKey(fn, c), p.Rel(c.Pos()), what, "a filtered ref listing is reachable from ClosedSetsFinder.Process: wants that are only reachable from the excluded refs would be refused (or accepted without being reachable)")
					}
				})
			}
			return nil
		},
	})
}

func init() {
	register(&Rule{
		ID: "C08-c", Template: "structural (no de-duplication inside one want's walk)",
		Doc: "Parents precede children in the send order because the breadth-first walk of a want pushes every commit it dequeues to the FRONT of the list, again each time it is reached by a longer path. In (*ClosedSetsFinder).enqueueWants no membership test whose 'found' outcome skips that push may consult a set that is filled inside the same walk loop (a per-walk visited set keeps only the first, shortest-path visit and breaks the order for merges whose sides differ in length).",
		Min: 1,
		Run: func(p *Program, r *RuleResult) error {
			fn, err := p.SSAFunc("pkg/api/utils.(*ClosedSetsFinder).enqueueWants")
			if err != nil {
				return err
			}
			r.Analysed = 1
			// the push of the commit
			var pushes []ssa.CallInstruction
			eachCall(fn, func(c ssa.CallInstruction) {
				if f := calleeFunc(c); f != nil && f.FullName() == "(*container/list.List).PushFront" {
					args := c.Common().Args
					if len(args) == 2 {
						if mi, ok := args[1].(*ssa.MakeInterface); ok {
							if pt, ok := mi.X.Type().(*types.Pointer); ok {
								if n, ok := pt.Elem().(*types.Named); ok && n.Obj().Name() == "Commit" {
									pushes = append(pushes, c)
								}
							}
						}
					}
				}
			})
			if len(pushes) == 0 {
				return &AnchorError{"commitList.PushFront(commit) in enqueueWants"}
			}
			for _, push := range pushes {
				header := loopHeaderOf(push.Block())
				if header == nil {
					r.bad(callKey(fn, push), p.Rel(push.Pos()), "commit push is inside the walk loop", "cannot identify the walk loop")
					continue
				}
				body := loopBody(header)
				exits := loopExitEdges(header)
				// maps updated inside the walk loop
				updated := map[ssa.Value]bool{}
				for b := range body {
					for _, in := range b.Instrs {
						if mu, ok := in.(*ssa.MapUpdate); ok {
							updated[mu.Map] = true
						}
					}
				}
				n := 0
				bad := false
				for b := range body {
					for _, in := range b.Instrs {
						lk, ok := in.(*ssa.Lookup)
						if !ok || !lk.CommaOk {
							continue
						}
						n++
						isUpdated := false
						for m := range updated {
							if sameObject(m, lk.X) {
								isUpdated = true
							}
						}
						if !isUpdated {
							continue
						}
						// does the found edge skip the push?
						var okv []ssa.Value
						for _, ref := range *lk.Referrers() {
							if ex, ok := ref.(*ssa.Extract); ok && ex.Index == 1 {
								okv = append(okv, ex)
							}
						}
						notFound := boolEdges(fn, forward(okv, fwdOpts{noBinOp: true}), false)
						cut := mkCut(notFound)
						for e := range exits {
							cut[e] = true
						}
						if len(header.Instrs) == 0 {
							continue
						}
						if _, reach := reachAfter(fn, lk, header.Instrs[0], cut, map[ssa.Instruction]bool{push: true}); reach {
							r.bad(callKey(fn, push)+"|walk-dedup", p.Rel(lk.Pos()), "no per-walk visited set skips the front push", "a set filled inside the walk loop decides whether a dequeued commit is pushed: only its first (shortest-path) visit is kept, so a parent can end up after its child")
							bad = true
						}
					}
				}
				if !bad {
					r.okWhy(callKey(fn, push)+"|walk-dedup", p.Rel(push.Pos()), "no per-walk visited set skips the front push", fmt.Sprintf("%d membership tests in the walk loop, none on a set filled inside it", n))
				}
			}
			return nil
		},
	})
}

// worklistLoops: loops of fn that pop from and push to the same container/list.List.
type worklist struct {
	header *ssa.BasicBlock
	pushes []ssa.CallInstruction
}

func worklistLoops(fn *ssa.Function) []worklist {
	var pops, pushes []ssa.CallInstruction
	eachCall(fn, func(c ssa.CallInstruction) {
		f := calleeFunc(c)
		if f == nil {
			return
		}
		switch f.FullName() {
		case "(*container/list.List).Remove":
			pops = append(pops, c)
		case "(*container/list.List).PushBack":
			pushes = append(pushes, c)
		}
	})
	byHeader := map[*ssa.BasicBlock]*worklist{}
	for _, pop := range pops {
		h := loopHeaderOf(pop.Block())
		if h == nil {
			continue
		}
		body := loopBody(h)
		for _, push := range pushes {
			if body[push.Block()] && sameObject(push.Common().Args[0], pop.Common().Args[0]) {
				w := byHeader[h]
				if w == nil {
					w = &worklist{header: h}
					byHeader[h] = w
				}
				w.pushes = append(w.pushes, push)
			}
		}
	}
	// slice-based FIFO: q := [...]; for len(q) > 0 { x := q[0]; q = q[1:]; …; q = append(q, succ...) }
	for _, h := range fn.Blocks {
		if !isLoopHeader(h) {
			continue
		}
		body := loopBody(h)
		for _, in := range h.Instrs {
			ph, ok := in.(*ssa.Phi)
			if !ok {
				break
			}
			if _, isSlice := ph.Type().Underlying().(*types.Slice); !isSlice {
				continue
			}
			D := forward([]ssa.Value{ph}, fwdOpts{noBinOp: true})
			popped := false
			var pushes []ssa.CallInstruction
			for b := range body {
				for _, i2 := range b.Instrs {
					switch x := i2.(type) {
					case *ssa.Slice:
						if (x.X == ssa.Value(ph) || D[x.X]) && x.Low != nil && x.High == nil {
							if k, ok := constInt(x.Low); ok && k == 1 {
								popped = true
							}
						}
					case *ssa.Call:
						if bi, ok := x.Call.Value.(*ssa.Builtin); ok && bi.Name() == "append" && len(x.Call.Args) > 0 {
							if x.Call.Args[0] == ssa.Value(ph) || D[x.Call.Args[0]] {
								pushes = append(pushes, x)
							}
						}
					}
				}
			}
			if popped && len(pushes) > 0 {
				w := byHeader[h]
				if w == nil {
					w = &worklist{header: h}
					byHeader[h] = w
				}
				w.pushes = append(w.pushes, pushes...)
			}
		}
	}
	var out []worklist
	for _, w := range byHeader {
		out = append(out, *w)
	}
	sort.Slice(out, func(i, j int) bool { return out[i].header.Index < out[j].header.Index })
	return out
}

func init() {
	register(&Rule{
		ID: "C08-d", Template: "worklist discipline (test-and-mark before expansion)",
		Doc: "Negotiation terminates in time polynomial in the history size only if a graph walk expands each commit once: in pkg/api/utils every worklist loop (pop from and push to the same list) pushes a node's successors only behind the not-found edge of a membership test on a set that is marked, with the same key, before the push in the same iteration. Testing one key and marking another (or not marking inside the walk at all) re-expands a commit once per path — exponential on stacked fork/merge histories.",
		Min: 2,
		Run: func(p *Program, r *RuleResult) error {
			if _, err := p.Func("pkg/api/utils.(*ClosedSetsFinder).Process"); err != nil {
				return err
			}
			fns := p.FuncsInPkg("pkg/api/utils")
			r.Analysed = len(fns)
			for _, fn := range fns {
				for wi, w := range worklistLoops(fn) {
					body := loopBody(w.header)
					exits := loopExitEdges(w.header)
					type pair struct {
						lk *ssa.Lookup
						mu *ssa.MapUpdate
					}
					var pairs []pair
					for b := range body {
						for _, in := range b.Instrs {
							lk, ok := in.(*ssa.Lookup)
							if !ok || !lk.CommaOk {
								continue
							}
							for b2 := range body {
								for _, in2 := range b2.Instrs {
									mu, ok := in2.(*ssa.MapUpdate)
									if ok && sameObject(mu.Map, lk.X) && sameElem(mu.Key, lk.Index) {
										pairs = append(pairs, pair{lk, mu})
									}
								}
							}
						}
					}
					for pi, push := range w.pushes {
						key := fmt.Sprintf("%s|worklist#%d|push#%d", funcName(fn), wi, pi)
						what := "successors are queued only after the node was tested and marked as visited (same key)"
						ok := false
						for _, pr := range pairs {
							var okv []ssa.Value
							for _, ref := range *pr.lk.Referrers() {
								if ex, isEx := ref.(*ssa.Extract); isEx && ex.Index == 1 {
									okv = append(okv, ex)
								}
							}
							cut := mkCut(boolEdges(fn, forward(okv, fwdOpts{noBinOp: true}), false))
							for e := range exits {
								cut[e] = true
							}
							if len(w.header.Instrs) == 0 {
								continue
							}
							// (1) the push lies behind the not-found edge
							if _, reach := reachAfter(fn, w.header.Instrs[0], push, cut, nil); reach {
								continue
							}
							// (2) the mark happens before the push in the iteration
							if _, reach := reachAfter(fn, w.header.Instrs[0], push, exits, map[ssa.Instruction]bool{pr.mu: true}); reach {
								continue
							}
							ok = true
						}
						if ok {
							r.ok(key, p.Rel(push.Pos()), what)
						} else {
							r.bad(key, p.Rel(push.Pos()), what, "no test-and-mark of the expanded node guards this push: the walk expands a commit once per path that reaches it")
						}
					}
				}
			}
			return nil
		},
	})
}
