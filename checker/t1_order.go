package main

// T1 must-traverse and T2 never-follows: ordering rules over the SSA CFG.

import (
	"fmt"
	"go/types"
	"sort"
	"strings"

	"golang.org/x/tools/go/ssa"
)

const wrapperDepth = 3

// succSummary memoises "every success return of W happens after a successful call
// of one of set".
type succSummary struct {
	p    *Program
	set  map[*types.Func]bool
	memo map[*ssa.Function]int // 0 unknown, 1 yes, 2 no, 3 in progress
}

func newSuccSummary(p *Program, set map[*types.Func]bool) *succSummary {
	return &succSummary{p: p, set: set, memo: map[*ssa.Function]int{}}
}

// matches: c is a call whose success implies that an event of the set succeeded.
func (s *succSummary) matches(c ssa.CallInstruction, depth int) bool {
	if f := calleeFunc(c); f != nil && s.set[f] {
		return true
	}
	if depth <= 0 {
		return false
	}
	callee := c.Common().StaticCallee()
	if callee == nil || !isRepoPkgPath(fnPkgPath(callee)) || len(callee.Blocks) == 0 {
		return false
	}
	return s.wrapper(callee, depth-1)
}

func (s *succSummary) wrapper(w *ssa.Function, depth int) bool {
	switch s.memo[w] {
	case 1:
		return true
	case 2, 3:
		return false
	}
	s.memo[w] = 3
	ok := s.computeWrapper(w, depth)
	if ok {
		s.memo[w] = 1
	} else {
		s.memo[w] = 2
	}
	return ok
}

func (s *succSummary) computeWrapper(w *ssa.Function, depth int) bool {
	ei := errorResultIndex(w.Signature)
	var pres []*ssa.Call
	eachCall(w, func(c ssa.CallInstruction) {
		if call, ok := c.(*ssa.Call); ok && s.matches(call, depth) {
			pres = append(pres, call)
		}
	})
	if len(pres) == 0 {
		return false
	}
	rets := returnsOf(w)
	if len(rets) == 0 {
		return false
	}
	for _, ret := range rets {
		if ei >= 0 && ei < len(ret.Results) && (definitelyNonNilError(retVal(ret, ei)) || nonNilByGuard(w, ret, retVal(ret, ei))) {
			continue
		}
		ok := false
		for _, a := range pres {
			if orderedAfterSuccess(w, a, ret, ei) {
				ok = true
				break
			}
		}
		if !ok {
			return false
		}
	}
	return true
}

// nonNilByGuard: the return is reachable only through the non-nil edge of a nil
// test of the very value it returns (if err != nil { return err }).
func nonNilByGuard(fn *ssa.Function, ret *ssa.Return, v ssa.Value) bool {
	vals := map[ssa.Value]bool{v: true}
	var cut []edge
	for _, b := range fn.Blocks {
		if len(b.Instrs) == 0 {
			continue
		}
		if ifi, ok := b.Instrs[len(b.Instrs)-1].(*ssa.If); ok {
			if s, ok := nilTestEdge(ifi, vals); ok {
				cut = append(cut, edge{b, 1 - s})
			}
		}
	}
	if len(cut) == 0 {
		return false
	}
	_, reach := reachAfter(fn, nil, ret, mkCut(cut), nil)
	return !reach
}

// orderedAfterSuccess: every path from entry to `to` executes call a, and after a
// the path takes a success edge of a (or `to` is a Return that returns a's error
// itself, so that the caller's success test implies a's success).
func orderedAfterSuccess(fn *ssa.Function, a *ssa.Call, to ssa.Instruction, errIdx int) bool {
	if _, r := reachAfter(fn, nil, to, nil, map[ssa.Instruction]bool{a: true}); r {
		return false
	}
	se := successEdges(fn, a)
	if _, r := reachAfter(fn, a, to, mkCut(se), nil); !r {
		return true
	}
	if ret, ok := to.(*ssa.Return); ok && errIdx >= 0 && errIdx < len(ret.Results) {
		if vals := errValuesOfCall(a); vals != nil && vals[retVal(ret, errIdx)] {
			// the return passes a's error on; paths on which an unrelated nil is
			// returned after a failed would need the φ to have a nil-const edge
			if ph, ok := retVal(ret, errIdx).(*ssa.Phi); ok {
				for _, e := range ph.Edges {
					if isNilConst(e) {
						return false
					}
				}
			}
			return true
		}
	}
	return false
}

// guardedSink checks that the sink call c in fn happens only after a successful
// pre event; if fn contains no pre event, the obligation moves to every caller of
// fn (fn is then a wrapper of the sink), up to wrapperDepth.
type guardCheck struct {
	p       *Program
	pre     *succSummary
	scope   map[*ssa.Function]bool // functions in which obligations are placed (nil: all production)
	argPair func(pre, sink ssa.CallInstruction) bool
}

func (g *guardCheck) check(fn *ssa.Function, sink ssa.Instruction, depth int) (bool, string) {
	var pres []*ssa.Call
	eachCall(fn, func(c ssa.CallInstruction) {
		if call, ok := c.(*ssa.Call); ok && ssa.Instruction(call) != sink && g.pre.matches(call, wrapperDepth) {
			pres = append(pres, call)
		}
	})
	var why []string
	for _, a := range pres {
		if sc, isCall := sink.(ssa.CallInstruction); isCall && g.argPair != nil && !g.argPair(a, sc) {
			why = append(why, fmt.Sprintf("guard at %s is applied to a different value", g.p.Rel(a.Pos())))
			continue
		}
		if path, r := reachAfter(fn, nil, sink, nil, map[ssa.Instruction]bool{a: true}); r {
			why = append(why, fmt.Sprintf("path entry→sink avoiding the guard at %s: blocks %v", g.p.Rel(a.Pos()), path))
			continue
		}
		if path, r := reachAfter(fn, a, sink, mkCut(successEdges(fn, a)), nil); r {
			why = append(why, fmt.Sprintf("path guard(%s)→sink that takes no success edge of the guard's error test: blocks %v", g.p.Rel(a.Pos()), path))
			continue
		}
		return true, ""
	}
	if len(pres) == 0 && depth > 0 {
		// move the obligation to the callers
		callers := g.callSitesOf(fn)
		if len(callers) == 0 {
			return false, "no guard in " + funcName(fn) + " and it has no caller in the analysed program"
		}
		for _, cs := range callers {
			ok, w := g.check(cs.fn, cs.site, depth-1)
			if !ok {
				return false, "via caller " + funcName(cs.fn) + ": " + w
			}
		}
		return true, ""
	}
	if len(pres) == 0 {
		return false, "no guarding call on any path in " + funcName(fn)
	}
	return false, strings.Join(why, "; ")
}

type callSite struct {
	fn   *ssa.Function
	site ssa.CallInstruction
}

func (g *guardCheck) callSitesOf(fn *ssa.Function) []callSite {
	n := g.p.CG.Nodes[fn]
	if n == nil {
		return nil
	}
	var out []callSite
	for _, e := range n.In {
		if e.Site == nil || !g.p.IsProd(e.Caller.Func) {
			continue
		}
		out = append(out, callSite{e.Caller.Func, e.Site})
	}
	sort.Slice(out, func(i, j int) bool { return out[i].site.Pos() < out[j].site.Pos() })
	return out
}

// callsTo lists the call instructions in fn whose callee is in set.
func callsTo(fn *ssa.Function, set map[*types.Func]bool) []ssa.CallInstruction {
	var out []ssa.CallInstruction
	eachCall(fn, func(c ssa.CallInstruction) {
		if f := calleeFunc(c); f != nil && set[f] {
			out = append(out, c)
		}
	})
	return out
}

// neverFollows (T2): no CFG path from a call in A to a call in B within fn.
func neverFollows(p *Program, fn *ssa.Function, as, bs []ssa.CallInstruction) (bool, string) {
	for _, a := range as {
		for _, b := range bs {
			if a == b {
				continue
			}
			if path, r := reachAfter(fn, a, b, nil, nil); r {
				return false, fmt.Sprintf("path from %s to %s (blocks %v)", p.Rel(a.Pos()), p.Rel(b.Pos()), path)
			}
		}
	}
	return true, ""
}

func sortedFuncs(m map[*ssa.Function]bool) []*ssa.Function {
	var out []*ssa.Function
	for f := range m {
		out = append(out, f)
	}
	sort.Slice(out, func(i, j int) bool {
		if out[i].String() != out[j].String() {
			return out[i].String() < out[j].String()
		}
		return out[i].Pos() < out[j].Pos()
	})
	return out
}
