package main

// Loading of /repo's current working tree into a type-checked whole program,
// SSA form and a VTA call graph, plus lookup helpers that bind rule anchors to
// objects of the type-checked program (never to text).

import (
	"fmt"
	"go/ast"
	"go/token"
	"go/types"
	"os"
	"path/filepath"
	"sort"
	"strings"
	"time"

	"golang.org/x/tools/go/callgraph"
	"golang.org/x/tools/go/callgraph/cha"
	"golang.org/x/tools/go/callgraph/vta"
	"golang.org/x/tools/go/packages"
	"golang.org/x/tools/go/ssa"
	"golang.org/x/tools/go/ssa/ssautil"
)

const modPath = "github.com/wrgl/wrgl"

// Packages that exist only to support tests; they are outside the analysed
// production program (DESIGN.md §2, T3).
var helperPkgSuffixes = []string{"/mock", "/helpers", "/testutils", "/test", "/factory"}

type Program struct {
	RepoDir  string
	Fset     *token.FileSet
	Pkgs     []*packages.Package          // repo packages (roots)
	ByPath   map[string]*packages.Package // all packages in closure
	SSA      *ssa.Program
	SSAPkgs  map[string]*ssa.Package
	CG       *callgraph.Graph // VTA
	CHA      *callgraph.Graph
	AllFuncs map[*ssa.Function]bool
	// repo functions (incl. anonymous), in deterministic order
	RepoFuncs []*ssa.Function
	GOOS      string
	LoadSecs  float64
	NTotal    int
	Overlay   map[string][]byte

	closureParent map[*ssa.Function]*ssa.Function
}

func isHelperPkg(path string) bool {
	for _, s := range helperPkgSuffixes {
		if strings.HasSuffix(path, s) || strings.Contains(path, s+"/") {
			return true
		}
	}
	return false
}

func isRepoPkgPath(path string) bool {
	return path == modPath || strings.HasPrefix(path, modPath+"/")
}

type LoadOpts struct {
	RepoDir string
	GOOS    string
	Overlay map[string][]byte
	NeedCHA bool
}

func Load(o LoadOpts) (*Program, error) {
	t0 := time.Now()
	env := append(os.Environ(), "GOFLAGS=-mod=mod", "GOPROXY=off", "GOSUMDB=off", "GOTOOLCHAIN=local", "GOWORK=off", "CGO_ENABLED=1")
	if o.GOOS != "" {
		env = append(env, "GOOS="+o.GOOS, "CGO_ENABLED=0")
	}
	cfg := &packages.Config{
		Mode:    packages.LoadAllSyntax,
		Dir:     o.RepoDir,
		Env:     env,
		Tests:   false,
		Overlay: o.Overlay,
	}
	pkgs, err := packages.Load(cfg, "./...")
	if err != nil {
		return nil, fmt.Errorf("packages.Load: %w", err)
	}
	if len(pkgs) == 0 {
		return nil, fmt.Errorf("no packages loaded from %s", o.RepoDir)
	}
	p := &Program{RepoDir: o.RepoDir, ByPath: map[string]*packages.Package{}, GOOS: o.GOOS, Overlay: o.Overlay}
	var typeErrs []string
	packages.Visit(pkgs, nil, func(pk *packages.Package) {
		p.ByPath[pk.PkgPath] = pk
		p.NTotal++
		if isRepoPkgPath(pk.PkgPath) {
			for _, e := range pk.Errors {
				typeErrs = append(typeErrs, e.Error())
			}
		}
	})
	if len(typeErrs) > 0 {
		sort.Strings(typeErrs)
		if len(typeErrs) > 10 {
			typeErrs = typeErrs[:10]
		}
		return nil, fmt.Errorf("repo packages have errors:\n  %s", strings.Join(typeErrs, "\n  "))
	}
	for _, pk := range pkgs {
		if isRepoPkgPath(pk.PkgPath) {
			p.Pkgs = append(p.Pkgs, pk)
		}
	}
	sort.Slice(p.Pkgs, func(i, j int) bool { return p.Pkgs[i].PkgPath < p.Pkgs[j].PkgPath })
	if len(p.Pkgs) == 0 {
		return nil, fmt.Errorf("no repo packages among %d loaded", len(pkgs))
	}
	p.Fset = pkgs[0].Fset

	prog, _ := ssautil.AllPackages(pkgs, ssa.InstantiateGenerics)
	prog.Build()
	p.SSA = prog
	p.SSAPkgs = map[string]*ssa.Package{}
	for _, sp := range prog.AllPackages() {
		p.SSAPkgs[sp.Pkg.Path()] = sp
	}
	p.AllFuncs = ssautil.AllFunctions(prog)
	p.CHA = cha.CallGraph(prog)
	p.CG = vta.CallGraph(p.AllFuncs, p.CHA)
	p.closureParent = map[*ssa.Function]*ssa.Function{}
	for fn := range p.AllFuncs {
		if fn.Pkg == nil && fn.Origin() == nil && fn.Parent() == nil {
			continue
		}
		pk := fnPkgPath(fn)
		if !isRepoPkgPath(pk) {
			continue
		}
		if fn.Synthetic != "" && fn.Parent() == nil && !strings.HasPrefix(fn.Synthetic, "instance of") {
			// wrappers, bound-method thunks: keep out of the analysed set, they have no source
			continue
		}
		if len(fn.Blocks) == 0 {
			continue
		}
		p.RepoFuncs = append(p.RepoFuncs, fn)
	}
	sort.Slice(p.RepoFuncs, func(i, j int) bool {
		a, b := p.RepoFuncs[i], p.RepoFuncs[j]
		if a.String() != b.String() {
			return a.String() < b.String()
		}
		return a.Pos() < b.Pos()
	})
	p.LoadSecs = time.Since(t0).Seconds()
	return p, nil
}

func fnPkgPath(fn *ssa.Function) string {
	for f := fn; f != nil; f = f.Parent() {
		if f.Pkg != nil {
			return f.Pkg.Pkg.Path()
		}
		if o := f.Origin(); o != nil && o.Pkg != nil {
			return o.Pkg.Pkg.Path()
		}
		if f.Object() != nil && f.Object().Pkg() != nil {
			return f.Object().Pkg().Path()
		}
	}
	return ""
}

// production == repo && not helper package
func (p *Program) IsProd(fn *ssa.Function) bool {
	pk := fnPkgPath(fn)
	return isRepoPkgPath(pk) && !isHelperPkg(pk)
}

func (p *Program) ProdFuncs() []*ssa.Function {
	var out []*ssa.Function
	for _, f := range p.RepoFuncs {
		if p.IsProd(f) {
			out = append(out, f)
		}
	}
	return out
}

// FuncsInPkg returns production functions (incl. closures) of the given repo-relative package ("pkg/prune").
func (p *Program) FuncsInPkg(rel ...string) []*ssa.Function {
	want := map[string]bool{}
	for _, r := range rel {
		want[modPath+"/"+r] = true
	}
	var out []*ssa.Function
	for _, f := range p.RepoFuncs {
		if want[fnPkgPath(f)] {
			out = append(out, f)
		}
	}
	return out
}

func (p *Program) Rel(pos token.Pos) string {
	if !pos.IsValid() {
		return "?"
	}
	ps := p.Fset.Position(pos)
	rel, err := filepath.Rel(p.RepoDir, ps.Filename)
	if err != nil {
		rel = ps.Filename
	}
	return fmt.Sprintf("%s:%d", rel, ps.Line)
}

func (p *Program) RelFile(pos token.Pos) string {
	if !pos.IsValid() {
		return "?"
	}
	ps := p.Fset.Position(pos)
	rel, err := filepath.Rel(p.RepoDir, ps.Filename)
	if err != nil {
		rel = ps.Filename
	}
	return rel
}

// ---- anchors ----

type AnchorError struct{ What string }

func (e *AnchorError) Error() string { return "anchor does not resolve: " + e.What }

func (p *Program) TypesPkg(path string) (*types.Package, error) {
	if !strings.Contains(path, ".") || strings.HasPrefix(path, "pkg/") || strings.HasPrefix(path, "cmd/") {
		if strings.HasPrefix(path, "pkg/") || strings.HasPrefix(path, "cmd/") {
			path = modPath + "/" + path
		}
	}
	pk := p.ByPath[path]
	if pk == nil || pk.Types == nil {
		return nil, &AnchorError{"package " + path}
	}
	return pk.Types, nil
}

// Func resolves a package-level function "pkg/objects.SaveCommit" or a method
// "pkg/sorter.(*Sorter).AddRow" / "pkg/sorter.Sorter.AddRow" to its types.Func.
func (p *Program) Func(spec string) (*types.Func, error) {
	i := strings.LastIndex(spec, "/")
	j := strings.Index(spec[i+1:], ".")
	if j < 0 {
		return nil, &AnchorError{spec}
	}
	pkgPath, rest := spec[:i+1+j], spec[i+1+j+1:]
	tp, err := p.TypesPkg(pkgPath)
	if err != nil {
		return nil, err
	}
	rest = strings.TrimPrefix(rest, "(*")
	rest = strings.Replace(rest, ").", ".", 1)
	parts := strings.Split(rest, ".")
	switch len(parts) {
	case 1:
		if f, ok := tp.Scope().Lookup(parts[0]).(*types.Func); ok {
			return f, nil
		}
	case 2:
		if tn, ok := tp.Scope().Lookup(parts[0]).(*types.TypeName); ok {
			obj, _, _ := types.LookupFieldOrMethod(types.NewPointer(tn.Type()), true, tp, parts[1])
			if f, ok := obj.(*types.Func); ok {
				return f, nil
			}
			obj, _, _ = types.LookupFieldOrMethod(tn.Type(), true, tp, parts[1])
			if f, ok := obj.(*types.Func); ok {
				return f, nil
			}
		}
	}
	return nil, &AnchorError{spec}
}

func (p *Program) MustFuncs(specs ...string) (map[*types.Func]bool, error) {
	out := map[*types.Func]bool{}
	for _, s := range specs {
		f, err := p.Func(s)
		if err != nil {
			return nil, err
		}
		out[f] = true
	}
	return out, nil
}

func (p *Program) SSAFunc(spec string) (*ssa.Function, error) {
	f, err := p.Func(spec)
	if err != nil {
		return nil, err
	}
	fn := p.SSA.FuncValue(f)
	if fn == nil {
		return nil, &AnchorError{spec + " (no SSA body)"}
	}
	return fn, nil
}

func (p *Program) NamedType(spec string) (*types.Named, error) {
	i := strings.LastIndex(spec, ".")
	tp, err := p.TypesPkg(spec[:i])
	if err != nil {
		return nil, err
	}
	tn, ok := tp.Scope().Lookup(spec[i+1:]).(*types.TypeName)
	if !ok {
		return nil, &AnchorError{spec}
	}
	n, ok := tn.Type().(*types.Named)
	if !ok {
		return nil, &AnchorError{spec}
	}
	return n, nil
}

// Field resolves "pkg/objects.Commit.Time" to the *types.Var of the field.
func (p *Program) Field(spec string) (*types.Var, error) {
	i := strings.LastIndex(spec, ".")
	n, err := p.NamedType(spec[:i])
	if err != nil {
		return nil, err
	}
	st, ok := n.Underlying().(*types.Struct)
	if !ok {
		return nil, &AnchorError{spec}
	}
	for k := 0; k < st.NumFields(); k++ {
		if st.Field(k).Name() == spec[i+1:] {
			return st.Field(k), nil
		}
	}
	return nil, &AnchorError{spec}
}

// ---- call resolution ----

// calleeFunc returns the statically known callee (*types.Func) of a call
// instruction: a static function/method call or an interface-method invoke.
func calleeFunc(c ssa.CallInstruction) *types.Func {
	cc := c.Common()
	if cc.IsInvoke() {
		return cc.Method
	}
	if f := cc.StaticCallee(); f != nil {
		if o := f.Origin(); o != nil {
			f = o
		}
		if obj, ok := f.Object().(*types.Func); ok {
			return obj
		}
	}
	return nil
}

// isCallTo reports whether the call's resolved callee is one of set. Interface
// invokes match when the interface method itself is in the set, or when a
// concrete method in the set implements the invoked interface method by name and
// receiver assignability.
func isCallTo(c ssa.CallInstruction, set map[*types.Func]bool) *types.Func {
	f := calleeFunc(c)
	if f == nil {
		return nil
	}
	if set[f] {
		return f
	}
	return nil
}

// Callees returns the repo-defined functions a call instruction may invoke
// according to the VTA call graph (static callee first).
func (p *Program) Callees(fn *ssa.Function, c ssa.CallInstruction) []*ssa.Function {
	if sc := c.Common().StaticCallee(); sc != nil {
		return []*ssa.Function{sc}
	}
	n := p.CG.Nodes[fn]
	if n == nil {
		return nil
	}
	var out []*ssa.Function
	for _, e := range n.Out {
		if e.Site == c {
			out = append(out, e.Callee.Func)
		}
	}
	sort.Slice(out, func(i, j int) bool { return out[i].String() < out[j].String() })
	return out
}

// Reachable returns the set of functions reachable in the VTA call graph from the
// roots, following closures created by reachable functions as well.
func (p *Program) Reachable(g *callgraph.Graph, roots ...*ssa.Function) map[*ssa.Function]bool {
	seen := map[*ssa.Function]bool{}
	var stack []*ssa.Function
	push := func(f *ssa.Function) {
		if f != nil && !seen[f] {
			seen[f] = true
			stack = append(stack, f)
		}
	}
	for _, r := range roots {
		push(r)
	}
	for len(stack) > 0 {
		f := stack[len(stack)-1]
		stack = stack[:len(stack)-1]
		if n := g.Nodes[f]; n != nil {
			for _, e := range n.Out {
				push(e.Callee.Func)
			}
		}
		for _, af := range f.AnonFuncs {
			push(af)
		}
	}
	return seen
}

// funcName gives a stable printable name: pkg-relative path + function.
func funcName(fn *ssa.Function) string {
	s := fn.String()
	s = strings.ReplaceAll(s, modPath+"/", "")
	return s
}

func shortObj(f *types.Func) string {
	s := f.FullName()
	return strings.ReplaceAll(s, modPath+"/", "")
}

// eachCall iterates over every call-like instruction (call, go, defer) of fn.
func eachCall(fn *ssa.Function, f func(c ssa.CallInstruction)) {
	for _, b := range fn.Blocks {
		for _, in := range b.Instrs {
			if c, ok := in.(ssa.CallInstruction); ok {
				f(c)
			}
		}
	}
}

// callOrdinal: index of c among calls in fn to the same callee (source order by block index/instr order).
func callOrdinal(fn *ssa.Function, c ssa.CallInstruction) int {
	target := calleeFunc(c)
	type pc struct {
		pos token.Pos
		c   ssa.CallInstruction
	}
	var same []pc
	eachCall(fn, func(x ssa.CallInstruction) {
		if calleeFunc(x) == target && target != nil {
			same = append(same, pc{x.Pos(), x})
		}
	})
	sort.SliceStable(same, func(i, j int) bool { return same[i].pos < same[j].pos })
	for i, s := range same {
		if s.c == c {
			return i
		}
	}
	return 0
}

func callKey(fn *ssa.Function, c ssa.CallInstruction) string {
	cal := "?"
	if f := calleeFunc(c); f != nil {
		cal = shortObj(f)
	} else if b, ok := c.Common().Value.(*ssa.Builtin); ok {
		cal = b.Name()
	}
	return fmt.Sprintf("%s|%s#%d", funcName(fn), cal, callOrdinal(fn, c))
}

// enclosingFuncDecl finds the AST node of an ssa function (FuncDecl or FuncLit).
func (p *Program) funcSyntax(fn *ssa.Function) ast.Node { return fn.Syntax() }
