package main

import (
	"fmt"
	"go/token"
	"go/types"

	"golang.org/x/tools/go/ssa"
)

func init() {
	register(&Rule{
		ID: "C11-a", Template: "who-may-read (forward slice)",
		Doc: "Ancestry answers do not depend on commit timestamps: in pkg/ref a value loaded from objects.Commit.Time may influence control flow or a return value only inside (*CommitsQueue).Less and inside the sort.Search predicate of (*CommitsQueue).Insert, i.e. only the position of a commit in the frontier. A timestamp cut-off in IsAncestorOf / PopUntil / RemoveAncestors / InsertParents would answer wrongly for skewed clocks.",
		Min: 2,
		Run: func(p *Program, r *RuleResult) error {
			tf, err := p.Field("pkg/objects.Commit.Time")
			if err != nil {
				return err
			}
			if _, err := p.Func("pkg/ref.IsAncestorOf"); err != nil {
				return err
			}
			fns := p.FuncsInPkg("pkg/ref")
			r.Analysed = len(fns)
			for _, fn := range fns {
				var seeds []ssa.Value
				for _, b := range fn.Blocks {
					for _, in := range b.Instrs {
						switch x := in.(type) {
						case *ssa.FieldAddr:
							if structField(x.X.Type(), x.Field) == tf {
								seeds = append(seeds, x)
								for _, ref := range *x.Referrers() {
									if u, ok := ref.(*ssa.UnOp); ok && u.Op == token.MUL {
										seeds = append(seeds, u)
									}
								}
							}
						case *ssa.Field:
							if structField(x.X.Type(), x.Field) == tf {
								seeds = append(seeds, x)
							}
						}
					}
				}
				if len(seeds) == 0 {
					continue
				}
				fw := forward(seeds, fwdOpts{throughCalls: true, throughField: true})
				// where does the time influence a decision?
				allowed, why := timeReaderAllowed(fn)
				n := 0
				for _, b := range fn.Blocks {
					for _, in := range b.Instrs {
						var uses string
						switch x := in.(type) {
						case *ssa.If:
							if fw[x.Cond] {
								uses = "branch condition"
							}
						case *ssa.Return:
							for _, res := range x.Results {
								if fw[res] {
									uses = "return value"
								}
							}
						}
						if uses == "" {
							continue
						}
						key := fmt.Sprintf("%s|Commit.Time→%s#%d", funcName(fn), uses, n)
						n++
						what := "Commit.Time influences only the ordering of the frontier"
						if allowed {
							r.okWhy(key, p.Rel(posOf(in, fn)), what, why)
						} else {
							r.bad(key, p.Rel(posOf(in, fn)), what, "a "+uses+" in "+funcName(fn)+" depends on a commit timestamp: the traversal's answer would change with clock skew")
						}
					}
				}
			}
			return nil
		},
	})

	register(&Rule{
		ID: "C11-b", Template: "T1 must-traverse (EOF edges)",
		Doc: "IsAncestorOf answers 'no' only when the frontier is exhausted: its `false, nil` return is reachable only through the io.EOF edge of the pop, and CommitsQueue.Pop returns io.EOF only on the Len()==0 edge.",
		Min: 2,
		Run: func(p *Program, r *RuleResult) error {
			isAnc, err := p.SSAFunc("pkg/ref.IsAncestorOf")
			if err != nil {
				return err
			}
			pop, err := p.SSAFunc("pkg/ref.(*CommitsQueue).Pop")
			if err != nil {
				return err
			}
			r.Analysed = 2
			// (1) IsAncestorOf — and the helpers of the package with a (bool, error) result it hands the
			// question to (depth 2; round 7, refactoring N2-r1) —: Return(false, nil) only via the io.EOF edge
			n := 0
			cands := []*ssa.Function{isAnc}
			seenC := map[*ssa.Function]bool{isAnc: true}
			for d, frontier := 0, []*ssa.Function{isAnc}; d < 2; d++ {
				var next []*ssa.Function
				for _, f := range frontier {
					eachCall(f, func(c ssa.CallInstruction) {
						g := c.Common().StaticCallee()
						if g == nil || seenC[g] || fnPkgPath(g) != fnPkgPath(isAnc) || len(g.Blocks) == 0 {
							return
						}
						res := g.Signature.Results()
						if res.Len() != 2 || !isBoolType(res.At(0).Type()) || !isErrorType(res.At(1).Type()) {
							return
						}
						seenC[g] = true
						cands = append(cands, g)
						next = append(next, g)
					})
				}
				frontier = next
			}
			r.Analysed = 1 + len(cands)
			for _, isAnc := range cands {
				var eofTests []ssa.Value
				eachCall(isAnc, func(c ssa.CallInstruction) {
					if f := calleeFunc(c); f != nil && f.FullName() == "errors.Is" && len(c.Common().Args) == 2 && isGlobalNamed(c.Common().Args[1], "io", "EOF") {
						if v, ok := c.(*ssa.Call); ok {
							eofTests = append(eofTests, v)
						}
					}
				})
				// err == io.EOF form
				for _, b := range isAnc.Blocks {
					for _, in := range b.Instrs {
						if bo, ok := in.(*ssa.BinOp); ok && bo.Op == token.EQL && (isGlobalNamed(bo.X, "io", "EOF") || isGlobalNamed(bo.Y, "io", "EOF")) {
							eofTests = append(eofTests, bo)
						}
					}
				}
				cut := mkCut(boolEdges(isAnc, forward(eofTests, fwdOpts{noBinOp: true}), true))
				for _, ret := range returnsOf(isAnc) {
					if len(ret.Results) != 2 {
						continue
					}
					v0, v1 := retVal(ret, 0), retVal(ret, 1)
					c0, isC := v0.(*ssa.Const)
					if !isC || c0.Value == nil || c0.Value.String() != "false" || !isNilConst(v1) {
						continue
					}
					key := fmt.Sprintf("%s|return(false,nil)#%d", funcName(isAnc), n)
					n++
					what := "'not an ancestor' is answered only when the frontier is exhausted"
					if path, reach := reachAfter(isAnc, nil, ret, cut, nil); reach {
						r.bad(key, p.Rel(ret.Pos()), what, fmtPath("the negative answer is reachable without the io.EOF edge", path))
					} else {
						r.ok(key, p.Rel(ret.Pos()), what)
					}
				}
			}
			// (2) Pop: returning io.EOF only when Len()==0
			var lenVals []ssa.Value
			eachCall(pop, func(c ssa.CallInstruction) {
				if f := calleeFunc(c); f != nil && f.Name() == "Len" {
					if v, ok := c.(*ssa.Call); ok {
						lenVals = append(lenVals, v)
					}
				}
				if v, ok := c.(*ssa.Call); ok {
					if bi, ok := v.Call.Value.(*ssa.Builtin); ok && bi.Name() == "len" {
						lenVals = append(lenVals, v)
					}
				}
			})
			lenSet := map[ssa.Value]bool{}
			for _, v := range lenVals {
				lenSet[v] = true
			}
			var emptyEdges []edge
			for _, b := range pop.Blocks {
				if len(b.Instrs) == 0 {
					continue
				}
				if ifi, ok := b.Instrs[len(b.Instrs)-1].(*ssa.If); ok {
					if bo, ok := ifi.Cond.(*ssa.BinOp); ok && (lenSet[bo.X] || lenSet[bo.Y]) {
						k, okk := constInt(bo.Y)
						if !okk {
							k, okk = constInt(bo.X)
						}
						if okk && k == 0 {
							switch bo.Op {
							case token.EQL, token.LEQ:
								emptyEdges = append(emptyEdges, edge{b, 0})
							case token.NEQ, token.GTR:
								emptyEdges = append(emptyEdges, edge{b, 1})
							}
						}
					}
				}
			}
			m := 0
			for _, ret := range returnsOf(pop) {
				ei := errorResultIndex(pop.Signature)
				v := retVal(ret, ei)
				if v == nil || !isGlobalNamed(v, "io", "EOF") {
					continue
				}
				key := fmt.Sprintf("%s|return(io.EOF)#%d", funcName(pop), m)
				m++
				what := "the frontier reports exhaustion only when it is empty"
				if path, reach := reachAfter(pop, nil, ret, mkCut(emptyEdges), nil); reach {
					r.bad(key, p.Rel(ret.Pos()), what, fmtPath("io.EOF returned on a path that did not find Len()==0", path))
				} else {
					r.ok(key, p.Rel(ret.Pos()), what)
				}
			}
			return nil
		},
	})

	register(&Rule{
		ID: "C11-c", Template: "loop completeness",
		Doc: "Every parent is offered to the frontier: in (*CommitsQueue).InsertParents the loop over Commit.Parents has no exit other than the loop end and the error return (no break / early success return), and each iteration calls Insert on the loop element.",
		Min: 1,
		Run: func(p *Program, r *RuleResult) error {
			fn, err := p.SSAFunc("pkg/ref.(*CommitsQueue).InsertParents")
			if err != nil {
				return err
			}
			parents, err := p.Field("pkg/objects.Commit.Parents")
			if err != nil {
				return err
			}
			ins, err := p.MustFuncs("pkg/ref.(*CommitsQueue).Insert")
			if err != nil {
				return err
			}
			r.Analysed = 1
			key := funcName(fn) + "|parents-loop"
			what := "every parent of a popped commit is inserted into the frontier"
			var calls []*ssa.Call
			for _, c := range callsTo(fn, ins) {
				if v, ok := c.(*ssa.Call); ok && len(v.Call.Args) >= 2 && derivedFromField(v.Call.Args[1], parents) && inLoop(v.Block()) {
					calls = append(calls, v)
				}
			}
			if len(calls) == 0 {
				r.bad(key, p.Rel(fn.Pos()), what, "no Insert call on an element of Commit.Parents inside a loop")
				return nil
			}
			for _, c := range calls {
				// from the success edge of Insert the loop must continue: no Return reachable
				// inside the loop body other than through the failure edge
				se := successEdges(fn, c)
				fail := successEdgesFail(fn, c)
				if len(se) == 0 {
					r.bad(key, p.Rel(c.Pos()), what, "the error of Insert is not tested")
					return nil
				}
				header := loopHeaderOf(c.Block())
				if header == nil {
					r.bad(key, p.Rel(c.Pos()), what, "cannot identify the loop")
					return nil
				}
				exits := loopExitEdges(header)
				// an exit edge taken from inside the body after a successful Insert, other than the header's own exit
				bad := false
				for e := range exits {
					if e.from == header {
						continue // normal loop end
					}
					// is e.from reachable from the call along success edges only?
					if len(e.from.Instrs) == 0 {
						continue
					}
					if _, reach := reachAfter(fn, c, e.from.Instrs[len(e.from.Instrs)-1], mkCut(fail), nil); reach {
						if e.from == c.Block() || true {
							// leaving the loop on the success path
							tgt := e.from.Succs[e.succ]
							if !leadsToErrorReturn(fn, tgt) {
								bad = true
							}
						}
					}
				}
				if bad {
					r.bad(key, p.Rel(c.Pos()), what, "the loop over Parents can be left on the success path before all parents were inserted")
				} else {
					r.ok(key, p.Rel(c.Pos()), what)
				}
			}
			return nil
		},
	})
}

func init() {
	register(&Rule{
		ID: "C11-d", Template: "T2 never-follows (test-and-set in one critical section)",
		Doc: "A history walk visits every ancestor once also when a CommitsQueue is shared: in (*CommitsQueue).Insert the membership test on the seen set and the store that marks the commit as seen happen in one critical section — the queue's mutex is not released between them.",
		Min: 1,
		Run: func(p *Program, r *RuleResult) error {
			fn, err := p.SSAFunc("pkg/ref.(*CommitsQueue).Insert")
			if err != nil {
				return err
			}
			seen, err := p.Field("pkg/ref.CommitsQueue.seen")
			if err != nil {
				return err
			}
			seenFn, err := p.MustFuncs("pkg/ref.(*CommitsQueue).Seen")
			if err != nil {
				return err
			}
			r.Analysed = 1
			var tests, marks, unlocks []ssa.Instruction
			for _, b := range fn.Blocks {
				for _, in := range b.Instrs {
					switch x := in.(type) {
					case *ssa.Call:
						if f := calleeFunc(x); f != nil && seenFn[f] {
							tests = append(tests, x)
						}
						if _, u := isLockCall(x); u {
							unlocks = append(unlocks, x)
						}
					case *ssa.Lookup:
						if derivedFromField(x.X, seen) {
							tests = append(tests, x)
						}
					case *ssa.MapUpdate:
						if derivedFromField(x.Map, seen) {
							marks = append(marks, x)
						}
					}
				}
			}
			key := funcName(fn) + "|seen-test-and-set"
			what := "seen-set test and mark are one critical section"
			if len(tests) == 0 || len(marks) == 0 {
				r.bad(key, p.Rel(fn.Pos()), what, "Insert does not test and mark the seen set")
				return nil
			}
			for _, t := range tests {
				for _, u := range unlocks {
					if _, r1 := reachAfter(fn, t, u, nil, nil); !r1 {
						continue
					}
					for _, m := range marks {
						if _, r2 := reachAfter(fn, u, m, nil, nil); r2 {
							r.bad(key, p.Rel(u.Pos()), what, "the mutex is released between the seen-set test and the mark: two walkers sharing the queue can both insert the same commit")
							return nil
						}
					}
				}
			}
			r.ok(key, p.Rel(fn.Pos()), what)
			return nil
		},
	})
}

func isGlobalNamed(v ssa.Value, pkg, name string) bool {
	v = stripConv(v)
	if u, ok := v.(*ssa.UnOp); ok && u.Op == token.MUL {
		if g, ok := u.X.(*ssa.Global); ok {
			return g.Pkg != nil && g.Pkg.Pkg.Path() == pkg && g.Name() == name
		}
	}
	return false
}

// timeReaderAllowed: Less method of CommitsQueue, or a closure passed to sort.Search inside Insert.
func timeReaderAllowed(fn *ssa.Function) (bool, string) {
	if fn.Parent() == nil && fn.Name() == "Less" && fn.Signature.Recv() != nil {
		if n, ok := derefType(fn.Signature.Recv().Type()).(*types.Named); ok && n.Obj().Name() == "CommitsQueue" {
			return true, "CommitsQueue.Less: ordering of the frontier"
		}
	}
	if par := fn.Parent(); par != nil && par.Name() == "Insert" {
		// is this closure passed to sort.Search?
		for _, b := range par.Blocks {
			for _, in := range b.Instrs {
				c, ok := in.(*ssa.Call)
				if !ok {
					continue
				}
				f := calleeFunc(c)
				if f == nil || f.Pkg() == nil || f.Pkg().Path() != "sort" || f.Name() != "Search" {
					continue
				}
				for _, a := range c.Call.Args {
					if mc, ok := a.(*ssa.MakeClosure); ok && mc.Fn == fn {
						return true, "sort.Search predicate of CommitsQueue.Insert: position in the frontier"
					}
				}
			}
		}
	}
	return false, ""
}

func loopHeaderOf(b *ssa.BasicBlock) *ssa.BasicBlock {
	// innermost natural loop whose body contains b (a loop that merely precedes b
	// also has a dominating header, but b is not part of it)
	return enclosingLoop(b)
}

func posOf(in ssa.Instruction, fn *ssa.Function) token.Pos {
	if in.Pos().IsValid() {
		return in.Pos()
	}
	if ifi, ok := in.(*ssa.If); ok && ifi.Cond.Pos().IsValid() {
		return ifi.Cond.Pos()
	}
	return fn.Pos()
}

func init() {
	register(&Rule{
		ID: "C11-e", Template: "no loop-carried state in a per-round test",
		Doc: "A merge base is reported missing only when every frontier was exhausted in the same round: in ref.SeekCommonAncestor the counter compared with the number of frontiers before the 'not found' return is accumulated within one round — it is not carried over by the loop that contains the test (a count that accumulates across rounds reports 'not found' for a short history merged with a long one).",
		Min: 1,
		Run: func(p *Program, r *RuleResult) error {
			fn, err := p.SSAFunc("pkg/ref.SeekCommonAncestor")
			if err != nil {
				return err
			}
			r.Analysed = 1
			ei := errorResultIndex(fn.Signature)
			n := 0
			for _, ret := range returnsOf(fn) {
				v := retVal(ret, ei)
				if v == nil || !definitelyNonNilError(v) {
					continue
				}
				// the controlling test: the If whose edge leads straight to this return
				for _, b := range fn.Blocks {
					if len(b.Instrs) == 0 {
						continue
					}
					ifi, ok := b.Instrs[len(b.Instrs)-1].(*ssa.If)
					if !ok {
						continue
					}
					leads := false
					for _, s := range b.Succs {
						if s == ret.Block() {
							leads = true
						}
					}
					if !leads {
						continue
					}
					bo, ok := ifi.Cond.(*ssa.BinOp)
					if !ok || bo.Op != token.EQL {
						continue
					}
					_, xLen := lenOperand(bo.X)
					_, yLen := lenOperand(bo.Y)
					var counter ssa.Value
					if xLen {
						counter = bo.Y
					} else if yLen {
						counter = bo.X
					} else {
						continue
					}
					key := fmt.Sprintf("%s|not-found-test#%d", funcName(fn), n)
					n++
					what := "'not found' is decided by a count accumulated within the current round"
					bad := false
					for x := range backward(counter, nil) {
						ph, isPhi := x.(*ssa.Phi)
						if !isPhi {
							continue
						}
						// is ph at the header of a loop that contains the test?
						h := ph.Block()
						isHeader := false
						for _, pr := range h.Preds {
							if h.Dominates(pr) {
								isHeader = true
							}
						}
						if !isHeader {
							continue
						}
						if loopBody(h)[b] {
							bad = true
						}
					}
					// … and it is compared with the number of frontiers of THIS round: frontiers
					// are dropped as the walk proceeds, a length taken before the rounds began
					// can never be reached again (the walk then never ends)
					stale := false
					if h := enclosingLoop(b); h != nil {
						lenSide := bo.X
						if yLen {
							lenSide = bo.Y
						}
						if lc, ok := stripConv(lenSide).(*ssa.Call); ok && !loopBody(h)[lc.Block()] {
							stale = true
						}
					}
					if bad {
						r.bad(key, p.Rel(ifi.Cond.Pos()), what, "the counter is carried over by the loop that contains the test: exhausted frontiers are counted again in every later round")
					} else if stale {
						r.bad(key, p.Rel(ifi.Cond.Pos()), what, "the count is compared with a length taken before the rounds began, not with the number of frontiers left in this round: once a frontier has been eliminated the two can never be equal and the search never ends")
					} else {
						r.ok(key, p.Rel(ifi.Cond.Pos()), what)
					}
				}
			}
			return nil
		},
	})
}
