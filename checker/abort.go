package main

// T5-strong "a failure aborts": the weak error rule (T5) asks that an error is looked
// at; this one asks what happens next. For the listed callees, every path that leaves
// the call through the non-nil edge of its error ends in a return of a non-nil error
// (or, in a goroutine without error result, in a send of that error followed by a
// return) — never in a nil return, a `continue` with the next item, or a second attempt
// with different arguments. Paths through the true edge of a test against one of the
// instance's *named* sentinels are exempt (the code base's way of saying "absent").

import (
	"fmt"
	"go/token"
	"go/types"
	"strings"

	"golang.org/x/tools/go/ssa"
)

type abortInstance struct {
	id, doc   string
	min       int
	scope     func(p *Program) []*ssa.Function
	callees   func(p *Program) (map[*types.Func]bool, error)
	sentinels [][2]string // {pkg path, name} whose true edge is exempt
	anchor    string
	// valueUsedOnly: the obligation exists only where the call's value result is used
	// (a call made to probe for existence, whose value is discarded, is exempt)
	valueUsedOnly bool
}

// abortsOnly: from block b every path reports the failure.
func abortsOnly(fn *ssa.Function, b *ssa.BasicBlock, exempt cutSet, errVals map[ssa.Value]bool, seen map[*ssa.BasicBlock]bool) (bool, *ssa.BasicBlock) {
	return abortsOnlyX(fn, b, exempt, errVals, seen, nil)
}

// abortsOnlyX: like abortsOnly; a return whose error value satisfies notAnError (the
// "absent" sentinel) does not count as reporting the failure.
func abortsOnlyX(fn *ssa.Function, b *ssa.BasicBlock, exempt cutSet, errVals map[ssa.Value]bool, seen map[*ssa.BasicBlock]bool, notAnError func(ssa.Value) bool) (bool, *ssa.BasicBlock) {
	if seen[b] {
		return false, b // a cycle: the function goes on with the next item
	}
	seen[b] = true
	defer delete(seen, b)
	ei := errorResultIndex(fn.Signature)
	for _, in := range b.Instrs {
		switch x := in.(type) {
		case *ssa.Send:
			if ei < 0 && (errVals[x.X] || isErrorChan(x.Chan.Type())) {
				return true, nil // reported on the error channel
			}
		case *ssa.Panic:
			return true, nil
		case *ssa.Return:
			if ei < 0 {
				return false, b
			}
			v := retVal(x, ei)
			if v == nil || isNilConst(v) {
				return false, b
			}
			if notAnError != nil && notAnError(v) {
				return false, b
			}
			if errVals[v] || definitelyNonNilError(v) || nonNilByGuard(fn, x, v) || isGlobalLoad(v) {
				return true, nil
			}
			if ph, ok := v.(*ssa.Phi); ok {
				all := true
				for _, e := range ph.Edges {
					if !(errVals[e] || definitelyNonNilError(e) || isGlobalLoad(e)) {
						all = false
					}
				}
				if all {
					return true, nil
				}
			}
			return false, b
		}
	}
	if len(b.Succs) == 0 {
		return false, b
	}
	for i, s := range b.Succs {
		if exempt[edge{b, i}] {
			continue
		}
		if ok, where := abortsOnlyX(fn, s, exempt, errVals, seen, notAnError); !ok {
			return false, where
		}
	}
	return true, nil
}

func runAbortInstance(p *Program, r *RuleResult, inst abortInstance) error {
	if inst.anchor != "" {
		if _, err := p.Func(inst.anchor); err != nil {
			return err
		}
	}
	callees, err := inst.callees(p)
	if err != nil {
		return err
	}
	fns := inst.scope(p)
	r.Analysed = len(fns)
	for _, fn := range fns {
		for _, ci := range callsTo(fn, callees) {
			call, ok := ci.(*ssa.Call)
			if !ok {
				continue
			}
			vals := errValuesOfCall(call)
			if vals == nil {
				continue
			}
			key := callKey(fn, ci)
			what := "a failure of " + calleeLabel(ci) + " ends the operation with an error"
			if inst.valueUsedOnly {
				used := false
				for _, ref := range *call.Referrers() {
					if ex, ok := ref.(*ssa.Extract); ok && !isErrorType(ex.Type()) && len(*ex.Referrers()) > 0 {
						used = true
					}
				}
				if !used {
					r.exempt(key, p.Rel(ci.Pos()), what, "the value read here is discarded (the call only probes for existence); no gate sees a stale previous value through it")
					continue
				}
			}
			fail := successEdgesFail(fn, call)
			// the true edge of a test against a sentinel the instance does not name is a failure
			// edge as well: `if errors.Is(err, ErrX) { carry on }` in front of `if err != nil`
			// (round 7, C04-r7am3)
			fail = append(fail, testEdges(fn, otherSentinelTests(fn, vals, inst.sentinels), true)...)
			if len(fail) == 0 {
				// returned directly, or handed to the caller through a named result
				direct := false
				ei := errorResultIndex(fn.Signature)
				for _, ret := range returnsOf(fn) {
					if v := retVal(ret, ei); v != nil && vals[v] {
						direct = true
					}
				}
				if direct {
					r.ok(key, p.Rel(ci.Pos()), what)
				} else {
					r.okWhy(key, p.Rel(ci.Pos()), what, "error not branched on here (T5 decides that it is not dropped)")
				}
				continue
			}
			var exempt []edge
			for _, s := range inst.sentinels {
				pkg := s[0]
				if strings.HasPrefix(pkg, "pkg/") {
					pkg = modPath + "/" + pkg
				}
				exempt = append(exempt, testEdges(fn, eofTestsOn(fn, vals, pkg, s[1]), true)...)
			}
			bad := ""
			for _, e := range fail {
				if ok, where := abortsOnly(fn, e.from.Succs[e.succ], mkCut(exempt), vals, map[*ssa.BasicBlock]bool{}); !ok {
					at := "?"
					if where != nil && len(where.Instrs) > 0 {
						at = p.Rel(where.Instrs[len(where.Instrs)-1].Pos())
						if at == "?" || at == "-" {
							at = fmt.Sprintf("block %d", where.Index)
						}
					}
					bad = fmt.Sprintf("after the call failed, %s can carry on without reporting it (path reaches %s): the failed item is skipped, retried differently or answered with a default while the operation reports success", funcName(fn), at)
				}
			}
			if bad != "" {
				r.bad(key, p.Rel(ci.Pos()), what, bad)
			} else {
				r.ok(key, p.Rel(ci.Pos()), what)
			}
		}
	}
	return nil
}

func pkgFuncsReturningError(p *Program, rel string, prefix string) map[*types.Func]bool {
	out := map[*types.Func]bool{}
	tp, err := p.TypesPkg(rel)
	if err != nil {
		return out
	}
	for _, n := range tp.Scope().Names() {
		if f, ok := tp.Scope().Lookup(n).(*types.Func); ok && strings.HasPrefix(n, prefix) {
			if sig := f.Type().(*types.Signature); errorResultIndexSig(sig) >= 0 {
				out[f] = true
			}
		}
	}
	return out
}

func errorResultIndexSig(sig *types.Signature) int { return errorResultIndex(sig) }

func init() {
	insts := []abortInstance{
		{
			id: "C01-h", min: 3, anchor: "pkg/sorter.(*Sorter).AddRow",
			doc: "No row is skipped: in pkg/sorter, pkg/ingest and pkg/doctor a failure of (*Sorter).AddRow or writeChunk (a row that cannot be encoded, a run that cannot be spilled) ends the ingest with an error on every path — it is never answered by moving on to the next row. A commit that logs the bad lines and succeeds stores a table from which rows are silently missing.",
			scope: func(p *Program) []*ssa.Function {
				return p.FuncsInPkg("pkg/sorter", "pkg/ingest", "pkg/doctor", "pkg/merge")
			},
			callees: func(p *Program) (map[*types.Func]bool, error) {
				return p.MustFuncs("pkg/sorter.(*Sorter).AddRow", "pkg/sorter.writeChunk")
			},
		},
		{
			id: "C06-g", min: 10, anchor: "pkg/encoding/objline.WriteString",
			doc:   "What cannot be written is not written differently: in pkg/objects a failure of a pkg/encoding/objline writer (WriteString, WriteBytes, WriteTime, WriteField, WriteUint…; e.g. a string longer than its 16-bit length prefix allows) makes the enclosing encoder return an error on every path — never a second attempt with a shortened or defaulted value, which would store an object that does not read back equal to what was asked for.",
			scope: func(p *Program) []*ssa.Function { return p.FuncsInPkg("pkg/objects") },
			callees: func(p *Program) (map[*types.Func]bool, error) {
				m := pkgFuncsReturningError(p, "pkg/encoding/objline", "Write")
				if len(m) < 3 {
					return nil, &AnchorError{"pkg/encoding/objline.Write* functions"}
				}
				return m, nil
			},
		},
		{
			id: "C12-g", min: 8, anchor: "pkg/prune.Prune",
			doc:   "A prune that hit an error stops: in pkg/prune a failure of any pkg/objects or pkg/ref call (Get*, Delete*, listing) ends Prune with that error on every path — the sweep never carries on with marks that a function which returned early has not finished writing (blocks of tables that were not looked at yet would be deleted), and nothing is 'remembered and reported later'. The only exempt outcome is objects.ErrKeyNotFound (a shallow commit's table is legitimately absent).",
			scope: func(p *Program) []*ssa.Function { return p.FuncsInPkg("pkg/prune") },
			callees: func(p *Program) (map[*types.Func]bool, error) {
				m := map[*types.Func]bool{}
				for f := range pkgFuncsReturningError(p, "pkg/objects", "") {
					m[f] = true
				}
				for f := range pkgFuncsReturningError(p, "pkg/ref", "") {
					m[f] = true
				}
				// the steps of prune itself (runWithPbar and the functions it runs)
				for f := range pkgFuncsReturningError(p, "pkg/prune", "") {
					m[f] = true
				}
				q, err := p.MustFuncs("pkg/ref.(*CommitsQueue).Insert", "pkg/ref.(*CommitsQueue).PopInsertParents")
				if err != nil {
					return nil, err
				}
				for f := range q {
					m[f] = true
				}
				return m, nil
			},
			sentinels: [][2]string{{"pkg/objects", "ErrKeyNotFound"}, {"io", "EOF"}},
		},
	}
	for _, inst := range insts {
		inst := inst
		register(&Rule{
			ID: inst.id, Template: "T5-strong (a failure aborts)", Doc: inst.doc, Min: inst.min,
			Run: func(p *Program, r *RuleResult) error { return runAbortInstance(p, r, inst) },
		})
	}

	register(&Rule{
		ID: "C07-g", Template: "T5-strong (a refused packfile is not skipped)",
		Doc: "A packfile the remote did not accept is never passed over: in the state functions of pkg/api/client that upload objects ((*ObjectSender).WriteObjects followed by a request), a failed request and a response whose status is not 200 both end the session with an error on every path. WriteObjects has already taken the packfile's objects off the send queue; a 'transient, try again' outcome sends the NEXT packfile and the refused one — possibly a table object — is lost while the push reports success.",
		Min: 1,
		Run: func(p *Program, r *RuleResult) error {
			wo, err := p.MustFuncs("pkg/api/utils.(*ObjectSender).WriteObjects")
			if err != nil {
				return err
			}
			req, err := p.MustFuncs("pkg/api/client.(*Client).Request", "pkg/api/client.(*Client).PostReceivePack")
			if err != nil {
				// PostReceivePack may not exist in this tree
				req, err = p.MustFuncs("pkg/api/client.(*Client).Request")
				if err != nil {
					return err
				}
			}
			status, err := statusCodeField(p)
			if err != nil {
				return err
			}
			fns := p.FuncsInPkg("pkg/api/client")
			r.Analysed = len(fns)
			// functions that take objects off the sender's queue, directly or through a
			// helper of the package
			takes := map[*ssa.Function]bool{}
			for _, fn := range fns {
				if len(callsTo(fn, wo)) > 0 {
					takes[fn] = true
				}
			}
			for round := 0; round < 2; round++ {
				for _, fn := range fns {
					if takes[fn] {
						continue
					}
					eachCall(fn, func(c ssa.CallInstruction) {
						if sc := c.Common().StaticCallee(); sc != nil && takes[sc] {
							takes[fn] = true
						}
					})
				}
			}
			for _, fn := range fns {
				if !takes[fn] {
					continue
				}
				for _, ci := range callsTo(fn, req) {
					call, ok := ci.(*ssa.Call)
					if !ok {
						continue
					}
					vals := errValuesOfCall(call)
					key := callKey(fn, ci)
					what := "a failed or refused upload ends the session with an error"
					bad := ""
					for _, e := range successEdgesFail(fn, call) {
						if ok, _ := abortsOnly(fn, e.from.Succs[e.succ], nil, vals, map[*ssa.BasicBlock]bool{}); !ok {
							bad = "after the request failed the state function can return without an error"
						}
					}
					// status tests on the response
					nStatus := 0
					for _, b := range fn.Blocks {
						if len(b.Instrs) == 0 {
							continue
						}
						ifi, ok := b.Instrs[len(b.Instrs)-1].(*ssa.If)
						if !ok {
							continue
						}
						bo, ok := ifi.Cond.(*ssa.BinOp)
						if !ok {
							continue
						}
						var other ssa.Value
						if derivesFromField(bo.X, status) {
							other = bo.Y
						} else if derivesFromField(bo.Y, status) {
							other = bo.X
						} else {
							continue
						}
						k, isC := constInt(other)
						if !isC || k != 200 {
							// a test for another status: whichever way it goes, only the 200 edge may succeed
							for i := range b.Succs {
								_ = i
							}
							continue
						}
						nStatus++
						notOK := 0
						switch bo.Op.String() {
						case "!=":
							notOK = 0
						case "==":
							notOK = 1
						default:
							continue
						}
						if ok, _ := abortsOnly(fn, b.Succs[notOK], nil, vals, map[*ssa.BasicBlock]bool{}); !ok {
							bad = "a response whose status is not 200 can lead to a return without an error (the next packfile is sent, the refused one is gone)"
						}
					}
					if nStatus == 0 {
						bad = "the response status is never compared with 200 before the session goes on"
					}
					if bad != "" {
						r.bad(key, p.Rel(ci.Pos()), what, bad)
					} else {
						r.ok(key, p.Rel(ci.Pos()), what)
					}
				}
			}
			return nil
		},
	})
}

// statusCodeField: net/http.Response.StatusCode.
func statusCodeField(p *Program) (*types.Var, error) {
	for _, pkg := range p.SSA.AllPackages() {
		if pkg.Pkg != nil && pkg.Pkg.Path() == "net/http" {
			if tn, ok := pkg.Pkg.Scope().Lookup("Response").(*types.TypeName); ok {
				st := tn.Type().Underlying().(*types.Struct)
				for i := 0; i < st.NumFields(); i++ {
					if st.Field(i).Name() == "StatusCode" {
						return st.Field(i), nil
					}
				}
			}
		}
	}
	return nil, &AnchorError{"net/http.Response.StatusCode"}
}

func init() {
	register(&Rule{
		ID: "C15-h", Template: "T5-strong + sentinel (a failed read is not 'absent')",
		Doc: "The ref store says 'not found' only when the database says so: in pkg/ref/sql, when a (*sql.Row).Scan / (*sql.Rows).Scan fails, every path from the failure returns that failure (or an error built from it) — except through the true edge of a test of the error against sql.ErrNoRows, the one outcome that means the row does not exist. Returning ref.ErrKeyNotFound, a nil error, or carrying on with a nil old value for ANY Scan error makes a busy or broken database look like an empty one: the update gates of fetch, pull and push then treat an existing ref as new, and the reflog records a nil old value.",
		Min: 8,
		Run: func(p *Program, r *RuleResult) error {
			scan, err := stdMethods(p, "database/sql", map[string][]string{"Row": {"Scan"}, "Rows": {"Scan"}})
			if err != nil {
				return err
			}
			if _, err := p.Func("pkg/ref/sql.(*Store).Get"); err != nil {
				return err
			}
			var fns []*ssa.Function
			for _, fn := range p.FuncsInPkg("pkg/ref/sql") {
				fns = append(fns, fn)
			}
			r.Analysed = len(fns)
			absent := func(v ssa.Value) bool {
				return isGlobalNamed(v, modPath+"/pkg/ref", "ErrKeyNotFound")
			}
			for _, fn := range fns {
				for _, ci := range callsTo(fn, scan) {
					call, ok := ci.(*ssa.Call)
					if !ok {
						continue
					}
					vals := errValuesOfCall(call)
					if vals == nil {
						continue
					}
					key := callKey(fn, ci)
					what := "a failed Scan is reported as a failure unless the driver said 'no rows'"
					fail := successEdgesFail(fn, call)
					if len(fail) == 0 {
						r.okWhy(key, p.Rel(ci.Pos()), what, "error returned or handed on unexamined")
						continue
					}
					noRows := testEdges(fn, eofTestsOn(fn, vals, "database/sql", "ErrNoRows"), true)
					bad := ""
					for _, e := range fail {
						if ok, where := abortsOnlyX(fn, e.from.Succs[e.succ], mkCut(noRows), vals, map[*ssa.BasicBlock]bool{}, absent); !ok {
							at := "?"
							if where != nil && len(where.Instrs) > 0 {
								at = p.Rel(where.Instrs[len(where.Instrs)-1].Pos())
							}
							bad = fmt.Sprintf("after Scan failed for a reason other than sql.ErrNoRows, %s answers as if the row did not exist (reaches %s without reporting the failure)", funcName(fn), at)
						}
					}
					if bad != "" {
						r.bad(key, p.Rel(ci.Pos()), what, bad)
					} else {
						r.ok(key, p.Rel(ci.Pos()), what)
					}
				}
			}
			return nil
		},
	})
}

// stdMethods resolves methods of named types of a (standard library) package.
func stdMethods(p *Program, pkgPath string, want map[string][]string) (map[*types.Func]bool, error) {
	out := map[*types.Func]bool{}
	for _, pkg := range p.SSA.AllPackages() {
		if pkg.Pkg == nil || pkg.Pkg.Path() != pkgPath {
			continue
		}
		for tn, ms := range want {
			obj, ok := pkg.Pkg.Scope().Lookup(tn).(*types.TypeName)
			if !ok {
				return nil, &AnchorError{pkgPath + "." + tn}
			}
			mset := types.NewMethodSet(types.NewPointer(obj.Type()))
			for _, m := range ms {
				sel := mset.Lookup(pkg.Pkg, m)
				if sel == nil {
					return nil, &AnchorError{pkgPath + "." + tn + "." + m}
				}
				out[sel.Obj().(*types.Func)] = true
			}
		}
	}
	if len(out) == 0 {
		return nil, &AnchorError{pkgPath + " methods"}
	}
	return out, nil
}

func init() {
	inst := abortInstance{
		id: "C17-j", min: 1, anchor: "pkg/api/utils.(*ObjectReceiver).Receive",
		doc:   "A transfer that failed is over: in pkg/api/client a failure of (*ObjectReceiver).Receive (a packfile cut short, an invalid object) ends the session state with an error on every path — it is never answered by asking again from inside the failure path. A remote that keeps sending a packfile cut inside an object would otherwise be re-requested without bound (recursion, response bodies never closed).",
		scope: func(p *Program) []*ssa.Function { return p.FuncsInPkg("pkg/api/client") },
		callees: func(p *Program) (map[*types.Func]bool, error) {
			return p.MustFuncs("pkg/api/utils.(*ObjectReceiver).Receive")
		},
	}
	register(&Rule{
		ID: inst.id, Template: "T5-strong (a failure aborts)", Doc: inst.doc, Min: inst.min,
		Run: func(p *Program, r *RuleResult) error { return runAbortInstance(p, r, inst) },
	})
}

func init() {
	register(&Rule{
		ID: "C01-i", Template: "T5-strong (the sorter's error channel is consulted before success)",
		Doc: "A merge pass that failed fails the ingest: a production function that creates an error channel and hands it to (*Sorter).SortedBlocks / SortedRows returns success only after it received from that channel and found it empty (closed, or a nil error) — on every path. The sorter's goroutine reports a read error of a spill file by sending on the channel and closing its output; the consumer of the output sees a normal end of input. If the channel is looked at only when something else failed too, a cut-short table is stored and its identifier returned with a nil error.",
		Min: 1,
		Run: func(p *Program, r *RuleResult) error {
			sorted, err := p.MustFuncs("pkg/sorter.(*Sorter).SortedBlocks", "pkg/sorter.(*Sorter).SortedRows")
			if err != nil {
				return err
			}
			fns := p.ProdFuncs()
			r.Analysed = len(fns)
			for _, fn := range fns {
				for _, c := range callsTo(fn, sorted) {
					args := c.Common().Args
					var ch ssa.Value
					for _, a := range args {
						if _, ok := a.Type().Underlying().(*types.Chan); ok {
							for x := range backward(a, nil) {
								if mc, ok := x.(*ssa.MakeChan); ok {
									ch = mc
								}
							}
						}
					}
					if ch == nil {
						continue // the channel belongs to the caller: its owner carries the obligation
					}
					same := forward([]ssa.Value{ch}, fwdOpts{noBinOp: true})
					var recvs []ssa.Instruction
					noErr := cutSet{}
					for _, b := range fn.Blocks {
						for _, in := range b.Instrs {
							u, ok := in.(*ssa.UnOp)
							if !ok || u.Op != token.ARROW || !same[u.X] {
								continue
							}
							recvs = append(recvs, u)
							if u.CommaOk {
								var oks []ssa.Value
								errv := map[ssa.Value]bool{}
								for _, ref := range *u.Referrers() {
									if ex, ok := ref.(*ssa.Extract); ok {
										if ex.Index == 1 {
											oks = append(oks, ex)
										} else {
											errv[ex] = true
										}
									}
								}
								for _, e := range boolEdges(fn, forward(oks, fwdOpts{noBinOp: true}), false) {
									noErr[e] = true
								}
								for _, bb := range fn.Blocks {
									if len(bb.Instrs) == 0 {
										continue
									}
									if ifi, ok := bb.Instrs[len(bb.Instrs)-1].(*ssa.If); ok {
										if s, ok := nilTestEdge(ifi, errv); ok {
											noErr[edge{bb, s}] = true
										}
									}
								}
							} else {
								for _, bb := range fn.Blocks {
									if len(bb.Instrs) == 0 {
										continue
									}
									if ifi, ok := bb.Instrs[len(bb.Instrs)-1].(*ssa.If); ok {
										if s, ok := nilTestEdge(ifi, map[ssa.Value]bool{u: true}); ok {
											noErr[edge{bb, s}] = true
										}
									}
								}
							}
						}
					}
					key := callKey(fn, c) + "|error-channel"
					what := "success is reported only after the sorter's error channel was found empty"
					ei := errorResultIndex(fn.Signature)
					bad := ""
					block := map[ssa.Instruction]bool{}
					for _, rv := range recvs {
						block[rv] = true
					}
					// what was received (the sorter's error) handed on to the caller is a failure return
					var rvs []ssa.Value
					for _, rv := range recvs {
						u := rv.(*ssa.UnOp)
						if u.CommaOk {
							for _, ref := range *u.Referrers() {
								if ex, ok := ref.(*ssa.Extract); ok && ex.Index == 0 {
									rvs = append(rvs, ex)
								}
							}
						} else {
							rvs = append(rvs, u)
						}
					}
					received := forward(rvs, fwdOpts{noBinOp: true, throughCalls: true})
					for _, ret := range returnsOf(fn) {
						if ei >= 0 {
							if v := retVal(ret, ei); v != nil && (definitelyNonNilError(v) || nonNilByGuard(fn, ret, v) || received[v]) {
								continue
							}
						}
						if path, reach := reachAfter(fn, c, ret, nil, block); reach {
							bad = fmtPath("a successful return is reachable after the sort was started without receiving from its error channel", path)
							break
						}
						for _, rv := range recvs {
							if path, reach := reachAfter(fn, rv, ret, noErr, nil); reach {
								bad = fmtPath("a successful return is reachable from the receive without the 'no error' outcome", path)
							}
						}
					}
					if len(recvs) == 0 && ei >= 0 {
						bad = "the error channel handed to the sorter is never received from"
					}
					if bad != "" {
						r.bad(key, p.Rel(c.Pos()), what, bad)
					} else {
						r.ok(key, p.Rel(c.Pos()), what)
					}
				}
			}
			return nil
		},
	})
}

// otherSentinelTests: tests of an error value against a package-level sentinel (errors.Is or
// == / !=) other than the named ones.
func otherSentinelTests(fn *ssa.Function, errVals map[ssa.Value]bool, named [][2]string) []eofTest {
	isNamed := func(v ssa.Value) bool {
		for _, s := range named {
			pkg := s[0]
			if strings.HasPrefix(pkg, "pkg/") {
				pkg = modPath + "/" + pkg
			}
			if isGlobalNamed(v, pkg, s[1]) {
				return true
			}
		}
		return false
	}
	isSentinel := func(v ssa.Value) bool {
		u, ok := v.(*ssa.UnOp)
		if !ok || u.Op != token.MUL {
			return false
		}
		_, isG := u.X.(*ssa.Global)
		return isG && isErrorType(v.Type()) && !isNamed(v)
	}
	var out []eofTest
	eachCall(fn, func(c ssa.CallInstruction) {
		if f := calleeFunc(c); f != nil && f.FullName() == "errors.Is" && len(c.Common().Args) == 2 && errVals[c.Common().Args[0]] && isSentinel(c.Common().Args[1]) {
			if v, ok := c.(*ssa.Call); ok {
				out = append(out, eofTest{v, true, v.Pos()})
			}
		}
	})
	for _, b := range fn.Blocks {
		for _, in := range b.Instrs {
			if bo, ok := in.(*ssa.BinOp); ok && (bo.Op == token.EQL || bo.Op == token.NEQ) {
				if (errVals[bo.X] && isSentinel(bo.Y)) || (errVals[bo.Y] && isSentinel(bo.X)) {
					out = append(out, eofTest{bo, false, bo.Pos()})
				}
			}
		}
	}
	return out
}
