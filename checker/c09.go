package main

import (
	"go/types"

	"golang.org/x/tools/go/ssa"
)

func init() {
	register(&Rule{
		ID: "C09-a", Template: "T1 must-traverse",
		Doc: "Fetch: refs are written only after objects arrived. In every function of cmd/wrgl/... that calls both the object-fetching function (the function of cmd/wrgl/fetch that opens an UploadPackSession) and a ref-saving function of cmd/wrgl/fetch (one that reaches ref.SaveFetchRef), the ref-saving call is reachable only through the success edge of the object fetch.",
		Min: 1,
		Run: func(p *Program, r *RuleResult) error {
			nups, err := p.MustFuncs("pkg/api/client.NewUploadPackSession")
			if err != nil {
				return err
			}
			sfr, err := p.MustFuncs("pkg/ref.SaveFetchRef")
			if err != nil {
				return err
			}
			fetchPkg := p.FuncsInPkg("cmd/wrgl/fetch")
			fetchers := map[*types.Func]bool{}
			savers := map[*types.Func]bool{}
			for _, fn := range fetchPkg {
				if fn.Parent() != nil {
					continue
				}
				obj, ok := fn.Object().(*types.Func)
				if !ok {
					continue
				}
				if len(callsTo(fn, nups)) > 0 {
					fetchers[obj] = true
				}
				if len(callsTo(fn, sfr)) > 0 {
					savers[obj] = true
				}
			}
			if len(fetchers) == 0 {
				return &AnchorError{"a function of cmd/wrgl/fetch calling apiclient.NewUploadPackSession"}
			}
			if len(savers) == 0 {
				return &AnchorError{"a function of cmd/wrgl/fetch calling ref.SaveFetchRef"}
			}
			g := &guardCheck{p: p, pre: newSuccSummary(p, fetchers)}
			var fns []*ssa.Function
			fns = append(fns, fetchPkg...)
			fns = append(fns, p.FuncsInPkg("cmd/wrgl")...)
			r.Analysed = len(fns)
			for _, fn := range fns {
				for _, s := range callsTo(fn, savers) {
					what := "fetched refs saved only after the objects were fetched successfully"
					if ok, w := g.check(fn, s, wrapperDepth); ok {
						r.ok(callKey(fn, s), p.Rel(s.Pos()), what)
					} else {
						r.bad(callKey(fn, s), p.Rel(s.Pos()), what, w)
					}
				}
			}
			return nil
		},
	})

	register(&Rule{
		ID: "C09-b", Template: "T4 permit-cut",
		Doc: "UploadPackSession: a state function that calls ObjectReceiver.Receive returns the terminal state (nil, nil) only on the done==true edge of Receive: the session cannot report completion while expected commits are outstanding.",
		Min: 1,
		Run: func(p *Program, r *RuleResult) error {
			recv, err := p.MustFuncs("pkg/api/utils.(*ObjectReceiver).Receive")
			if err != nil {
				return err
			}
			fns := p.FuncsInPkg("pkg/api/client")
			r.Analysed = len(fns)
			for _, fn := range fns {
				calls := callsTo(fn, recv)
				if len(calls) == 0 {
					continue
				}
				var done []ssa.Value
				for _, c := range calls {
					if call, ok := c.(*ssa.Call); ok {
						for _, ref := range *call.Referrers() {
							if ex, ok := ref.(*ssa.Extract); ok && ex.Index == 0 {
								done = append(done, ex)
							}
						}
					}
				}
				cut := mkCut(boolEdges(fn, forward(done, fwdOpts{noBinOp: true}), true))
				n := 0
				for _, ret := range returnsOf(fn) {
					if len(ret.Results) != 2 || !isNilConst(retVal(ret, 0)) || !isNilConst(retVal(ret, 1)) {
						continue
					}
					key := funcName(fn) + "|return(nil,nil)#" + itoa(n)
					n++
					what := "terminal state returned only when Receive reported done"
					if path, reach := reachAfter(fn, nil, ret, cut, nil); reach {
						r.bad(key, p.Rel(ret.Pos()), what, fmtPath("terminal return reachable without the done==true edge", path))
					} else {
						r.ok(key, p.Rel(ret.Pos()), what)
					}
				}
				// any other way of ending the session from this function: returning a nil
				// state through a variable is not tracked (documented)
			}
			return nil
		},
	})

	register(&Rule{
		ID: "C09-c", Template: "T1 must-traverse",
		Doc: "Push: NewReceivePackSession hands out a session only after the shallow-commit check (NewShallowCommitError == nil edge): commits whose tables were never fetched are not pushed.",
		Min: 1,
		Run: func(p *Program, r *RuleResult) error {
			fn, err := p.SSAFunc("pkg/api/client.NewReceivePackSession")
			if err != nil {
				return err
			}
			sce, err := p.MustFuncs("pkg/api/client.NewShallowCommitError")
			if err != nil {
				return err
			}
			r.Analysed = 1
			checks := callsTo(fn, sce)
			n := 0
			for _, ret := range returnsOf(fn) {
				if len(ret.Results) == 0 || isNilConst(retVal(ret, 0)) {
					continue
				}
				key := funcName(fn) + "|return(session)#" + itoa(n)
				n++
				what := "session returned only after the shallow-commit check passed"
				ok := false
				var why string
				for _, c := range checks {
					call, isCall := c.(*ssa.Call)
					if !isCall {
						continue
					}
					if path, reach := reachAfter(fn, nil, ret, nil, map[ssa.Instruction]bool{call: true}); reach {
						why = fmtPath("return reachable without calling NewShallowCommitError", path)
						continue
					}
					cut := mkCut(nilEdges(fn, forward([]ssa.Value{call}, fwdOpts{noBinOp: true})))
					if path, reach := reachAfter(fn, call, ret, cut, nil); reach {
						why = fmtPath("return reachable after the check without taking its nil edge", path)
						continue
					}
					ok = true
				}
				if len(checks) == 0 {
					why = "no NewShallowCommitError call in " + funcName(fn)
				}
				if ok {
					r.ok(key, p.Rel(ret.Pos()), what)
				} else {
					r.bad(key, p.Rel(ret.Pos()), what, why)
				}
			}
			return nil
		},
	})
}

func itoa(i int) string {
	if i == 0 {
		return "0"
	}
	s := ""
	for i > 0 {
		s = string(rune('0'+i%10)) + s
		i /= 10
	}
	return s
}
