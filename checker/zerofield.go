package main

// C09-j: a guard is not asked about a field that has not been filled yet.
//
// A constructor that was split into phases may end up reading a field of the object
// it is building before the phase that fills it has run: the read yields the zero
// value, and a check that is handed an empty list passes vacuously.

import (
	"fmt"
	"go/token"
	"go/types"

	"golang.org/x/tools/go/ssa"
)

// fieldWriters: parameter index → fields of that parameter (a pointer to struct) that
// fn stores to, directly or through static callees of the repo (bounded depth).
func fieldWriters(fn *ssa.Function, depth int, memo map[*ssa.Function]map[int]map[*types.Var]bool) map[int]map[*types.Var]bool {
	if m, ok := memo[fn]; ok {
		return m
	}
	out := map[int]map[*types.Var]bool{}
	memo[fn] = out
	if len(fn.Blocks) == 0 {
		return out
	}
	paramIdx := map[ssa.Value]int{}
	for i, prm := range fn.Params {
		paramIdx[prm] = i
	}
	add := func(i int, f *types.Var) {
		if out[i] == nil {
			out[i] = map[*types.Var]bool{}
		}
		out[i][f] = true
	}
	for _, b := range fn.Blocks {
		for _, in := range b.Instrs {
			switch x := in.(type) {
			case *ssa.Store:
				if fa, ok := x.Addr.(*ssa.FieldAddr); ok {
					if i, ok := paramIdx[fa.X]; ok {
						add(i, structField(fa.X.Type(), fa.Field))
					}
				}
			case ssa.CallInstruction:
				if depth <= 0 {
					continue
				}
				sc := x.Common().StaticCallee()
				if sc == nil || !isRepoPkgPath(fnPkgPath(sc)) {
					continue
				}
				inner := fieldWriters(sc, depth-1, memo)
				for ai, a := range x.Common().Args {
					if i, ok := paramIdx[a]; ok {
						for f := range inner[ai] {
							add(i, f)
						}
					}
				}
			}
		}
	}
	return out
}

func init() {
	register(&Rule{
		ID: "C09-j", Template: "typestate (field read before the phase that fills it)",
		Doc: "A check is not handed a field that is still empty: in production code, where a function builds an object (a struct it allocates), a field that the composite literal does not set and that is filled later in the same function — by an assignment or by a method / helper called on the object — is not read and passed to a call before anything that can fill it has run. (`s := &session{…}; if err := checkShallow(db, s.commits); …; s.findObjectsToSend()` asks the guard about an empty list: the push of a partly shallow history is accepted and the remote ends up with commits whose tables exist nowhere.)",
		Min: 1,
		Run: func(p *Program, r *RuleResult) error {
			if _, err := p.SSAFunc("pkg/api/client.NewReceivePackSession"); err != nil {
				return err
			}
			fns := p.ProdFuncs()
			r.Analysed = len(fns)
			memo := map[*ssa.Function]map[int]map[*types.Var]bool{}
			nObj, nBad := 0, 0
			for _, fn := range fns {
				for _, b := range fn.Blocks {
					for _, in := range b.Instrs {
						al, ok := in.(*ssa.Alloc)
						if !ok || !al.Heap {
							continue
						}
						st, ok := al.Type().Underlying().(*types.Pointer).Elem().Underlying().(*types.Struct)
						if !ok || st.NumFields() == 0 {
							continue
						}
						// writers of each field of this object inside fn
						writers := map[*types.Var][]ssa.Instruction{}
						var escapes []ssa.Instruction // calls that take the object and that we cannot see into
						var loads []*ssa.UnOp
						for _, ref := range *al.Referrers() {
							switch x := ref.(type) {
							case *ssa.FieldAddr:
								f := structField(al.Type(), x.Field)
								for _, r2 := range *x.Referrers() {
									switch y := r2.(type) {
									case *ssa.Store:
										if y.Addr == ssa.Value(x) {
											writers[f] = append(writers[f], y)
										}
									case *ssa.UnOp:
										if y.Op == token.MUL {
											loads = append(loads, y)
										}
									default:
										// the field's address is taken for something else: may be written through it
										if ins, ok := r2.(ssa.Instruction); ok {
											writers[f] = append(writers[f], ins)
										}
									}
								}
							case ssa.CallInstruction:
								sc := x.Common().StaticCallee()
								if sc == nil || !isRepoPkgPath(fnPkgPath(sc)) || len(sc.Blocks) == 0 {
									escapes = append(escapes, x)
									continue
								}
								fw := fieldWriters(sc, 2, memo)
								for ai, a := range x.Common().Args {
									if a == ssa.Value(al) {
										for f := range fw[ai] {
											writers[f] = append(writers[f], x)
										}
									}
								}
							case *ssa.Store:
								if x.Val == ssa.Value(al) {
									escapes = append(escapes, x) // stored somewhere: visible to others from here on
								}
							case *ssa.MakeClosure, *ssa.MakeInterface, *ssa.Phi, *ssa.Return:
								if ins, ok := ref.(ssa.Instruction); ok {
									if _, isRet := ref.(*ssa.Return); !isRet {
										escapes = append(escapes, ins)
									}
								}
							}
						}
						if len(loads) == 0 {
							continue
						}
						nObj++
						for _, ld := range loads {
							fa := ld.X.(*ssa.FieldAddr)
							f := structField(al.Type(), fa.Field)
							ws := writers[f]
							if len(ws) == 0 {
								continue
							}
							// the value goes into a call (not a builtin)
							toCall := false
							for v := range forward([]ssa.Value{ld}, fwdOpts{noBinOp: true}) {
								if v.Referrers() == nil {
									continue
								}
								for _, ref := range *v.Referrers() {
									if c, ok := ref.(ssa.CallInstruction); ok {
										if _, isB := c.Common().Value.(*ssa.Builtin); isB {
											continue
										}
										for _, a := range c.Common().Args {
											if a == v {
												toCall = true
											}
										}
									}
								}
							}
							if !toCall {
								continue
							}
							before, after := false, false
							for _, w := range append(append([]ssa.Instruction{}, ws...), escapes...) {
								if _, reach := reachAfter(fn, w, ld, nil, nil); reach {
									before = true
								}
							}
							for _, w := range ws {
								if _, reach := reachAfter(fn, ld, w, nil, nil); reach {
									after = true
								}
							}
							if !before && after {
								nBad++
								r.bad(fmt.Sprintf("%s|%s.%s read before it is filled", funcName(fn), shortType(al.Type()), f.Name()), p.Rel(ld.Pos()), "a field of an object under construction is read only after it was filled",
									fmt.Sprintf("%s.%s is read at %s and passed to a call, but nothing that fills it has run yet on any path (it is filled later in %s): the call sees the zero value", shortType(al.Type()), f.Name(), p.Rel(ld.Pos()), funcName(fn)))
							}
						}
					}
				}
			}
			r.note("objects under construction with field reads: %d", nObj)
			if nBad == 0 {
				r.ok("production|fields-read-after-filled", "", "a field of an object under construction is read only after it was filled")
			}
			return nil
		},
	})
}
