package main

import (
	"fmt"
	"go/token"
	"go/types"

	"golang.org/x/tools/go/ssa"
)

// leadsToErrorReturn: the block (following single-successor chains) ends in a
// Return whose error result is definitely non-nil.
func leadsToErrorReturn(fn *ssa.Function, b *ssa.BasicBlock) bool {
	ei := errorResultIndex(fn.Signature)
	if ei < 0 {
		return false
	}
	seen := map[*ssa.BasicBlock]bool{}
	for b != nil && !seen[b] {
		seen[b] = true
		if len(b.Instrs) == 0 {
			return false
		}
		switch t := b.Instrs[len(b.Instrs)-1].(type) {
		case *ssa.Return:
			v := retVal(t, ei)
			return v != nil && (definitelyNonNilError(v) || nonNilByGuard(fn, t, v))
		case *ssa.Jump:
			b = b.Succs[0]
		case *ssa.Panic:
			return false
		default:
			return false
		}
	}
	return false
}

// baseSlice: the slice value a (re)slice expression is taken from.
func baseSlice(v ssa.Value) ssa.Value {
	for {
		switch x := v.(type) {
		case *ssa.Slice:
			v = x.X
		case *ssa.ChangeType:
			v = x.X
		case *ssa.Convert:
			v = x.X
		default:
			return v
		}
	}
}

func init() {
	register(&Rule{
		ID: "C17-b", Template: "guarded fixed-width read",
		Doc: "In the hostile-reachable set, in functions that return an error, a binary.BigEndian.UintN read from a parameter byte slice (or a reslice of one) is reachable only through the passing edge of a test that relates len() of that slice to an offset and whose other edge returns an error. Decides presence of a relevant guard, not its arithmetic.",
		Min: 3,
		Run: func(p *Program, r *RuleResult) error {
			H, _, err := hostileReachable(p)
			if err != nil {
				return err
			}
			r.Analysed = len(H)
			for _, fn := range sortedFuncs(H) {
				if errorResultIndex(fn.Signature) < 0 {
					continue
				}
				n := 0
				eachCall(fn, func(ci ssa.CallInstruction) {
					call, ok := ci.(*ssa.Call)
					if !ok {
						return
					}
					f := calleeFunc(call)
					if f == nil || f.Pkg() == nil || f.Pkg().Path() != "encoding/binary" {
						return
					}
					switch f.Name() {
					case "Uint16", "Uint32", "Uint64":
					default:
						return
					}
					args := call.Call.Args
					buf := args[len(args)-1]
					base := baseSlice(buf)
					par, isPar := base.(*ssa.Parameter)
					if !isPar {
						return
					}
					key := fmt.Sprintf("%s|binary.%s(%s…)#%d", funcName(fn), f.Name(), par.Name(), n)
					n++
					what := "fixed-width read from a caller-supplied slice is length-guarded"
					// values holding len(par)
					lens := map[ssa.Value]bool{}
					for _, b := range fn.Blocks {
						for _, in := range b.Instrs {
							if c2, ok := in.(*ssa.Call); ok {
								if bi, ok := c2.Call.Value.(*ssa.Builtin); ok && bi.Name() == "len" && len(c2.Call.Args) == 1 && baseSlice(c2.Call.Args[0]) == par {
									lens[c2] = true
								}
							}
						}
					}
					var seeds []ssa.Value
					for v := range lens {
						seeds = append(seeds, v)
					}
					lenDerived := forward(seeds, fwdOpts{noBinOp: true})
					// the offset the read starts at: the guard must mention it (or be a constant test for offset 0)
					var offDerived map[ssa.Value]bool
					if sl, ok := buf.(*ssa.Slice); ok && sl.Low != nil {
						if _, isConst := sl.Low.(*ssa.Const); !isConst {
							offDerived = forward([]ssa.Value{sl.Low}, fwdOpts{})
							offDerived[sl.Low] = true
						}
					}
					var permits []edge
					for _, b := range fn.Blocks {
						if len(b.Instrs) == 0 {
							continue
						}
						ifi, ok := b.Instrs[len(b.Instrs)-1].(*ssa.If)
						if !ok {
							continue
						}
						bo, ok := ifi.Cond.(*ssa.BinOp)
						if !ok {
							continue
						}
						switch bo.Op {
						case token.LSS, token.LEQ, token.GTR, token.GEQ:
						default:
							continue
						}
						var other ssa.Value
						switch {
						case lenDerived[bo.X] || lenDerived[stripConv(bo.X)]:
							other = bo.Y
						case lenDerived[bo.Y] || lenDerived[stripConv(bo.Y)]:
							other = bo.X
						default:
							// len(b) - off  OP  k
							if sub, ok := stripConv(bo.X).(*ssa.BinOp); ok && sub.Op == token.SUB && lenDerived[sub.X] {
								other = sub.Y
							} else if sub, ok := stripConv(bo.Y).(*ssa.BinOp); ok && sub.Op == token.SUB && lenDerived[sub.X] {
								other = sub.Y
							} else {
								continue
							}
						}
						if offDerived != nil {
							if !offDerived[other] && !offDerived[stripConv(other)] {
								continue // the guard does not relate the length to the offset of this read
							}
						}
						for i, s := range b.Succs {
							if leadsToErrorReturn(fn, s) {
								permits = append(permits, edge{b, 1 - i})
							}
						}
					}
					if path, reach := reachAfter(fn, nil, call, mkCut(permits), nil); reach {
						r.bad(key, p.Rel(call.Pos()), what, fmtPath("read reachable without passing a len() guard that rejects short input with an error: a truncated buffer panics", path))
					} else {
						r.ok(key, p.Rel(call.Pos()), what)
					}
				})
			}
			return nil
		},
	})

	register(&Rule{
		ID: "C17-c", Template: "guarded constant index",
		Doc: "In the hostile-reachable set, indexing a slice returned by a call (a decoded collection) with a constant k is reachable only through an edge on which len(slice) > k is known: a received block with zero rows must be rejected, not indexed.",
		Min: 1,
		Run: func(p *Program, r *RuleResult) error {
			H, _, err := hostileReachable(p)
			if err != nil {
				return err
			}
			r.Analysed = len(H)
			for _, fn := range sortedFuncs(H) {
				n := 0
				for _, b := range fn.Blocks {
					for _, in := range b.Instrs {
						ia, ok := in.(*ssa.IndexAddr)
						if !ok {
							continue
						}
						k, isConst := constInt(ia.Index)
						if !isConst {
							continue
						}
						if _, isSlice := ia.X.Type().Underlying().(*types.Slice); !isSlice {
							continue
						}
						// slice must come from a call result (possibly through φ / local cell)
						fromCall := false
						for x := range backward(ia.X, func(v ssa.Value) bool {
							switch v.(type) {
							case *ssa.Phi, *ssa.Extract, *ssa.UnOp, *ssa.ChangeType:
								return true
							}
							return false
						}) {
							if c, ok := x.(*ssa.Call); ok {
								if _, isBuiltin := c.Call.Value.(*ssa.Builtin); !isBuiltin {
									fromCall = true
								}
							}
						}
						if !fromCall {
							continue
						}
						key := fmt.Sprintf("%s|%s[%d]#%d", funcName(fn), shortType(ia.X.Type()), k, n)
						n++
						what := "constant index into a decoded collection is guarded by its length"
						var permits []edge
						for _, bb := range fn.Blocks {
							if len(bb.Instrs) == 0 {
								continue
							}
							ifi, ok := bb.Instrs[len(bb.Instrs)-1].(*ssa.If)
							if !ok {
								continue
							}
							bo, ok := ifi.Cond.(*ssa.BinOp)
							if !ok {
								continue
							}
							var c int64
							var op token.Token
							if x, okx := lenOperand(bo.X); okx && sameObject(x, ia.X) {
								cc, okc := constInt(stripConv(bo.Y))
								if !okc {
									continue
								}
								c, op = cc, bo.Op
							} else if y, oky := lenOperand(bo.Y); oky && sameObject(y, ia.X) {
								cc, okc := constInt(stripConv(bo.X))
								if !okc {
									continue
								}
								c = cc
								switch bo.Op {
								case token.LSS:
									op = token.GTR
								case token.LEQ:
									op = token.GEQ
								case token.GTR:
									op = token.LSS
								case token.GEQ:
									op = token.LEQ
								default:
									op = bo.Op
								}
							} else {
								continue
							}
							switch op {
							case token.EQL:
								if c == 0 && k == 0 {
									permits = append(permits, edge{bb, 1})
								}
								if c > k {
									permits = append(permits, edge{bb, 0})
								}
							case token.NEQ:
								if c == 0 && k == 0 {
									permits = append(permits, edge{bb, 0})
								}
								if c > k {
									permits = append(permits, edge{bb, 1})
								}
							case token.GTR:
								if c >= k {
									permits = append(permits, edge{bb, 0})
								}
							case token.GEQ:
								if c > k {
									permits = append(permits, edge{bb, 0})
								}
							case token.LSS:
								if c > k {
									permits = append(permits, edge{bb, 1})
								}
							case token.LEQ:
								if c >= k {
									permits = append(permits, edge{bb, 1})
								}
							}
						}
						// range loops over the slice bound the index by construction: a constant index
						// inside `for range x` is still a constant index, so only explicit tests count
						if path, reach := reachAfter(fn, nil, ia, mkCut(permits), nil); reach {
							r.bad(key, p.Rel(ia.Pos()), what, fmtPath(fmt.Sprintf("element %d accessed without a test that the collection has more than %d elements", k, k), path))
						} else {
							r.ok(key, p.Rel(ia.Pos()), what)
						}
					}
				}
			}
			return nil
		},
	})

	register(&Rule{
		ID: "C17-d", Template: "nil-before-error-check",
		Doc: "For every function of pkg/objects and pkg/encoding/... that can return a nil pointer together with a non-nil error, no production caller dereferences that result on a path that has not passed the err == nil edge.",
		Min: 5,
		Run: func(p *Program, r *RuleResult) error {
			// summaries: functions returning (ptr at index i, ..., error) with a return where ptr is nil and error non-nil
			type sum struct{ ptrIdx []int }
			sums := map[*ssa.Function]sum{}
			for _, fn := range p.ProdFuncs() {
				pk := fnPkgPath(fn)
				if pk != modPath+"/pkg/objects" && !hasPrefix(pk, modPath+"/pkg/encoding") {
					continue
				}
				ei := errorResultIndex(fn.Signature)
				if ei < 0 || fn.Parent() != nil {
					continue
				}
				var idx []int
				for i := 0; i < fn.Signature.Results().Len(); i++ {
					if _, isPtr := fn.Signature.Results().At(i).Type().Underlying().(*types.Pointer); !isPtr {
						continue
					}
					for _, ret := range returnsOf(fn) {
						pv, ev := retVal(ret, i), retVal(ret, ei)
						if pv == nil || ev == nil {
							continue
						}
						if maybeNil(pv) && !isNilConst(ev) {
							idx = append(idx, i)
							break
						}
					}
				}
				if len(idx) > 0 {
					sums[fn] = sum{idx}
				}
			}
			r.note("%d functions can return a nil pointer together with an error", len(sums))
			fns := p.ProdFuncs()
			r.Analysed = len(fns)
			for _, fn := range fns {
				eachCall(fn, func(ci ssa.CallInstruction) {
					call, ok := ci.(*ssa.Call)
					if !ok {
						return
					}
					sc := call.Call.StaticCallee()
					if sc == nil {
						return
					}
					s, ok := sums[sc]
					if !ok {
						return
					}
					cut := mkCut(successEdges(fn, call))
					for _, pi := range s.ptrIdx {
						var pv ssa.Value
						for _, ref := range *call.Referrers() {
							if ex, ok := ref.(*ssa.Extract); ok && ex.Index == pi {
								pv = ex
							}
						}
						if pv == nil {
							continue
						}
						key := fmt.Sprintf("%s#r%d", callKey(fn, call), pi)
						what := "pointer result of " + funcName(sc) + " is dereferenced only after its error was found nil"
						fw := forward([]ssa.Value{pv}, fwdOpts{noBinOp: true})
						bad := false
						for v := range fw {
							if v.Referrers() == nil {
								continue
							}
							for _, ref := range *v.Referrers() {
								deref := false
								switch x := ref.(type) {
								case *ssa.FieldAddr:
									deref = x.X == v
								case *ssa.UnOp:
									deref = x.Op == token.MUL && x.X == v
								case *ssa.IndexAddr:
									deref = x.X == v
								}
								if !deref {
									continue
								}
								if path, reach := reachAfter(fn, call, ref, cut, nil); reach {
									r.bad(key, p.Rel(ref.Pos()), what, fmtPath("dereference reachable without passing the err == nil edge: a decode error crashes the caller", path))
									bad = true
								}
								if bad {
									break
								}
							}
							if bad {
								break
							}
						}
						if !bad {
							r.ok(key, p.Rel(call.Pos()), what)
						}
					}
				})
			}
			return nil
		},
	})
}

func hasPrefix(s, pre string) bool { return len(s) >= len(pre) && s[:len(pre)] == pre }

// maybeNil: the pointer value can be nil (nil constant, or φ/cell with a nil edge).
func maybeNil(v ssa.Value) bool {
	switch x := v.(type) {
	case *ssa.Const:
		return x.Value == nil
	case *ssa.Phi:
		for _, e := range x.Edges {
			if maybeNil(e) {
				return true
			}
		}
	case *ssa.UnOp:
		if x.Op == token.MUL {
			if al, ok := x.X.(*ssa.Alloc); ok {
				// named result: zero value unless stored
				stores := 0
				for _, ref := range *al.Referrers() {
					if st, ok := ref.(*ssa.Store); ok && st.Addr == al {
						stores++
						if maybeNil(st.Val) {
							return true
						}
					}
				}
				return stores == 0
			}
		}
	}
	return false
}
