package main

import (
	"fmt"
	"go/token"
	"go/types"

	"golang.org/x/tools/go/ssa"
)

// leadsToErrorReturn: the block (following single-successor chains) ends in a
// Return whose error result is definitely non-nil.
func leadsToErrorReturn(fn *ssa.Function, b *ssa.BasicBlock) bool {
	ei := errorResultIndex(fn.Signature)
	if ei < 0 {
		return false
	}
	seen := map[*ssa.BasicBlock]bool{}
	for b != nil && !seen[b] {
		seen[b] = true
		if len(b.Instrs) == 0 {
			return false
		}
		switch t := b.Instrs[len(b.Instrs)-1].(type) {
		case *ssa.Return:
			v := retVal(t, ei)
			return v != nil && (definitelyNonNilError(v) || nonNilByGuard(fn, t, v))
		case *ssa.Jump:
			b = b.Succs[0]
		case *ssa.Panic:
			return false
		default:
			return false
		}
	}
	return false
}

// baseSlice: the slice value a (re)slice expression is taken from.
func baseSlice(v ssa.Value) ssa.Value {
	for {
		switch x := v.(type) {
		case *ssa.Slice:
			v = x.X
		case *ssa.ChangeType:
			v = x.X
		case *ssa.Convert:
			v = x.X
		default:
			return v
		}
	}
}

func init() {
	register(&Rule{
		ID: "C17-b", Template: "guarded fixed-width read",
		Doc: "In the hostile-reachable set, in functions that return an error, a binary.BigEndian.UintN read from a parameter byte slice (or a reslice of one) is reachable only through the passing edge of a test that relates len() of that slice to an offset and whose other edge returns an error. Decides presence of a relevant guard, not its arithmetic.",
		Min: 3,
		Run: func(p *Program, r *RuleResult) error {
			H, _, err := hostileReachable(p)
			if err != nil {
				return err
			}
			r.Analysed = len(H)
			for _, fn := range sortedFuncs(H) {
				if errorResultIndex(fn.Signature) < 0 {
					continue
				}
				n := 0
				eachCall(fn, func(ci ssa.CallInstruction) {
					call, ok := ci.(*ssa.Call)
					if !ok {
						return
					}
					f := calleeFunc(call)
					if f == nil || f.Pkg() == nil || f.Pkg().Path() != "encoding/binary" {
						return
					}
					switch f.Name() {
					case "Uint16", "Uint32", "Uint64":
					default:
						return
					}
					args := call.Call.Args
					buf := args[len(args)-1]
					base := baseSlice(buf)
					par, isPar := base.(*ssa.Parameter)
					if !isPar {
						return
					}
					key := fmt.Sprintf("%s|binary.%s(%s…)#%d", funcName(fn), f.Name(), par.Name(), n)
					n++
					what := "fixed-width read from a caller-supplied slice is length-guarded"
					// values holding len(par)
					lens := map[ssa.Value]bool{}
					for _, b := range fn.Blocks {
						for _, in := range b.Instrs {
							if c2, ok := in.(*ssa.Call); ok {
								if bi, ok := c2.Call.Value.(*ssa.Builtin); ok && bi.Name() == "len" && len(c2.Call.Args) == 1 && baseSlice(c2.Call.Args[0]) == par {
									lens[c2] = true
								}
							}
						}
					}
					var seeds []ssa.Value
					for v := range lens {
						seeds = append(seeds, v)
					}
					lenDerived := forward(seeds, fwdOpts{noBinOp: true})
					// the offset the read starts at: the guard must mention it (or be a constant test for offset 0)
					var offDerived map[ssa.Value]bool
					if sl, ok := buf.(*ssa.Slice); ok && sl.Low != nil {
						if _, isConst := sl.Low.(*ssa.Const); !isConst {
							offDerived = forward([]ssa.Value{sl.Low}, fwdOpts{})
							offDerived[sl.Low] = true
						}
					}
					var permits []edge
					for _, b := range fn.Blocks {
						if len(b.Instrs) == 0 {
							continue
						}
						ifi, ok := b.Instrs[len(b.Instrs)-1].(*ssa.If)
						if !ok {
							continue
						}
						bo, ok := ifi.Cond.(*ssa.BinOp)
						if !ok {
							continue
						}
						switch bo.Op {
						case token.LSS, token.LEQ, token.GTR, token.GEQ:
						default:
							continue
						}
						var other ssa.Value
						switch {
						case lenDerived[bo.X] || lenDerived[stripConv(bo.X)]:
							other = bo.Y
						case lenDerived[bo.Y] || lenDerived[stripConv(bo.Y)]:
							other = bo.X
						default:
							// len(b) - off  OP  k
							if sub, ok := stripConv(bo.X).(*ssa.BinOp); ok && sub.Op == token.SUB && lenDerived[sub.X] {
								other = sub.Y
							} else if sub, ok := stripConv(bo.Y).(*ssa.BinOp); ok && sub.Op == token.SUB && lenDerived[sub.X] {
								other = sub.Y
							} else {
								continue
							}
						}
						if offDerived != nil {
							if !offDerived[other] && !offDerived[stripConv(other)] {
								continue // the guard does not relate the length to the offset of this read
							}
						}
						for i, s := range b.Succs {
							if leadsToErrorReturn(fn, s) {
								permits = append(permits, edge{b, 1 - i})
							}
						}
					}
					if path, reach := reachAfter(fn, nil, call, mkCut(permits), nil); reach {
						r.bad(key, p.Rel(call.Pos()), what, fmtPath("read reachable without passing a len() guard that rejects short input with an error: a truncated buffer panics", path))
					} else {
						r.ok(key, p.Rel(call.Pos()), what)
					}
				})
			}
			return nil
		},
	})

	register(&Rule{
		ID: "C17-c", Template: "guarded constant index",
		Doc: "In the hostile-reachable set, indexing a slice returned by a call (a decoded collection) with a constant k is reachable only through an edge on which len(slice) > k is known: a received block with zero rows must be rejected, not indexed.",
		Min: 1,
		Run: func(p *Program, r *RuleResult) error {
			H, _, err := hostileReachable(p)
			if err != nil {
				return err
			}
			r.Analysed = len(H)
			viaFilter := func(v ssa.Value) bool {
				switch v.(type) {
				case *ssa.Phi, *ssa.Extract, *ssa.UnOp, *ssa.ChangeType:
					return true
				}
				return false
			}
			isFromCall := func(x ssa.Value) bool {
				for y := range backward(x, viaFilter) {
					if c, ok := y.(*ssa.Call); ok {
						if _, isBuiltin := c.Call.Value.(*ssa.Builtin); !isBuiltin {
							return true
						}
					}
				}
				return false
			}
			// for the helper form only a collection produced by a decoder of the repository counts
			// (pkg/objects, pkg/encoding/...): sorted statistics and the like are not input
			isFromDecoder := func(x ssa.Value) bool {
				for y := range backward(x, viaFilter) {
					if c, ok := y.(*ssa.Call); ok {
						if sc := c.Call.StaticCallee(); sc != nil {
							if pk := fnPkgPath(sc); pk == modPath+"/pkg/objects" || hasPrefix(pk, modPath+"/pkg/encoding") {
								return true
							}
						}
					}
				}
				return false
			}
			// permitsFor: edges of fn on which len(x) > k is known (explicit tests, validating helpers)
			permitsFor := func(fn *ssa.Function, x ssa.Value, k int64) []edge {
				permits := lenGuardEdges(fn, x, k)
				eachCall(fn, func(hc ssa.CallInstruction) {
					call, ok := hc.(*ssa.Call)
					if !ok {
						return
					}
					h := call.Call.StaticCallee()
					if h == nil || len(h.Blocks) == 0 || fnPkgPath(h) != fnPkgPath(fn) || errorResultIndex(h.Signature) < 0 {
						return
					}
					for ai, a := range call.Call.Args {
						if ai < len(h.Params) && sameObject(a, x) && longerThanOnSuccess(h, ai, k) {
							permits = append(permits, successEdges(fn, call)...)
						}
					}
				})
				return permits
			}
			for _, fn := range sortedFuncs(H) {
				n := 0
				for _, b := range fn.Blocks {
					for _, in := range b.Instrs {
						ia, ok := in.(*ssa.IndexAddr)
						if !ok {
							continue
						}
						k, isConst := constInt(ia.Index)
						if !isConst {
							continue
						}
						if _, isSlice := ia.X.Type().Underlying().(*types.Slice); !isSlice {
							continue
						}
						what := "constant index into a decoded collection is guarded by its length"
						// slice must come from a call result (possibly through φ / local cell) …
						if isFromCall(ia.X) {
							key := fmt.Sprintf("%s|%s[%d]#%d", funcName(fn), shortType(ia.X.Type()), k, n)
							n++
							// range loops over the slice bound the index by construction: a constant index
							// inside `for range x` is still a constant index, so only explicit tests count
							if path, reach := reachAfter(fn, nil, ia, mkCut(permitsFor(fn, ia.X, k)), nil); reach {
								r.bad(key, p.Rel(ia.Pos()), what, fmtPath(fmt.Sprintf("element %d accessed without a test that the collection has more than %d elements", k, k), path))
							} else {
								r.ok(key, p.Rel(ia.Pos()), what)
							}
							continue
						}
						// … or be a parameter of a helper that callers of the package hand a decoded
						// collection (round 7, refactoring N1-r8): the test may sit in the helper or,
						// before the call, in the caller
						pi := -1
						for y := range backward(ia.X, viaFilter) {
							if prm, ok := y.(*ssa.Parameter); ok {
								for i, q := range fn.Params {
									if q == prm {
										pi = i
									}
								}
							}
						}
						if pi < 0 {
							continue
						}
						if _, reach := reachAfter(fn, nil, ia, mkCut(permitsFor(fn, ia.X, k)), nil); !reach {
							continue // guarded inside the helper, whoever calls it
						}
						for _, g := range sortedFuncs(H) {
							if fnPkgPath(g) != fnPkgPath(fn) {
								continue
							}
							eachCall(g, func(c ssa.CallInstruction) {
								if c.Common().StaticCallee() != fn || pi >= len(c.Common().Args) {
									return
								}
								arg := c.Common().Args[pi]
								if !isFromDecoder(arg) {
									return
								}
								key := fmt.Sprintf("%s|%s[%d] in %s", callKey(g, c), shortType(ia.X.Type()), k, funcName(fn))
								if path, reach := reachAfter(g, nil, c, mkCut(permitsFor(g, arg, k)), nil); reach {
									r.bad(key, p.Rel(c.Pos()), what, fmtPath(fmt.Sprintf("%s accesses element %d of the collection it is handed here, and neither it nor this caller tests that the collection has more than %d elements", funcName(fn), k, k), path))
								} else {
									r.ok(key, p.Rel(c.Pos()), what)
								}
							})
						}
					}
				}
			}
			return nil
		},
	})

	register(&Rule{
		ID: "C17-d", Template: "nil-before-error-check",
		Doc: "For every function of pkg/objects and pkg/encoding/... that can return a nil pointer together with a non-nil error, no production caller dereferences that result on a path that has not passed the err == nil edge.",
		Min: 5,
		Run: func(p *Program, r *RuleResult) error {
			// summaries: functions returning (ptr at index i, ..., error) with a return where ptr is nil and error non-nil
			type sum struct{ ptrIdx []int }
			sums := map[*ssa.Function]sum{}
			for _, fn := range p.ProdFuncs() {
				pk := fnPkgPath(fn)
				if pk != modPath+"/pkg/objects" && !hasPrefix(pk, modPath+"/pkg/encoding") {
					continue
				}
				ei := errorResultIndex(fn.Signature)
				if ei < 0 || fn.Parent() != nil {
					continue
				}
				var idx []int
				for i := 0; i < fn.Signature.Results().Len(); i++ {
					if _, isPtr := fn.Signature.Results().At(i).Type().Underlying().(*types.Pointer); !isPtr {
						continue
					}
					for _, ret := range returnsOf(fn) {
						pv, ev := retVal(ret, i), retVal(ret, ei)
						if pv == nil || ev == nil {
							continue
						}
						if maybeNil(pv) && !isNilConst(ev) {
							idx = append(idx, i)
							break
						}
					}
				}
				if len(idx) > 0 {
					sums[fn] = sum{idx}
				}
			}
			r.note("%d functions can return a nil pointer together with an error", len(sums))
			fns := p.ProdFuncs()
			r.Analysed = len(fns)
			for _, fn := range fns {
				eachCall(fn, func(ci ssa.CallInstruction) {
					call, ok := ci.(*ssa.Call)
					if !ok {
						return
					}
					sc := call.Call.StaticCallee()
					if sc == nil {
						return
					}
					s, ok := sums[sc]
					if !ok {
						return
					}
					cut := mkCut(successEdges(fn, call))
					for _, pi := range s.ptrIdx {
						var pv ssa.Value
						for _, ref := range *call.Referrers() {
							if ex, ok := ref.(*ssa.Extract); ok && ex.Index == pi {
								pv = ex
							}
						}
						if pv == nil {
							continue
						}
						key := fmt.Sprintf("%s#r%d", callKey(fn, call), pi)
						what := "pointer result of " + funcName(sc) + " is dereferenced only after its error was found nil"
						fw := forward([]ssa.Value{pv}, fwdOpts{noBinOp: true})
						bad := false
						for v := range fw {
							if v.Referrers() == nil {
								continue
							}
							for _, ref := range *v.Referrers() {
								deref := false
								switch x := ref.(type) {
								case *ssa.FieldAddr:
									deref = x.X == v
								case *ssa.UnOp:
									deref = x.Op == token.MUL && x.X == v
								case *ssa.IndexAddr:
									deref = x.X == v
								}
								if !deref {
									continue
								}
								if path, reach := reachAfter(fn, call, ref, cut, nil); reach {
									r.bad(key, p.Rel(ref.Pos()), what, fmtPath("dereference reachable without passing the err == nil edge: a decode error crashes the caller", path))
									bad = true
								}
								if bad {
									break
								}
							}
							if bad {
								break
							}
						}
						if !bad {
							r.ok(key, p.Rel(call.Pos()), what)
						}
					}
				})
			}
			return nil
		},
	})
}

func hasPrefix(s, pre string) bool { return len(s) >= len(pre) && s[:len(pre)] == pre }

// maybeNil: the pointer value can be nil (nil constant, or φ/cell with a nil edge).
func maybeNil(v ssa.Value) bool {
	switch x := v.(type) {
	case *ssa.Const:
		return x.Value == nil
	case *ssa.Phi:
		for _, e := range x.Edges {
			if maybeNil(e) {
				return true
			}
		}
	case *ssa.UnOp:
		if x.Op == token.MUL {
			if al, ok := x.X.(*ssa.Alloc); ok {
				// named result: zero value unless stored
				stores := 0
				for _, ref := range *al.Referrers() {
					if st, ok := ref.(*ssa.Store); ok && st.Addr == al {
						stores++
						if maybeNil(st.Val) {
							return true
						}
					}
				}
				return stores == 0
			}
		}
	}
	return false
}

func isEOFTestOn(fn *ssa.Function, errVals map[ssa.Value]bool) []edge {
	// edges on which the error is known NOT to be io.EOF: false edge of errors.Is(err, io.EOF) / err == io.EOF
	var tests []ssa.Value
	eachCall(fn, func(c ssa.CallInstruction) {
		if f := calleeFunc(c); f != nil && f.FullName() == "errors.Is" && len(c.Common().Args) == 2 && isGlobalNamed(c.Common().Args[1], "io", "EOF") && errVals[c.Common().Args[0]] {
			if v, ok := c.(*ssa.Call); ok {
				tests = append(tests, v)
			}
		}
	})
	for _, b := range fn.Blocks {
		for _, in := range b.Instrs {
			if bo, ok := in.(*ssa.BinOp); ok && bo.Op == token.EQL {
				if (errVals[bo.X] && isGlobalNamed(bo.Y, "io", "EOF")) || (errVals[bo.Y] && isGlobalNamed(bo.X, "io", "EOF")) {
					tests = append(tests, bo)
				}
			}
		}
	}
	return boolEdges(fn, forward(tests, fwdOpts{noBinOp: true}), false)
}

func init() {
	register(&Rule{
		ID: "C17-e", Template: "error discipline (truncation is not a clean end of input)",
		Doc: "A truncated object is reported as an error, never as io.EOF: in pkg/objects every return that passes on the error of objline.ReadField unchanged lies behind the 'not io.EOF' edge of a test of that error (io.EOF there means 'input ended at a field boundary'), unless every production caller of the function converts io.EOF itself. History walkers (prune, ancestry, negotiation) read io.EOF as 'frontier exhausted', so a commit object cut at a field boundary would otherwise silently end the walk and prune would delete the healthy history behind it.",
		Min: 3,
		Run: func(p *Program, r *RuleResult) error {
			rf, err := p.MustFuncs("pkg/encoding/objline.ReadField")
			if err != nil {
				return err
			}
			fns := p.FuncsInPkg("pkg/objects")
			r.Analysed = len(fns)
			for _, fn := range fns {
				ei := errorResultIndex(fn.Signature)
				if ei < 0 {
					continue
				}
				for _, ci := range callsTo(fn, rf) {
					call, ok := ci.(*ssa.Call)
					if !ok {
						continue
					}
					vals := errValuesOfCall(call)
					key := callKey(fn, ci)
					what := "ReadField's io.EOF (input ended at a field boundary) is not returned as this object's error"
					notEOF := mkCut(isEOFTestOn(fn, vals))
					bad := false
					for _, ret := range returnsOf(fn) {
						v := retVal(ret, ei)
						if v == nil || !vals[v] {
							continue
						}
						path, reach := rawErrorReaches(fn, call, ret, v, vals, notEOF)
						if reach {
							// exempt when every production caller converts EOF
							root := fn
							for root.Parent() != nil {
								root = root.Parent()
							}
							if callersConvertEOF(p, root) {
								continue
							}
							r.bad(key, p.Rel(ret.Pos()), what, fmtPath("the raw error (possibly io.EOF) of ReadField is returned", path))
							bad = true
							break
						}
					}
					if !bad {
						r.ok(key, p.Rel(ci.Pos()), what)
					}
				}
			}
			return nil
		},
	})
}

// callersConvertEOF: every production caller of fn tests fn's error against io.EOF.
func callersConvertEOF(p *Program, fn *ssa.Function) bool {
	n := p.CG.Nodes[fn]
	if n == nil {
		return false
	}
	found := false
	for _, e := range n.In {
		if e.Site == nil || !p.IsProd(e.Caller.Func) {
			continue
		}
		call, ok := e.Site.(*ssa.Call)
		if !ok {
			return false
		}
		found = true
		vals := errValuesOfCall(call)
		if vals == nil || len(isEOFTestOn(e.Caller.Func, vals)) == 0 {
			return false
		}
	}
	return found
}

// rawErrorReaches: can the unchanged error of `call` be what `ret` returns, on a path
// that has not excluded io.EOF? φ operands are examined edge by edge, so that
// `if errors.Is(err, io.EOF) { err = other }` is recognised as a conversion.
func rawErrorReaches(fn *ssa.Function, call *ssa.Call, ret *ssa.Return, v ssa.Value, vals map[ssa.Value]bool, notEOF cutSet) ([]int, bool) {
	if ph, ok := v.(*ssa.Phi); ok {
		for k, e := range ph.Edges {
			if !vals[e] {
				continue
			}
			pred := ph.Block().Preds[k]
			// the edge pred → φ block must itself not be a not-EOF edge
			cutEdge := false
			for i, s := range pred.Succs {
				if s == ph.Block() && notEOF[edge{pred, i}] {
					cutEdge = true
				}
			}
			if cutEdge || len(pred.Instrs) == 0 {
				continue
			}
			if inner, isPhi := e.(*ssa.Phi); isPhi && inner != ph {
				if path, reach := rawErrorReaches(fn, call, ret, inner, vals, notEOF); reach {
					return path, true
				}
				continue
			}
			if path, reach := reachAfter(fn, call, pred.Instrs[len(pred.Instrs)-1], notEOF, nil); reach {
				return path, true
			}
		}
		return nil, false
	}
	return reachAfter(fn, call, ret, notEOF, nil)
}

// lenGuardEdges: the edges of fn on which len(obj) > k is known from a comparison of
// len(obj) with a constant.
func lenGuardEdges(fn *ssa.Function, obj ssa.Value, k int64) []edge {
	var permits []edge
	for _, bb := range fn.Blocks {
		if len(bb.Instrs) == 0 {
			continue
		}
		ifi, ok := bb.Instrs[len(bb.Instrs)-1].(*ssa.If)
		if !ok {
			continue
		}
		bo, ok := ifi.Cond.(*ssa.BinOp)
		if !ok {
			continue
		}
		var c int64
		var op token.Token
		if x, okx := lenOperand(bo.X); okx && sameObject(x, obj) {
			cc, okc := constInt(stripConv(bo.Y))
			if !okc {
				continue
			}
			c, op = cc, bo.Op
		} else if y, oky := lenOperand(bo.Y); oky && sameObject(y, obj) {
			cc, okc := constInt(stripConv(bo.X))
			if !okc {
				continue
			}
			c = cc
			switch bo.Op {
			case token.LSS:
				op = token.GTR
			case token.LEQ:
				op = token.GEQ
			case token.GTR:
				op = token.LSS
			case token.GEQ:
				op = token.LEQ
			default:
				op = bo.Op
			}
		} else {
			continue
		}
		switch op {
		case token.EQL:
			if c == 0 && k == 0 {
				permits = append(permits, edge{bb, 1})
			}
			if c > k {
				permits = append(permits, edge{bb, 0})
			}
		case token.NEQ:
			if c == 0 && k == 0 {
				permits = append(permits, edge{bb, 0})
			}
			if c > k {
				permits = append(permits, edge{bb, 1})
			}
		case token.GTR:
			if c >= k {
				permits = append(permits, edge{bb, 0})
			}
		case token.GEQ:
			if c > k {
				permits = append(permits, edge{bb, 0})
			}
		case token.LSS:
			if c > k {
				permits = append(permits, edge{bb, 1})
			}
		case token.LEQ:
			if c >= k {
				permits = append(permits, edge{bb, 1})
			}
		}
	}
	return permits
}

// longerThanOnSuccess: every successful return of the helper h is reachable only
// through an edge on which len(parameter i) > k is known.
func longerThanOnSuccess(h *ssa.Function, i int, k int64) bool {
	if i >= len(h.Params) {
		return false
	}
	permits := lenGuardEdges(h, h.Params[i], k)
	if len(permits) == 0 {
		return false
	}
	ei := errorResultIndex(h.Signature)
	n := 0
	for _, ret := range returnsOf(h) {
		if v := retVal(ret, ei); v != nil && (definitelyNonNilError(v) || nonNilByGuard(h, ret, v)) {
			continue
		}
		n++
		if _, reach := reachAfter(h, nil, ret, mkCut(permits), nil); reach {
			return false
		}
	}
	return n > 0
}
