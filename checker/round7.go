package main

// Rules added after red-team round 7.

import (
	"fmt"
	"go/token"
	"go/types"
	"sort"

	"golang.org/x/tools/go/ssa"
)

// rootMake follows φs, re-slicings and type changes back to the make([]T, n) a slice value
// comes from; nil when the value has several origins or another kind of origin.
func rootMake(v ssa.Value) *ssa.MakeSlice {
	m, _ := rootStorage(v).(*ssa.MakeSlice)
	return m
}

// rootStorage: the make([]T, n) — or, for a constant size, the array allocation go/ssa lowers
// it to — that a slice value comes from; nil when there are several origins or another kind.
func rootStorage(v ssa.Value) ssa.Value {
	seen := map[ssa.Value]bool{}
	var root ssa.Value
	ok := true
	var walk func(v ssa.Value)
	walk = func(v ssa.Value) {
		if !ok || seen[v] {
			return
		}
		seen[v] = true
		switch x := v.(type) {
		case *ssa.MakeSlice:
			if root != nil && root != ssa.Value(x) {
				ok = false
			}
			root = x
		case *ssa.Alloc:
			if _, isArr := x.Type().Underlying().(*types.Pointer).Elem().Underlying().(*types.Array); !isArr {
				ok = false
				return
			}
			if root != nil && root != ssa.Value(x) {
				ok = false
			}
			root = x
		case *ssa.Phi:
			for _, e := range x.Edges {
				walk(e)
			}
		case *ssa.Slice:
			walk(x.X)
		case *ssa.ChangeType:
			walk(x.X)
		case *ssa.Call:
			// append(x[:j], x[j+1:]...) keeps the origin of its first argument
			if bi, isB := x.Call.Value.(*ssa.Builtin); isB && bi.Name() == "append" && len(x.Call.Args) > 0 {
				walk(x.Call.Args[0])
			} else {
				ok = false
			}
		default:
			ok = false
		}
	}
	walk(v)
	if !ok {
		return nil
	}
	return root
}

// isLenMinusOne: v is len(x) - 1 for some x.
func isLenMinusOne(v ssa.Value) bool {
	bo, ok := v.(*ssa.BinOp)
	if !ok || bo.Op != token.SUB {
		return false
	}
	if c, ok := constInt(bo.Y); !ok || c != 1 {
		return false
	}
	return lenOf(bo.X) != nil
}

func init() {
	register(&Rule{
		ID: "C11-f", Template: "T10 agreement (parallel slices are compacted together)",
		Doc: "Slices that are made with one length and addressed with one index describe the same items position by position (SeekCommonAncestor: one frontier and one current base per input). When an element is removed from one of them — x = x[:len(x)-1] after a copy, or append(x[:j], x[j+1:]...) — every other slice of the group that is read or written under the same index is compacted in the same basic block. A member that stays behind shifts against the others: the frontier of one input is paired with the state of another (a live frontier inherits an 'exhausted' flag, a base is compared with the wrong queue). Checked in every production function; groups are formed from make([]T, n) calls that share the length value n.",
		Min: 0,
		Run: func(p *Program, r *RuleResult) error {
			if _, err := p.SSAFunc("pkg/ref.SeekCommonAncestor"); err != nil {
				return err
			}
			fns := p.ProdFuncs()
			r.Analysed = len(fns)
			for _, fn := range fns {
				var makes []*ssa.MakeSlice
				for _, b := range fn.Blocks {
					for _, in := range b.Instrs {
						if m, ok := in.(*ssa.MakeSlice); ok {
							if _, isConst := m.Len.(*ssa.Const); !isConst {
								makes = append(makes, m)
							}
						}
					}
				}
				if len(makes) < 2 {
					continue
				}
				// shrink events and index uses per make
				shrinks := map[*ssa.MakeSlice]map[*ssa.BasicBlock]bool{}
				idxUse := map[*ssa.MakeSlice]map[ssa.Value]bool{}
				noteShrink := func(m *ssa.MakeSlice, b *ssa.BasicBlock) {
					if m == nil {
						return
					}
					if shrinks[m] == nil {
						shrinks[m] = map[*ssa.BasicBlock]bool{}
					}
					shrinks[m][b] = true
				}
				for _, b := range fn.Blocks {
					for _, in := range b.Instrs {
						switch x := in.(type) {
						case *ssa.Slice:
							if x.Low == nil && x.High != nil && isLenMinusOne(x.High) {
								noteShrink(rootMake(x.X), b)
							}
						case *ssa.Call:
							if bi, ok := x.Call.Value.(*ssa.Builtin); ok && bi.Name() == "append" && len(x.Call.Args) == 2 {
								s0, ok0 := x.Call.Args[0].(*ssa.Slice)
								s1, ok1 := x.Call.Args[1].(*ssa.Slice)
								if ok0 && ok1 && s0.High != nil && s1.Low != nil && s1.High == nil {
									if m := rootMake(s0.X); m != nil && m == rootMake(s1.X) {
										noteShrink(m, b)
									}
								}
							}
						case *ssa.IndexAddr:
							if m := rootMake(x.X); m != nil {
								if _, isConst := x.Index.(*ssa.Const); !isConst {
									if idxUse[m] == nil {
										idxUse[m] = map[ssa.Value]bool{}
									}
									idxUse[m][x.Index] = true
								}
							}
						}
					}
				}
				if len(shrinks) == 0 {
					continue
				}
				ord := map[*ssa.MakeSlice]int{}
				for i, m := range makes {
					ord[m] = i
				}
				for _, x := range makes {
					if len(shrinks[x]) == 0 {
						continue
					}
					for _, y := range makes {
						if y == x || y.Len != x.Len {
							continue
						}
						co := false
						for i := range idxUse[x] {
							if idxUse[y][i] {
								co = true
							}
						}
						if !co {
							continue
						}
						key := fmt.Sprintf("%s|make#%d~make#%d", funcName(fn), ord[x], ord[y])
						what := "slices of one length addressed with one index lose their elements together"
						bad := ""
						var bs []*ssa.BasicBlock
						for b := range shrinks[x] {
							bs = append(bs, b)
						}
						sort.Slice(bs, func(i, j int) bool { return bs[i].Index < bs[j].Index })
						for _, b := range bs {
							if !shrinks[y][b] {
								bad = fmt.Sprintf("block %d removes an element from the slice made at %s but not from the one made at %s, which is addressed with the same index", b.Index, p.Rel(x.Pos()), p.Rel(y.Pos()))
							}
						}
						if bad != "" {
							r.bad(key, p.Rel(y.Pos()), what, bad)
						} else {
							r.ok(key, p.Rel(y.Pos()), what)
						}
					}
				}
			}
			return nil
		},
	})

	register(&Rule{
		ID: "C11-g", Template: "T6 value flow (the walk starts at the commit itself)",
		Doc: "'A is an ancestor of B' includes A = B: in ref.IsAncestorOf the frontier that is then exhausted is seeded (NewCommitsQueue's initial commits) with one of the function's own commit parameters — put into the seed slice directly, through a literal, a store or append — or the two commit parameters are compared for equality. A walk seeded with the parents of B never visits B, so every reflexive query is answered 'no' (a push or fetch of an unchanged ref is then reported as non-fast-forward by callers that do not test equality themselves).",
		Min: 1,
		Run: func(p *Program, r *RuleResult) error {
			fn, err := p.SSAFunc("pkg/ref.IsAncestorOf")
			if err != nil {
				return err
			}
			ncq, err := p.MustFuncs("pkg/ref.NewCommitsQueue")
			if err != nil {
				return err
			}
			r.Analysed = 1
			isBytes := func(t types.Type) bool {
				s, ok := t.Underlying().(*types.Slice)
				if !ok {
					return false
				}
				b, ok := s.Elem().Underlying().(*types.Basic)
				return ok && b.Kind() == types.Byte
			}
			var prms []ssa.Value
			for _, prm := range fn.Params {
				if isBytes(prm.Type()) {
					prms = append(prms, prm)
				}
			}
			// containers that hold a commit parameter
			holds := map[ssa.Value]bool{}
			for _, v := range prms {
				holds[v] = true
			}
			for changed := true; changed; {
				changed = false
				mark := func(v ssa.Value) {
					if v != nil && !holds[v] {
						holds[v] = true
						changed = true
					}
				}
				for _, b := range fn.Blocks {
					for _, in := range b.Instrs {
						switch x := in.(type) {
						case *ssa.Store:
							if holds[x.Val] {
								if ia, ok := x.Addr.(*ssa.IndexAddr); ok {
									mark(ia.X)
								} else if al, ok := x.Addr.(*ssa.Alloc); ok {
									mark(al)
								}
							}
						case *ssa.Slice:
							if holds[x.X] {
								mark(x)
							}
						case *ssa.Phi:
							for _, e := range x.Edges {
								if holds[e] {
									mark(x)
								}
							}
						case *ssa.UnOp:
							if x.Op == token.MUL && holds[x.X] {
								mark(x)
							}
						case *ssa.Convert:
							if holds[x.X] {
								mark(x)
							}
						case *ssa.ChangeType:
							if holds[x.X] {
								mark(x)
							}
						case *ssa.Call:
							if bi, ok := x.Call.Value.(*ssa.Builtin); ok && bi.Name() == "append" {
								for _, a := range x.Call.Args {
									if holds[a] {
										mark(x)
									}
								}
							}
						}
					}
				}
			}
			// an explicit equality test of the two parameters is the other way to cover A = B
			eqTest := false
			isPrm := func(v ssa.Value) bool {
				v = stripConv(v)
				for _, q := range prms {
					if v == q {
						return true
					}
				}
				return false
			}
			for _, b := range fn.Blocks {
				for _, in := range b.Instrs {
					switch x := in.(type) {
					case *ssa.BinOp:
						if (x.Op == token.EQL || x.Op == token.NEQ) && isPrm(x.X) && isPrm(x.Y) && stripConv(x.X) != stripConv(x.Y) {
							eqTest = true
						}
					case *ssa.Call:
						if f := calleeFunc(x); f != nil && f.Pkg() != nil && f.Pkg().Path() == "bytes" && f.Name() == "Equal" && len(x.Call.Args) == 2 && isPrm(x.Call.Args[0]) && isPrm(x.Call.Args[1]) && stripConv(x.Call.Args[0]) != stripConv(x.Call.Args[1]) {
							eqTest = true
						}
					}
				}
			}
			calls := callsTo(fn, ncq)
			if len(calls) == 0 {
				r.note("IsAncestorOf builds no CommitsQueue itself; not judged (C11-b covers the negative answer)")
				r.okWhy(funcName(fn)+"|seed", p.Rel(fn.Pos()), "the walk starts at the commit itself", "no frontier is built in this function")
				return nil
			}
			for _, c := range calls {
				key := callKey(fn, c) + "|seed"
				what := "the walk starts at the commit itself"
				args := c.Common().Args
				seeded := false
				for _, a := range args {
					if holds[a] {
						seeded = true
					}
				}
				switch {
				case seeded:
					r.ok(key, p.Rel(c.Pos()), what)
				case eqTest:
					r.okWhy(key, p.Rel(c.Pos()), what, "the two commit parameters are compared for equality")
				default:
					r.bad(key, p.Rel(c.Pos()), what, "the frontier is seeded with values that contain neither commit parameter and the parameters are never compared: IsAncestorOf(x, x) is answered from x's parents only")
				}
			}
			return nil
		},
	})
}

// ---- C03: the key recorded for a block is the key of a row the block holds ----

// sliceOrigins resolves a slice value to the make() calls it comes from, following parameters
// to the static callers inside the package (depth 2).
type sliceOrigin struct {
	mk ssa.Value
	fn *ssa.Function
}

func sliceOrigins(p *Program, v ssa.Value, fn *ssa.Function, pkgFns []*ssa.Function, depth int) []sliceOrigin {
	if m := rootStorage(v); m != nil {
		return []sliceOrigin{{m, fn}}
	}
	// strip re-slicings down to a parameter
	for {
		if s, ok := v.(*ssa.Slice); ok {
			v = s.X
			continue
		}
		break
	}
	prm, ok := v.(*ssa.Parameter)
	if !ok || depth <= 0 {
		return nil
	}
	idx := -1
	for i, q := range fn.Params {
		if q == prm {
			idx = i
		}
	}
	if idx < 0 {
		return nil
	}
	var out []sliceOrigin
	for _, g := range pkgFns {
		eachCall(g, func(c ssa.CallInstruction) {
			if c.Common().StaticCallee() == fn && idx < len(c.Common().Args) {
				out = append(out, sliceOrigins(p, c.Common().Args[idx], g, pkgFns, depth-1)...)
			}
		})
	}
	return out
}

func init() {
	register(&Rule{
		ID: "C03-a", Template: "T4 permit-cut (a block's first key comes from a row it holds)",
		Doc: "The table index lists, per block, the key of its first row: in pkg/sorter, the slice that ends up in sorter.Block.PK (the key the inserter puts into the table index) is written only under the condition under which a row is added to the block's row list — the innermost test that guards the growth of the rows that go into Block.Block also guards every write of the remembered key. A key captured from a row that is then dropped (a duplicate of the previous block's last key arriving first) makes the table index point before the block's real first row, and the block-window search of diff and merge starts one block late.",
		Min: 1,
		Run: func(p *Program, r *RuleResult) error {
			blockT, err := p.NamedType("pkg/sorter.Block")
			if err != nil {
				return err
			}
			var all []*ssa.Function
			var addFn func(f *ssa.Function)
			seenF := map[*ssa.Function]bool{}
			addFn = func(f *ssa.Function) {
				if seenF[f] {
					return
				}
				seenF[f] = true
				all = append(all, f)
				for _, a := range f.AnonFuncs {
					addFn(a)
				}
			}
			for _, f := range p.FuncsInPkg("pkg/sorter") {
				addFn(f)
			}
			r.Analysed = len(all)
			type pair struct{ pk, rows sliceOrigin }
			seenPair := map[[2]ssa.Value]bool{}
			var pairs []pair
			for _, fn := range all {
				for _, b := range fn.Blocks {
					for _, in := range b.Instrs {
						al, ok := in.(*ssa.Alloc)
						if !ok {
							continue
						}
						pt, ok := al.Type().Underlying().(*types.Pointer)
						if !ok || !types.Identical(pt.Elem(), blockT) {
							continue
						}
						var vPK, vRows ssa.Value
						for _, ref := range *al.Referrers() {
							fa, ok := ref.(*ssa.FieldAddr)
							if !ok {
								continue
							}
							for _, r2 := range *fa.Referrers() {
								st, ok := r2.(*ssa.Store)
								if !ok || st.Addr != fa {
									continue
								}
								switch fieldNameOf(fa) {
								case "PK":
									vPK = st.Val
								case "Block":
									vRows = st.Val
								}
							}
						}
						if vPK == nil || vRows == nil {
							continue
						}
						// PK: a fresh make filled by copy(dst, src) → src
						if mk, ok := vPK.(*ssa.MakeSlice); ok {
							for _, b2 := range fn.Blocks {
								for _, in2 := range b2.Instrs {
									if c, ok := in2.(*ssa.Call); ok {
										if bi, ok := c.Call.Value.(*ssa.Builtin); ok && bi.Name() == "copy" && len(c.Call.Args) == 2 && (rootStorage(c.Call.Args[0]) == ssa.Value(mk) || loadsField(c.Call.Args[0], al, "PK")) {
											vPK = c.Call.Args[1]
										}
									}
								}
							}
						}
						// Block: result of a call that is handed the rows
						if c, ok := vRows.(*ssa.Call); ok {
							for _, a := range c.Call.Args {
								if s, ok := a.Type().Underlying().(*types.Slice); ok {
									if _, ok := s.Elem().Underlying().(*types.Slice); ok {
										vRows = a
										break
									}
								}
							}
						}
						for _, opk := range sliceOrigins(p, vPK, fn, all, 2) {
							for _, orw := range sliceOrigins(p, vRows, fn, all, 2) {
								if opk.fn != orw.fn || opk.mk == orw.mk {
									continue
								}
								k := [2]ssa.Value{opk.mk, orw.mk}
								if !seenPair[k] {
									seenPair[k] = true
									pairs = append(pairs, pair{opk, orw})
								}
							}
						}
					}
				}
			}
			for _, pr := range pairs {
				fn := pr.pk.fn
				var grows, writes []ssa.Instruction
				for _, b := range fn.Blocks {
					for _, in := range b.Instrs {
						switch x := in.(type) {
						case *ssa.Slice:
							if rootStorage(x.X) == pr.rows.mk && x.High != nil {
								if bo, ok := x.High.(*ssa.BinOp); ok && bo.Op == token.ADD {
									grows = append(grows, x)
								}
							}
						case *ssa.Call:
							bi, ok := x.Call.Value.(*ssa.Builtin)
							if !ok {
								continue
							}
							switch bi.Name() {
							case "append":
								if len(x.Call.Args) > 0 && rootStorage(x.Call.Args[0]) == pr.rows.mk {
									grows = append(grows, x)
								}
								if len(x.Call.Args) > 0 && rootStorage(x.Call.Args[0]) == pr.pk.mk {
									writes = append(writes, x)
								}
							case "copy":
								if len(x.Call.Args) == 2 && rootStorage(x.Call.Args[0]) == pr.pk.mk {
									writes = append(writes, x)
								}
							}
						case *ssa.Store:
							if ia, ok := x.Addr.(*ssa.IndexAddr); ok && rootStorage(ia.X) == pr.pk.mk {
								writes = append(writes, x)
							}
						}
					}
				}
				key := fmt.Sprintf("%s|block-key@%s", funcName(fn), p.Rel(pr.pk.mk.Pos()))
				key = funcName(fn) + "|block-key"
				what := "the key remembered for a block is written only where a row is added to it"
				if len(grows) == 0 || len(writes) == 0 {
					r.note("%s: rows grow at %d sites, key written at %d sites; not judged", funcName(fn), len(grows), len(writes))
					continue
				}
				bad := ""
				for _, g := range grows {
					// innermost conditional-entry block on the dominator chain of the growth
					var cond ssa.Value
					truth := true
					for d := g.Block(); d != nil; d = d.Idom() {
						if len(d.Preds) != 1 || len(d.Preds[0].Instrs) == 0 {
							continue
						}
						ifi, ok := d.Preds[0].Instrs[len(d.Preds[0].Instrs)-1].(*ssa.If)
						if !ok {
							continue
						}
						cond, truth = ifi.Cond, d == d.Preds[0].Succs[0]
						break
					}
					if cond == nil {
						continue
					}
					for {
						if u, ok := cond.(*ssa.UnOp); ok && u.Op == token.NOT {
							cond, truth = u.X, !truth
							continue
						}
						break
					}
					cut := mkCut(boolEdges(fn, map[ssa.Value]bool{cond: true}, truth))
					for _, w := range writes {
						if path, reach := reachAfter(fn, nil, w, cut, nil); reach {
							bad = fmtPath(fmt.Sprintf("the key is written at %s on a path that does not pass the test guarding the row's addition at %s", p.Rel(w.Pos()), p.Rel(g.Pos())), path)
						}
					}
				}
				if bad != "" {
					r.bad(key, p.Rel(pr.pk.mk.Pos()), what, bad)
				} else {
					r.ok(key, p.Rel(pr.pk.mk.Pos()), what)
				}
			}
			return nil
		},
	})
}

// loadsField: v is a load of field `name` of the object allocated at al.
func loadsField(v ssa.Value, al *ssa.Alloc, name string) bool {
	u, ok := v.(*ssa.UnOp)
	if !ok || u.Op != token.MUL {
		return false
	}
	fa, ok := u.X.(*ssa.FieldAddr)
	return ok && fa.X == al && fieldNameOf(fa) == name
}

func init() {
	inst := abortInstance{
		id: "C04-g", min: 2, anchor: "pkg/diff.iterateAndMatch",
		doc:   "A block that cannot be looked into is not an empty block: in pkg/diff a failure of a pkg/objects read (GetBlockIndex, GetBlock, GetTable…, ErrKeyNotFound included — a table that names a block index owns it) ends the diff with that error on every path. A missing or unreadable index that is answered with an empty one makes every row whose key lives in that block appear as added (and, in the mirror pass, as removed) while the diff reports success.",
		scope: func(p *Program) []*ssa.Function { return p.FuncsInPkg("pkg/diff") },
		callees: func(p *Program) (map[*types.Func]bool, error) {
			m := pkgFuncsReturningError(p, "pkg/objects", "Get")
			if len(m) < 3 {
				return nil, &AnchorError{"pkg/objects.Get* functions"}
			}
			return m, nil
		},
	}
	register(&Rule{
		ID: inst.id, Template: "T5-strong (a failure aborts)", Doc: inst.doc, Min: inst.min,
		Run: func(p *Program, r *RuleResult) error { return runAbortInstance(p, r, inst) },
	})
}

func init() {
	register(&Rule{
		ID: "C19-j", Template: "T10 contradiction (keys are ordered column by column, never as joined text)",
		Doc: "The order of composite keys is the column-wise order the sorter establishes (objects.StringSliceIsLess, StrList.LessThan). In pkg/sorter, pkg/diff, pkg/merge, pkg/index, pkg/objects, pkg/slice and pkg/ingest no ordering decision (<, <=, >, >=, strings.Compare, bytes.Compare) is taken on text produced by strings.Join / fmt.Sprint* of several cells: with a separator that sorts above some cell byte, \"ann\" + sep + x and \"ann lee\" + sep + y order differently joined than column by column, and a block-window search or merge that trusts the joined order skips the block that holds the row.",
		Min: 0,
		Run: func(p *Program, r *RuleResult) error {
			fns := p.FuncsInPkg("pkg/sorter", "pkg/diff", "pkg/merge", "pkg/index", "pkg/objects", "pkg/slice", "pkg/ingest")
			r.Analysed = len(fns)
			joined := func(v ssa.Value) *ssa.Call {
				for x := range backward(v, func(y ssa.Value) bool {
					switch y.(type) {
					case *ssa.Convert, *ssa.ChangeType, *ssa.Phi, *ssa.Slice:
						return true
					}
					return false
				}) {
					if c, ok := x.(*ssa.Call); ok {
						if f := calleeFunc(c); f != nil && f.Pkg() != nil {
							if (f.Pkg().Path() == "strings" && f.Name() == "Join") || (f.Pkg().Path() == "fmt" && (f.Name() == "Sprint" || f.Name() == "Sprintf" || f.Name() == "Sprintln")) {
								return c
							}
						}
					}
				}
				return nil
			}
			for _, fn := range fns {
				n := 0
				for _, b := range fn.Blocks {
					for _, in := range b.Instrs {
						var ops []ssa.Value
						switch x := in.(type) {
						case *ssa.BinOp:
							switch x.Op {
							case token.LSS, token.LEQ, token.GTR, token.GEQ:
								if bt, ok := x.X.Type().Underlying().(*types.Basic); ok && bt.Info()&types.IsString != 0 {
									ops = []ssa.Value{x.X, x.Y}
								}
							}
						case *ssa.Call:
							if f := calleeFunc(x); f != nil && f.Pkg() != nil && f.Name() == "Compare" && (f.Pkg().Path() == "strings" || f.Pkg().Path() == "bytes") && len(x.Call.Args) == 2 {
								ops = x.Call.Args
							}
						}
						for _, o := range ops {
							if j := joined(o); j != nil {
								key := fmt.Sprintf("%s|ordered-on-joined#%d", funcName(fn), n)
								n++
								r.bad(key, p.Rel(in.Pos()), "keys are compared column by column", fmt.Sprintf("an ordering comparison is made on text joined from several cells (%s at %s)", shortObj(calleeFunc(j)), p.Rel(j.Pos())))
								break
							}
						}
					}
				}
			}
			if len(r.Obligations) == 0 {
				r.okWhy("pkg/*|ordered-on-joined", "-", "keys are compared column by column", "no ordering comparison on joined text in the key-handling packages")
			}
			return nil
		},
	})
}

func init() {
	register(&Rule{
		ID: "C03-b", Template: "loop completeness (a per-block table has an entry for every block)",
		Doc: "The table index lists the first key of every block: where a slice is made with one entry per element of a collection (make(T, len(x)) — the table index in ingest.IndexTable, block lists in the inserter) and is filled at the loop index while that collection is walked, no iteration reaches the loop's back edge without passing a store into the slice at that index. A `continue` in front of the store (a block that is 'already indexed', 'unchanged', 'cached') leaves an empty entry behind: the block-window search of diff and merge then compares against an empty key. Scope: pkg/ingest, pkg/objects, pkg/api/utils, pkg/sorter, pkg/merge, pkg/doctor.",
		Min: 1,
		Run: func(p *Program, r *RuleResult) error {
			if _, err := p.SSAFunc("pkg/ingest.IndexTable"); err != nil {
				return err
			}
			fns := p.FuncsInPkg("pkg/ingest", "pkg/objects", "pkg/api/utils", "pkg/sorter", "pkg/merge", "pkg/doctor")
			r.Analysed = len(fns)
			for _, fn := range fns {
				type fill struct {
					mk  *ssa.MakeSlice
					hdr *ssa.BasicBlock
				}
				stores := map[fill][]ssa.Instruction{}
				var order []fill
				for _, b := range fn.Blocks {
					for _, in := range b.Instrs {
						st, ok := in.(*ssa.Store)
						if !ok {
							continue
						}
						ia, ok := st.Addr.(*ssa.IndexAddr)
						if !ok {
							continue
						}
						mk, ok := ia.X.(*ssa.MakeSlice)
						if !ok || lenArgOf(mk.Len) == nil {
							continue
						}
						phi, ok := ia.Index.(*ssa.Phi)
						if !ok {
							// range loops: the index is φ+1
							if bo, isBo := ia.Index.(*ssa.BinOp); isBo && bo.Op == token.ADD {
								phi, ok = bo.X.(*ssa.Phi)
							}
						}
						if !ok {
							continue
						}
						hdr := phi.Block()
						if !loopBody(hdr)[b] || enclosingLoop(b) != hdr {
							continue
						}
						f := fill{mk, hdr}
						if stores[f] == nil {
							order = append(order, f)
						}
						stores[f] = append(stores[f], st)
					}
				}
				for k, f := range order {
					// a result table is handed on as a whole once the loop is done (argument, return
					// value, field); per-element state that lives only inside the loop (the sorter's
					// per-chunk read-ahead) is something else
					handedOn := false
					body0 := loopBody(f.hdr)
					for _, ref := range *f.mk.Referrers() {
						if body0[ref.Block()] {
							continue
						}
						switch x := ref.(type) {
						case *ssa.Call:
							if _, isB := x.Call.Value.(*ssa.Builtin); !isB {
								handedOn = true
							}
						case *ssa.Return, *ssa.MakeInterface, *ssa.Send:
							handedOn = true
						case *ssa.Store:
							if x.Val == ssa.Value(f.mk) {
								handedOn = true
							}
						}
					}
					if !handedOn {
						continue
					}
					key := fmt.Sprintf("%s|per-element-table#%d", funcName(fn), k)
					what := "every iteration that goes on to the next element has written this element's entry"
					block := map[ssa.Instruction]bool{}
					for _, s := range stores[f] {
						block[s] = true
					}
					body := loopBody(f.hdr)
					cut := loopExitEdges(f.hdr)
					bad := ""
					if len(f.hdr.Instrs) > 0 {
						for _, pr := range f.hdr.Preds {
							if !body[pr] || len(pr.Instrs) == 0 {
								continue
							}
							if path, reach := reachAfter(fn, f.hdr.Instrs[0], pr.Instrs[len(pr.Instrs)-1], cut, block); reach {
								bad = fmtPath("an iteration reaches the loop's back edge without storing its entry", path)
							}
						}
					}
					if bad != "" {
						r.bad(key, p.Rel(f.mk.Pos()), what, bad)
					} else {
						r.ok(key, p.Rel(f.mk.Pos()), what)
					}
				}
			}
			return nil
		},
	})
}

func init() {
	register(&Rule{
		ID: "C18-d", Template: "T10 agreement (a delegating Read hands on the count it was given)",
		Doc: "A reader may return its last bytes together with io.EOF. In pkg/encoding/..., pkg/objects, pkg/api/... and pkg/misc every method Read([]byte) (int, error) that delegates to an underlying Read returns, together with that call's error, the count that call reported — never a constant 0. A wrapper that answers (0, err) when err != nil discards the bytes delivered with the end-of-stream condition: every decoder above it (they all use io.ReadFull correctly) then sees a truncated object for data+EOF delivery, and only for that.",
		Min: 1,
		Run: func(p *Program, r *RuleResult) error {
			var fns []*ssa.Function
			for _, fn := range p.ProdFuncs() {
				pk := fnPkgPath(fn)
				if !(hasPrefix(pk, modPath+"/pkg/encoding") || pk == modPath+"/pkg/objects" || hasPrefix(pk, modPath+"/pkg/api") || pk == modPath+"/pkg/misc") {
					continue
				}
				if fn.Name() != "Read" || fn.Signature.Recv() == nil || fn.Signature.Params().Len() != 1 || fn.Signature.Results().Len() != 2 {
					continue
				}
				fns = append(fns, fn)
			}
			r.Analysed = len(fns)
			for _, fn := range fns {
				eachCall(fn, func(c ssa.CallInstruction) {
					call, ok := c.(*ssa.Call)
					if !ok {
						return
					}
					name := ""
					if c.Common().IsInvoke() {
						name = c.Common().Method.Name()
					} else if f := calleeFunc(c); f != nil {
						name = f.Name()
					}
					sig := c.Common().Signature()
					if name != "Read" || sig.Params().Len() != 1 || sig.Results().Len() != 2 || !isErrorType(sig.Results().At(1).Type()) {
						return
					}
					errVals := errValuesOfCall(call)
					key := callKey(fn, c) + "|count"
					what := "the count reported by the underlying Read is returned with its error"
					bad := ""
					for _, ret := range returnsOf(fn) {
						if len(ret.Results) != 2 {
							continue
						}
						ev := retVal(ret, 1)
						if ev == nil || !errVals[ev] {
							continue
						}
						if k, isC := constInt(retVal(ret, 0)); isC && k == 0 {
							if _, reach := reachAfter(fn, call, ret, nil, nil); reach {
								bad = "the error of the underlying Read is returned with a constant count of 0 at " + p.Rel(ret.Pos()) + ": bytes delivered together with io.EOF are thrown away"
							}
						}
					}
					if bad != "" {
						r.bad(key, p.Rel(c.Pos()), what, bad)
					} else {
						r.ok(key, p.Rel(c.Pos()), what)
					}
				})
			}
			return nil
		},
	})

	register(&Rule{
		ID: "C09-k", Template: "loop completeness (every shallow commit is recorded)",
		Doc: "A push never carries history whose tables the sender lacks: client.NewShallowCommitError is the only guard in front of a push session (C09-c). In its loop over the commits to send, once objects.TableExist has answered 'no' for a commit, no path reaches the next iteration or the function's return without recording the commit in the error being built (a map update on a field of the ShallowCommitError) — a `continue` or early `return nil` on the way (no remote to suggest, lookup failed) lets the push go ahead, the receiver checks parents only, and the remote ref ends up with ancestors that have no table.",
		Min: 1,
		Run: func(p *Program, r *RuleResult) error {
			fn, err := p.SSAFunc("pkg/api/client.NewShallowCommitError")
			if err != nil {
				return err
			}
			te, err := p.MustFuncs("pkg/objects.TableExist")
			if err != nil {
				return err
			}
			r.Analysed = 1
			block := map[ssa.Instruction]bool{}
			for _, b := range fn.Blocks {
				for _, in := range b.Instrs {
					if mu, ok := in.(*ssa.MapUpdate); ok {
						if u, ok := mu.Map.(*ssa.UnOp); ok && u.Op == token.MUL {
							if _, ok := u.X.(*ssa.FieldAddr); ok {
								block[in] = true
							}
						}
					}
				}
			}
			for _, c := range callsTo(fn, te) {
				call, ok := c.(*ssa.Call)
				if !ok {
					continue
				}
				key := callKey(fn, c) + "|recorded"
				what := "a commit whose table is missing is recorded before the loop moves on"
				absent := boolEdges(fn, forward([]ssa.Value{call}, fwdOpts{noBinOp: true}), false)
				if len(absent) == 0 {
					r.bad(key, p.Rel(c.Pos()), what, "the answer of TableExist is not branched on")
					continue
				}
				bad := ""
				hdr := enclosingLoop(call.Block())
				for _, e := range absent {
					start := e.from.Succs[e.succ]
					if len(start.Instrs) == 0 {
						continue
					}
					var targets []ssa.Instruction
					for _, ret := range returnsOf(fn) {
						targets = append(targets, ret)
					}
					if hdr != nil && len(hdr.Instrs) > 0 {
						targets = append(targets, hdr.Instrs[0])
					}
					if block[start.Instrs[0]] {
						continue
					}
					for _, t := range targets {
						if path, reach := reachAfter(fn, start.Instrs[0], t, nil, block); reach {
							bad = fmtPath("after TableExist answered 'no' the function goes on to "+p.Rel(t.Pos())+" without recording the commit", path)
						}
					}
				}
				if bad != "" {
					r.bad(key, p.Rel(c.Pos()), what, bad)
				} else {
					r.ok(key, p.Rel(c.Pos()), what)
				}
			}
			return nil
		},
	})
}

func init() {
	register(&Rule{
		ID: "C05-j", Template: "T1 must-traverse (the merge's error channel is read before it is replaced)",
		Doc: "A failed merge is not written out as a result: (*Merger).SortedRows / SortedBlocks start the second phase by replacing the merger's error channel, so whatever the first phase (diffing, resolving) reported is gone afterwards. In every production function that consumes the merge stream (receives from a channel of *merge.Merge) and then asks for the sorted result, the SortedRows / SortedBlocks call is reachable only through the success edge of a (*Merger).Error() call. With only a final Error() check a diff or resolver failure (a missing block of one branch) is lost: the command reports success and the output holds base rows where both branches' edits should be.",
		Min: 1,
		Run: func(p *Program, r *RuleResult) error {
			second, err := p.MustFuncs("pkg/merge.(*Merger).SortedRows", "pkg/merge.(*Merger).SortedBlocks")
			if err != nil {
				return err
			}
			errf, err := p.MustFuncs("pkg/merge.(*Merger).Error")
			if err != nil {
				return err
			}
			mergeT, err := p.NamedType("pkg/merge.Merge")
			if err != nil {
				return err
			}
			isMergeChan := func(t types.Type) bool {
				ch, ok := t.Underlying().(*types.Chan)
				if !ok {
					return false
				}
				pt, ok := ch.Elem().Underlying().(*types.Pointer)
				return ok && types.Identical(pt.Elem(), mergeT)
			}
			fns := p.ProdFuncs()
			r.Analysed = len(fns)
			for _, fn := range fns {
				if hasSuffixPath(fnPkgPath(fn), "/pkg/merge") {
					continue
				}
				calls := callsTo(fn, second)
				if len(calls) == 0 {
					continue
				}
				consumes := false
				for _, b := range fn.Blocks {
					for _, in := range b.Instrs {
						switch x := in.(type) {
						case *ssa.UnOp:
							if x.Op == token.ARROW && isMergeChan(x.X.Type()) {
								consumes = true
							}
						case *ssa.Select:
							for _, st := range x.States {
								if isMergeChan(st.Chan.Type()) {
									consumes = true
								}
							}
						}
					}
				}
				if !consumes {
					continue
				}
				var permits []edge
				for _, ec := range callsTo(fn, errf) {
					if call, ok := ec.(*ssa.Call); ok {
						permits = append(permits, successEdges(fn, call)...)
					}
				}
				for _, c := range calls {
					key := callKey(fn, c) + "|first-phase-error"
					what := "the first phase's error is read before the second phase replaces the channel"
					if path, reach := reachAfter(fn, nil, c, mkCut(permits), nil); reach {
						r.bad(key, p.Rel(c.Pos()), what, fmtPath("the sorted result is requested without Merger.Error() having been found nil after the merge stream was consumed", path))
					} else {
						r.ok(key, p.Rel(c.Pos()), what)
					}
				}
			}
			return nil
		},
	})
}

func hasSuffixPath(s, suf string) bool { return len(s) >= len(suf) && s[len(s)-len(suf):] == suf }

func init() {
	register(&Rule{
		ID: "C05-k", Template: "T1 must-traverse (a resolved key is recorded as taken)",
		Doc: "A row that the merge resolved replaces its base row: (*RowCollector).SaveResolvedRow reports success only after the row's key was added to the set of keys whose base rows are withheld (index.HashSet.Add on discardedRows) — whether the resolution keeps a row or removes it. collectRowsThatStayedTheSame later adds every base row whose key is not in that set; a kept resolution that is not recorded meets its own base row in the result sorter, and which of the two survives the one-row-per-key filter is decided by an unstable sort.",
		Min: 1,
		Run: func(p *Program, r *RuleResult) error {
			fn, err := p.SSAFunc("pkg/merge.(*RowCollector).SaveResolvedRow")
			if err != nil {
				return err
			}
			add, err := p.MustFuncs("pkg/index.(*HashSet).Add")
			if err != nil {
				return err
			}
			r.Analysed = 1
			sum := newSuccSummary(p, add)
			what := "every success return is preceded by a successful HashSet.Add of the key"
			if sum.wrapper(fn, wrapperDepth) {
				r.ok(funcName(fn)+"|recorded", p.Rel(fn.Pos()), what)
			} else {
				r.bad(funcName(fn)+"|recorded", p.Rel(fn.Pos()), what, "a success return of SaveResolvedRow is reachable without the key having been added to the discarded-rows set: the base row of a resolved key is added to the result next to its resolution")
			}
			return nil
		},
	})
}

func init() {
	register(&Rule{
		ID: "C20-f", Template: "T10 contradiction (a hash is identified by all of its bytes)",
		Doc: "Membership is decided on the whole 16-byte hash: in pkg/index no bytes.Equal / bytes.Compare is applied to a re-sliced part of a hash (x[k:], x[:m] with constant k > 0 or m < 16, on either operand), and no map is keyed by an integer read out of a hash (binary.BigEndian.Uint64/Uint32/Uint16 of hash bytes, or a conversion of a few of them). 'They share the fan-out bucket, so the first byte can be skipped' is true of the search inside a bucket and false of the equality probe that follows it when the bucket is empty or the hash sorts after it; a pending-set keyed by the first eight bytes takes two different hashes for one. Either way Has answers for a hash that was never added, or Add drops one that was not there.",
		Min: 0,
		Run: func(p *Program, r *RuleResult) error {
			if _, err := p.SSAFunc("pkg/index.(*HashSet).Has"); err != nil {
				return err
			}
			fns := p.FuncsInPkg("pkg/index")
			r.Analysed = len(fns)
			partial := func(v ssa.Value) bool {
				s, ok := stripConv(v).(*ssa.Slice)
				if !ok {
					return false
				}
				if s.Low != nil {
					if k, isC := constInt(s.Low); isC && k > 0 {
						return true
					}
				}
				if s.High != nil {
					if k, isC := constInt(s.High); isC && k < 16 {
						return true
					}
				}
				return false
			}
			for _, fn := range fns {
				n := 0
				for _, b := range fn.Blocks {
					for _, in := range b.Instrs {
						switch x := in.(type) {
						case *ssa.Call:
							f := calleeFunc(x)
							if f == nil || f.Pkg() == nil || f.Pkg().Path() != "bytes" || (f.Name() != "Equal" && f.Name() != "Compare") || len(x.Call.Args) != 2 {
								continue
							}
							if partial(x.Call.Args[0]) || partial(x.Call.Args[1]) {
								r.bad(fmt.Sprintf("%s|partial-compare#%d", funcName(fn), n), p.Rel(x.Pos()), "hashes are compared on all of their bytes", "bytes."+f.Name()+" is applied to a part of the hash")
								n++
							}
						case *ssa.MapUpdate, *ssa.Lookup:
							var key ssa.Value
							if mu, ok := x.(*ssa.MapUpdate); ok {
								key = mu.Key
							} else if lk, ok := x.(*ssa.Lookup); ok {
								if _, isMap := lk.X.Type().Underlying().(*types.Map); !isMap {
									continue
								}
								key = lk.Index
							}
							bt, ok := key.Type().Underlying().(*types.Basic)
							if !ok || bt.Info()&types.IsInteger == 0 {
								continue
							}
							fromBytes := false
							for y := range backward(key, nil) {
								if c, ok := y.(*ssa.Call); ok {
									if isBigEndianWide(c) {
										fromBytes = true
									}
									if sc := c.Call.StaticCallee(); sc != nil && fnPkgPath(sc) == fnPkgPath(fn) {
										for _, rb := range sc.Blocks {
											for _, ri := range rb.Instrs {
												if cc, ok := ri.(*ssa.Call); ok && isBigEndianWide(cc) {
													fromBytes = true
												}
											}
										}
									}
								}
							}
							if fromBytes {
								r.bad(fmt.Sprintf("%s|partial-key#%d", funcName(fn), n), p.Rel(in.Pos()), "hashes are compared on all of their bytes", "a map is keyed by an integer read out of a hash: two hashes that share those bytes are one key")
								n++
							}
						}
					}
				}
			}
			if len(r.Obligations) == 0 {
				r.okWhy("pkg/index|whole-hash", "-", "hashes are compared on all of their bytes", "no partial comparison and no integer key derived from hash bytes in pkg/index")
			}
			return nil
		},
	})
}

func init() {
	register(&Rule{
		ID: "C12-j", Template: "T1 must-traverse (commits go only after every sweep ran)",
		Doc: "Prune can be interrupted and run again: what tells a later run that there is still something to collect is the unreachable commits — once they are deleted, Prune returns early ('nothing to remove'). In pkg/prune.Prune the phase that deletes commits (a call that is handed a function from which objects.DeleteCommit is reached) is therefore reachable only through the success edges of the phases that delete tables, blocks and block indices — each of them, unconditionally. A sweep that is skipped when *this* run removed no table ('nothing can have become orphaned') is wrong exactly after an interrupted run: the tables are already gone, the sweeps are skipped, the commits are deleted, and the blocks of the removed tables are never collected.",
		Min: 3,
		Run: func(p *Program, r *RuleResult) error {
			fn, err := p.SSAFunc("pkg/prune.Prune")
			if err != nil {
				return err
			}
			kinds := map[string]map[*types.Func]bool{}
			for _, k := range []string{"DeleteCommit", "DeleteTable", "DeleteBlock", "DeleteBlockIndex"} {
				m, err := p.MustFuncs("pkg/objects." + k)
				if err != nil {
					return err
				}
				kinds[k] = m
			}
			r.Analysed = 1
			var deletes func(f *ssa.Function, depth int, out map[string]bool)
			deletes = func(f *ssa.Function, depth int, out map[string]bool) {
				if f == nil || depth < 0 {
					return
				}
				eachCall(f, func(c ssa.CallInstruction) {
					for k, m := range kinds {
						if isCallTo(c, m) != nil {
							out[k] = true
						}
					}
				})
				for _, a := range f.AnonFuncs {
					deletes(a, depth-1, out)
				}
			}
			phase := map[string][]*ssa.Call{}
			eachCall(fn, func(c ssa.CallInstruction) {
				call, ok := c.(*ssa.Call)
				if !ok {
					return
				}
				out := map[string]bool{}
				for _, a := range c.Common().Args {
					if _, isSig := a.Type().Underlying().(*types.Signature); !isSig {
						continue
					}
					if ct, ok := a.(*ssa.ChangeType); ok {
						a = ct.X // a closure converted to the named function type
					}
					switch x := a.(type) {
					case *ssa.MakeClosure:
						f, _ := x.Fn.(*ssa.Function)
						deletes(f, 2, out)
					case *ssa.Function:
						deletes(x, 2, out)
					case *ssa.Call:
						deletes(x.Call.StaticCallee(), 2, out)
					}
				}
				for k := range out {
					phase[k] = append(phase[k], call)
				}
			})
			commits := phase["DeleteCommit"]
			if len(commits) == 0 {
				return &AnchorError{"the phase of Prune that deletes commits"}
			}
			for _, k := range []string{"DeleteTable", "DeleteBlock", "DeleteBlockIndex"} {
				key := funcName(fn) + "|" + k + "-before-commits"
				what := "commits are deleted only after the " + k + " sweep ran successfully"
				if len(phase[k]) == 0 {
					r.bad(key, p.Rel(fn.Pos()), what, "Prune has no phase from which objects."+k+" is reached")
					continue
				}
				var permits []edge
				for _, c := range phase[k] {
					permits = append(permits, successEdges(fn, c)...)
				}
				bad := ""
				for _, cc := range commits {
					if path, reach := reachAfter(fn, nil, cc, mkCut(permits), nil); reach {
						bad = fmtPath("the phase that deletes commits ("+p.Rel(cc.Pos())+") is reachable without the "+k+" sweep having run", path)
					}
				}
				if bad != "" {
					r.bad(key, p.Rel(phase[k][0].Pos()), what, bad)
				} else {
					r.ok(key, p.Rel(phase[k][0].Pos()), what)
				}
			}
			return nil
		},
	})
}

func init() {
	register(&Rule{
		ID: "C03-c", Template: "T4 permit-cut (the two index builders choose the key hash on the same ground)",
		Doc: "Each block's index maps the hash of every row's key to that row: in both builders (objects.IndexBlock over decoded rows, objects.IndexBlockFromBytes over block bytes) the degenerate entry — the row's own hash used as its key hash, append(sum, sum...) — is reachable only through the 'table has no primary key' outcome of a test of len(pk). Any further condition on that choice ('the key covers every column anyway') makes the two builders disagree for some key, IndexTable then rejects an honest table with 'different sum', and BlockIndex.Get finds no row.",
		Min: 2,
		Run: func(p *Program, r *RuleResult) error {
			r.Analysed = 2
			for _, name := range []string{"pkg/objects.IndexBlock", "pkg/objects.IndexBlockFromBytes"} {
				fn, err := p.SSAFunc(name)
				if err != nil {
					return err
				}
				// the key-position parameter: the []uint32 one
				var pk *ssa.Parameter
				for _, prm := range fn.Params {
					if sl, ok := prm.Type().Underlying().(*types.Slice); ok {
						if b, ok := sl.Elem().Underlying().(*types.Basic); ok && b.Kind() == types.Uint32 {
							pk = prm
						}
					}
				}
				if pk == nil {
					return &AnchorError{name + ": key-position parameter"}
				}
				// edges on which len(pk) == 0 is known
				var noKey []edge
				for _, b := range fn.Blocks {
					if len(b.Instrs) == 0 {
						continue
					}
					ifi, ok := b.Instrs[len(b.Instrs)-1].(*ssa.If)
					if !ok {
						continue
					}
					bo, ok := ifi.Cond.(*ssa.BinOp)
					if !ok {
						continue
					}
					x, y := bo.X, bo.Y
					op := bo.Op
					if a := lenArgOf(y); a != nil && stripConv(a) == ssa.Value(pk) {
						x, y = y, x
						switch op {
						case token.LSS:
							op = token.GTR
						case token.GTR:
							op = token.LSS
						case token.LEQ:
							op = token.GEQ
						case token.GEQ:
							op = token.LEQ
						}
					}
					if a := lenArgOf(x); a == nil || stripConv(a) != ssa.Value(pk) {
						continue
					}
					k, isC := constInt(y)
					if !isC {
						continue
					}
					switch {
					case op == token.GTR && k == 0, op == token.NEQ && k == 0, op == token.GEQ && k == 1:
						noKey = append(noKey, edge{b, 1})
					case op == token.EQL && k == 0, op == token.LEQ && k == 0, op == token.LSS && k == 1:
						noKey = append(noKey, edge{b, 0})
					}
				}
				n := 0
				for _, b := range fn.Blocks {
					for _, in := range b.Instrs {
						c, ok := in.(*ssa.Call)
						if !ok || !isBuiltin(c, "append") || len(c.Call.Args) != 2 || stripConv(c.Call.Args[0]) != stripConv(c.Call.Args[1]) {
							continue
						}
						key := fmt.Sprintf("%s|row-hash-as-key-hash#%d", funcName(fn), n)
						n++
						what := "the row's own hash stands in for the key hash only when the table has no primary key"
						if path, reach := reachAfter(fn, nil, c, mkCut(noKey), nil); reach {
							r.bad(key, p.Rel(c.Pos()), what, fmtPath("the degenerate entry is reachable on a path that has not found len(pk) to be 0", path))
						} else {
							r.ok(key, p.Rel(c.Pos()), what)
						}
					}
				}
			}
			return nil
		},
	})
}

func init() {
	register(&Rule{
		ID: "C03-d", Template: "T7 narrowing (an unsigned count is not decremented below zero)",
		Doc: "Row and block counts are unsigned: in pkg/objects, pkg/ingest, pkg/diff and pkg/sorter an expression x - c with x of an unsigned integer type that derives from a row / block count field or parameter (not from len()) and a constant c > 0 is computed only on paths that have established x >= c (x > 0, x != 0, x >= c, or the mirror tests). (n-1)/255+1 is the textbook block count and wraps to 16 843 010 blocks for the empty table, which then cannot be read back.",
		Min: 0,
		Run: func(p *Program, r *RuleResult) error {
			fns := p.FuncsInPkg("pkg/objects", "pkg/ingest", "pkg/diff", "pkg/sorter")
			r.Analysed = len(fns)
			for _, fn := range fns {
				n := 0
				for _, b := range fn.Blocks {
					for _, in := range b.Instrs {
						bo, ok := in.(*ssa.BinOp)
						if !ok || bo.Op != token.SUB {
							continue
						}
						bt, ok := bo.Type().Underlying().(*types.Basic)
						if !ok || bt.Info()&types.IsUnsigned == 0 || intBits(bo.Type()) < 32 {
							continue
						}
						c, isC := constInt(bo.Y)
						if !isC || c <= 0 {
							continue
						}
						// x must be a parameter or a field load (a stored / announced count), possibly converted
						x := stripConv(bo.X)
						isCount := false
						switch y := x.(type) {
						case *ssa.Parameter:
							isCount = true
						case *ssa.UnOp:
							if _, ok := y.X.(*ssa.FieldAddr); ok && y.Op == token.MUL {
								isCount = true
							}
						}
						if !isCount {
							continue
						}
						key := fmt.Sprintf("%s|unsigned-minus-const#%d", funcName(fn), n)
						n++
						what := "an unsigned count is decremented only where it is known to be large enough"
						// guards: edges on which x >= c is known
						var permits []edge
						for _, gb := range fn.Blocks {
							if len(gb.Instrs) == 0 {
								continue
							}
							ifi, ok := gb.Instrs[len(gb.Instrs)-1].(*ssa.If)
							if !ok {
								continue
							}
							cmp, ok := ifi.Cond.(*ssa.BinOp)
							if !ok {
								continue
							}
							gx, gy, op := cmp.X, cmp.Y, cmp.Op
							if stripConv(gy) == x {
								gx, gy = gy, gx
								switch op {
								case token.LSS:
									op = token.GTR
								case token.GTR:
									op = token.LSS
								case token.LEQ:
									op = token.GEQ
								case token.GEQ:
									op = token.LEQ
								}
							}
							if stripConv(gx) != x {
								continue
							}
							k, isK := constInt(gy)
							if !isK {
								continue
							}
							switch {
							case op == token.GTR && k >= c-1, op == token.GEQ && k >= c, op == token.NEQ && k == 0 && c == 1:
								permits = append(permits, edge{gb, 0})
							case op == token.LSS && k >= c, op == token.LEQ && k >= c-1, op == token.EQL && k == 0 && c == 1:
								permits = append(permits, edge{gb, 1})
							}
						}
						if path, reach := reachAfter(fn, nil, bo, mkCut(permits), nil); reach {
							r.bad(key, p.Rel(bo.Pos()), what, fmtPath(fmt.Sprintf("%s - %d is computed without a test that excludes values below %d: for 0 the unsigned result wraps", x.Name(), c, c), path))
						} else {
							r.ok(key, p.Rel(bo.Pos()), what)
						}
					}
				}
			}
			if len(r.Obligations) == 0 {
				r.okWhy("pkg/*|unsigned-minus-const", "-", "an unsigned count is decremented only where it is known to be large enough", "no such expression in the analysed packages")
			}
			return nil
		},
	})
}
