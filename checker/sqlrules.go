package main

// Rules over the SQL ref store (pkg/ref/sql): C15-a, C15-c, C13-g, C10-d.

import (
	"fmt"
	"go/constant"
	"go/token"
	"go/types"
	"regexp"
	"sort"
	"strings"

	"golang.org/x/tools/go/ssa"
)

var sqlWord = regexp.MustCompile(`[A-Za-z_]+`)

func sqlWords(s string) []string {
	ws := sqlWord.FindAllString(s, -1)
	for i := range ws {
		ws[i] = strings.ToUpper(ws[i])
	}
	return ws
}

var patternOps = map[string]bool{"LIKE": true, "GLOB": true, "REGEXP": true, "MATCH": true}

// isSQLCall: call of (*sql.DB|*sql.Tx).Exec/Query/QueryRow[Context].
func isSQLCall(c ssa.CallInstruction) (recvKind string, method string, ok bool) {
	// a local interface over *sql.DB / *sql.Tx (`type execer interface{ Exec(string, ...any) (sql.Result, error) }`)
	if cc := c.Common(); cc.IsInvoke() && cc.Method != nil {
		name := strings.TrimSuffix(cc.Method.Name(), "Context")
		if name == "Exec" || name == "Query" || name == "QueryRow" {
			if sig, isSig := cc.Method.Type().(*types.Signature); isSig && sig.Results().Len() >= 1 {
				rt := sig.Results().At(0).Type()
				if pt, isPtr := rt.(*types.Pointer); isPtr {
					rt = pt.Elem()
				}
				if n, isNamed := rt.(*types.Named); isNamed && n.Obj().Pkg() != nil && n.Obj().Pkg().Path() == "database/sql" {
					if f := cc.Method; f.Pkg() == nil || f.Pkg().Path() != "database/sql" {
						return "iface", name, true
					}
				}
			}
		}
	}
	f := calleeFunc(c)
	if f == nil || f.Pkg() == nil || f.Pkg().Path() != "database/sql" {
		return "", "", false
	}
	sig := f.Type().(*types.Signature)
	if sig.Recv() == nil {
		return "", "", false
	}
	rt := sig.Recv().Type()
	if pt, ok := rt.(*types.Pointer); ok {
		rt = pt.Elem()
	}
	n, isNamed := rt.(*types.Named)
	if !isNamed {
		return "", "", false
	}
	name := strings.TrimSuffix(f.Name(), "Context")
	if name != "Exec" && name != "Query" && name != "QueryRow" {
		return "", "", false
	}
	if n.Obj().Name() != "DB" && n.Obj().Name() != "Tx" {
		return "", "", false
	}
	return n.Obj().Name(), name, true
}

// queryText: constant query string of an SQL call if it is a constant.
func queryText(c ssa.CallInstruction) (string, bool) {
	args := c.Common().Args
	for _, a := range args {
		if s, ok := constString(a); ok {
			return s, true
		}
	}
	return "", false
}

func sqlWrites(q string) bool {
	ws := sqlWords(q)
	if len(ws) == 0 {
		return false
	}
	switch ws[0] {
	case "INSERT", "UPDATE", "DELETE", "REPLACE", "CREATE", "DROP", "ALTER":
		return true
	}
	return false
}

func runInTxFunc(p *Program) (*types.Func, error) { return p.Func("pkg/sqlutil.RunInTx") }

// txClosures: closures of fn passed to sqlutil.RunInTx.
func txClosures(fn *ssa.Function, runInTx *types.Func) map[*ssa.Function]bool {
	out := map[*ssa.Function]bool{}
	eachCall(fn, func(c ssa.CallInstruction) {
		if calleeFunc(c) != runInTx {
			return
		}
		for _, a := range c.Common().Args {
			switch x := a.(type) {
			case *ssa.MakeClosure:
				out[x.Fn.(*ssa.Function)] = true
			case *ssa.Function:
				out[x] = true
			}
		}
	})
	return out
}

func init() {
	register(&Rule{
		ID: "C15-a", Template: "T10 agreement (SQL text)",
		Doc: "No SQL text of the ref store uses a pattern operator (LIKE, GLOB, REGEXP, MATCH): the store receives a *sql.DB opened without case_sensitive_like, so LIKE is ASCII-case-insensitive and '_' / '%' in a prefix are wildcards — 'names that literally start with the prefix' would be false for names containing them.",
		Min: 20,
		Run: func(p *Program, r *RuleResult) error {
			if _, err := p.Func("pkg/ref/sql.(*Store).Filter"); err != nil {
				return err
			}
			fns := p.FuncsInPkg("pkg/ref/sql")
			r.Analysed = len(fns)
			for _, fn := range fns {
				n := 0
				seen := map[*ssa.Const]bool{}
				for _, b := range fn.Blocks {
					for _, in := range b.Instrs {
						for _, op := range in.Operands(nil) {
							c, ok := (*op).(*ssa.Const)
							if !ok || seen[c] {
								continue
							}
							s, ok := constString(c)
							if !ok || len(sqlWords(s)) == 0 {
								continue
							}
							seen[c] = true
							var ops []string
							for _, w := range sqlWords(s) {
								if patternOps[w] {
									ops = append(ops, w)
								}
							}
							short := strings.Join(strings.Fields(s), " ")
							if len(short) > 60 {
								short = short[:60] + "…"
							}
							key := fmt.Sprintf("%s|sql-const#%d", funcName(fn), n)
							n++
							pos := in.Pos()
							if !pos.IsValid() {
								pos = fn.Pos()
							}
							if len(ops) > 0 {
								r.bad(key, p.Rel(pos), "SQL text free of pattern operators: "+short, "uses "+strings.Join(ops, ",")+": wildcard and case-insensitive matching instead of a literal prefix")
							} else {
								r.ok(key, p.Rel(pos), "SQL text free of pattern operators: "+short)
							}
						}
					}
				}
			}
			return nil
		},
	})

	register(&Rule{
		ID: "C13-g", Template: "transaction discipline (SQL)",
		Doc: "pkg/ref/sql: a method that issues two or more statements of which at least one writes runs them inside one sqlutil.RunInTx closure; inside such a closure every statement is issued on the closure's *sql.Tx (never on the outer *sql.DB); RunInTx commits only on the run(tx)==nil edge and rolls back on the other.",
		Min: 6,
		Run: func(p *Program, r *RuleResult) error {
			runInTx, err := runInTxFunc(p)
			if err != nil {
				return err
			}
			fns := p.FuncsInPkg("pkg/ref/sql")
			r.Analysed = len(fns) + 1
			for _, fn := range fns {
				if fn.Parent() != nil {
					continue
				}
				// (i) statements issued directly by the method
				var direct []ssa.CallInstruction
				writes := 0
				eachCall(fn, func(c ssa.CallInstruction) {
					if _, _, ok := isSQLCall(c); ok {
						direct = append(direct, c)
						if q, ok := queryText(c); ok && sqlWrites(q) {
							writes++
						}
					}
				})
				// two statements count only if one can follow the other on some path
				sequential := false
				for _, a := range direct {
					for _, b := range direct {
						if a != b {
							if _, reach := reachAfter(fn, a, b, nil, nil); reach {
								sequential = true
							}
						}
					}
				}
				if len(direct) >= 2 && writes >= 1 && sequential {
					r.bad(funcName(fn)+"|multi-statement", p.Rel(fn.Pos()), "multi-statement write runs in one transaction", fmt.Sprintf("%d statements (%d writing) issued outside sqlutil.RunInTx", len(direct), writes))
				} else if len(direct) >= 1 {
					r.ok(funcName(fn)+"|multi-statement", p.Rel(fn.Pos()), "multi-statement write runs in one transaction")
				}
				// (ii) closures handed to RunInTx
				for cl := range txClosures(fn, runInTx) {
					if len(cl.Params) == 0 {
						continue
					}
					tx := cl.Params[0]
					bad := false
					n := 0
					var walk func(f *ssa.Function)
					walk = func(f *ssa.Function) {
						eachCall(f, func(c ssa.CallInstruction) {
							kind, _, ok := isSQLCall(c)
							if !ok {
								// helper that takes a DB: sqlutil.QueryRows(s.db, ...)
								return
							}
							n++
							recv := c.Common().Args[0]
							if kind != "Tx" || stripConv(recv) != tx {
								r.bad(callKey(cl, c), p.Rel(c.Pos()), "statement inside a RunInTx closure is issued on the closure's *sql.Tx", "statement issued on "+kind+" that is not the transaction handle: it is not part of the transaction")
								bad = true
							}
						})
						for _, af := range f.AnonFuncs {
							walk(af)
						}
					}
					walk(cl)
					// any use of the outer db handle inside the closure
					for _, fv := range cl.FreeVars {
						if pt, ok := fv.Type().(*types.Pointer); ok {
							if pp, ok := pt.Elem().(*types.Pointer); ok {
								if nn, ok := pp.Elem().(*types.Named); ok && nn.Obj().Name() == "DB" && nn.Obj().Pkg().Path() == "database/sql" {
									r.bad(funcName(cl)+"|captures-db", p.Rel(cl.Pos()), "RunInTx closure does not capture the *sql.DB", "closure captures a *sql.DB variable")
									bad = true
								}
							}
						}
					}
					if !bad {
						r.ok(funcName(cl)+"|tx-handle", p.Rel(cl.Pos()), fmt.Sprintf("all %d statements inside the RunInTx closure are issued on its *sql.Tx", n))
					}
				}
			}
			// (iii) RunInTx itself
			rit := p.SSA.FuncValue(runInTx)
			if rit == nil || len(rit.Params) < 2 {
				return &AnchorError{"sqlutil.RunInTx body"}
			}
			var runCall *ssa.Call
			var commits, rollbacks []ssa.CallInstruction
			eachCall(rit, func(c ssa.CallInstruction) {
				if call, ok := c.(*ssa.Call); ok && call.Call.Value == rit.Params[1] {
					runCall = call
				}
				if f := calleeFunc(c); f != nil && f.FullName() == "(*database/sql.Tx).Commit" {
					commits = append(commits, c)
				}
				if f := calleeFunc(c); f != nil && f.FullName() == "(*database/sql.Tx).Rollback" {
					rollbacks = append(rollbacks, c)
				}
			})
			key := funcName(rit) + "|commit-on-success"
			switch {
			case runCall == nil || len(commits) == 0:
				r.bad(key, p.Rel(rit.Pos()), "RunInTx commits only when run(tx) succeeded", "run(tx) call or tx.Commit not found")
			default:
				ok := true
				for _, cm := range commits {
					if !orderedAfterSuccess(rit, runCall, cm, -1) {
						r.bad(key, p.Rel(cm.Pos()), "RunInTx commits only when run(tx) succeeded", "tx.Commit reachable without the run(tx)==nil edge")
						ok = false
					}
				}
				// failure edge must roll back before returning
				se := successEdges(rit, runCall)
				for _, e := range se {
					failBlock := e.from.Succs[1-e.succ]
					blk := map[ssa.Instruction]bool{}
					for _, rb := range rollbacks {
						blk[rb] = true
					}
					for _, ret := range returnsOf(rit) {
						if len(failBlock.Instrs) == 0 {
							continue
						}
						if _, reach := reachAfterBlockStart(rit, failBlock, ret, blk); reach {
							r.bad(key+"|rollback", p.Rel(ret.Pos()), "RunInTx rolls back when run(tx) failed", "a return is reachable from the failure edge without tx.Rollback")
							ok = false
						}
					}
				}
				if ok {
					r.ok(key, p.Rel(rit.Pos()), "RunInTx commits only when run(tx) succeeded and rolls back otherwise")
				}
			}
			return nil
		},
	})

	register(&Rule{
		ID: "C10-d", Template: "SSA data dependence (SQL binding)",
		Doc: "Reflog faithfulness: in the SQL store's SetWithLog, the value bound to the reflogs.oldoid column is read (row.Scan) from a query issued on the same *sql.Tx that performs the update, not taken from the caller-supplied Reflog.",
		Min: 1,
		Run: func(p *Program, r *RuleResult) error {
			runInTx, err := runInTxFunc(p)
			if err != nil {
				return err
			}
			swl, err := p.SSAFunc("pkg/ref/sql.(*Store).SetWithLog")
			if err != nil {
				return err
			}
			r.Analysed = 1
			found := false
			isReflogInsert := func(c ssa.CallInstruction) bool {
				if _, _, ok := isSQLCall(c); !ok {
					return false
				}
				q, ok := queryText(c)
				if !ok {
					return false
				}
				ws := sqlWords(q)
				return len(ws) >= 3 && ws[0] == "INSERT" && ws[2] == "REFLOGS"
			}
			for cl := range txClosures(swl, runInTx) {
				tx := cl.Params[0]
				for _, e := range effSitesPred(cl, isReflogInsert, inlineDepth) {
					c := e.inner
					kind, _, _ := isSQLCall(c)
					q, _ := queryText(c)
					found = true
					key := effKey(cl, e)
					what := "oldoid bound into the reflog INSERT comes from a Scan on the same transaction"
					argIdx, perr := placeholderIndexOfColumn(q, "oldoid")
					if perr != nil {
						r.bad(key, p.Rel(c.Pos()), what, "cannot locate the oldoid placeholder: "+perr.Error())
						continue
					}
					recv := c.Common().Value
					if !c.Common().IsInvoke() {
						recv = c.Common().Args[0]
					}
					if (kind != "Tx" && kind != "iface") || resolveSub(recv, e.sub) != ssa.Value(tx) {
						r.bad(key, p.Rel(c.Pos()), what, "the INSERT is not issued on the transaction handle")
						continue
					}
					vals := variadicElems(c)
					if argIdx >= len(vals) {
						r.bad(key, p.Rel(c.Pos()), what, fmt.Sprintf("placeholder #%d has no bound argument", argIdx))
						continue
					}
					v := resolveSub(vals[argIdx], e.sub)
					// the function the value lives in, and that function's name for the transaction
					owner := v.Parent()
					var txv ssa.Value
					if owner == cl {
						txv = tx
					} else if owner != nil {
						for _, prm := range owner.Params {
							if resolveSub(prm, e.sub) == ssa.Value(tx) {
								txv = prm
							}
						}
					}
					if owner == nil || txv == nil {
						r.bad(key, p.Rel(c.Pos()), what, "the bound value is not a variable filled by row.Scan on a tx.QueryRow result")
						continue
					}
					if ok, why := scanFilled(owner, v, txv, inlineDepth); ok {
						r.ok(key, p.Rel(c.Pos()), what)
					} else {
						r.bad(key, p.Rel(c.Pos()), what, why)
					}
				}
			}
			if !found {
				return &AnchorError{"INSERT INTO reflogs inside SetWithLog's RunInTx closure"}
			}
			return nil
		},
	})

	register(&Rule{
		ID: "C15-c", Template: "T10 agreement (log carried along)",
		Doc: "SetWithLog, Rename and Copy carry the log: every RunInTx closure of the SQL store that writes the refs table for a second key (INSERT INTO refs) outside SetWithLog/Set also issues a statement on reflogs in the same closure; Delete removes the log rows in the same transaction as the ref row.",
		Min: 4,
		Run: func(p *Program, r *RuleResult) error {
			runInTx, err := runInTxFunc(p)
			if err != nil {
				return err
			}
			for _, n := range []string{"Rename", "Copy", "Delete", "SetWithLog"} {
				if _, err := p.Func("pkg/ref/sql.(*Store)." + n); err != nil {
					return err
				}
			}
			fns := p.FuncsInPkg("pkg/ref/sql")
			r.Analysed = len(fns)
			for _, fn := range fns {
				if fn.Parent() != nil {
					continue
				}
				if fn.Name() != "Rename" && fn.Name() != "Copy" && fn.Name() != "Delete" && fn.Name() != "SetWithLog" {
					continue
				}
				cls := txClosures(fn, runInTx)
				touchesRefs, touchesLogs := false, false
				isWrite := func(c ssa.CallInstruction) bool {
					if _, _, ok := isSQLCall(c); !ok {
						return false
					}
					q, ok := queryText(c)
					return ok && sqlWrites(q)
				}
				for cl := range cls {
					for _, e := range effSitesPred(cl, isWrite, inlineDepth) {
						q, _ := queryText(e.inner)
						ws := sqlWords(q)
						tbl := ""
						for i, w := range ws {
							if (w == "INTO" || w == "FROM" || w == "UPDATE") && i+1 < len(ws) {
								tbl = ws[i+1]
								break
							}
						}
						if tbl == "REFS" {
							touchesRefs = true
						}
						if tbl == "REFLOGS" {
							touchesLogs = true
						}
					}
				}
				key := funcName(fn) + "|refs+reflogs"
				what := "ref row and its log rows change in the same transaction"
				switch {
				case len(cls) == 0:
					r.bad(key, p.Rel(fn.Pos()), what, "no RunInTx closure")
				case touchesRefs && !touchesLogs:
					r.bad(key, p.Rel(fn.Pos()), what, "the closure writes refs but no statement touches reflogs: the log is left behind")
				case !touchesRefs:
					r.bad(key, p.Rel(fn.Pos()), what, "the closure does not write refs")
				default:
					r.ok(key, p.Rel(fn.Pos()), what)
				}
			}
			return nil
		},
	})
}

// reachAfterBlockStart: reachability of `to` from the first instruction of block b.
func reachAfterBlockStart(fn *ssa.Function, b *ssa.BasicBlock, to ssa.Instruction, block map[ssa.Instruction]bool) ([]int, bool) {
	if len(b.Instrs) == 0 {
		return nil, false
	}
	first := b.Instrs[0]
	if first == to {
		return []int{b.Index}, true
	}
	if block[first] {
		return nil, false
	}
	return reachAfter(fn, first, to, nil, block)
}

// variadicElems returns the values stored into the variadic slice of a call.
func variadicElems(c ssa.CallInstruction) []ssa.Value {
	args := c.Common().Args
	if len(args) == 0 {
		return nil
	}
	last := args[len(args)-1]
	sl, ok := last.(*ssa.Slice)
	if !ok {
		return nil
	}
	al, ok := sl.X.(*ssa.Alloc)
	if !ok {
		return nil
	}
	type el struct {
		i int64
		v ssa.Value
	}
	var els []el
	for _, ref := range *al.Referrers() {
		ia, ok := ref.(*ssa.IndexAddr)
		if !ok {
			continue
		}
		idx, ok := constInt(ia.Index)
		if !ok {
			continue
		}
		for _, r2 := range *ia.Referrers() {
			if st, ok := r2.(*ssa.Store); ok && st.Addr == ia {
				els = append(els, el{idx, st.Val})
			}
		}
	}
	sort.Slice(els, func(i, j int) bool { return els[i].i < els[j].i })
	var out []ssa.Value
	for _, e := range els {
		out = append(out, e.v)
	}
	return out
}

// placeholderIndexOfColumn maps a column of "INSERT INTO t (cols) VALUES (items)" to
// the index of the '?' placeholder bound to it.
func placeholderIndexOfColumn(q, col string) (int, error) {
	up := strings.ToUpper(q)
	i := strings.Index(up, "(")
	v := strings.Index(up, "VALUES")
	if i < 0 || v < 0 || i > v {
		return 0, fmt.Errorf("not an INSERT … (cols) VALUES (…) statement")
	}
	colsEnd := strings.LastIndex(q[:v], ")")
	cols := splitTop(q[i+1 : colsEnd])
	ci := -1
	for k, c := range cols {
		if strings.EqualFold(strings.TrimSpace(c), col) {
			ci = k
		}
	}
	if ci < 0 {
		return 0, fmt.Errorf("column %s not in the column list", col)
	}
	vs := strings.Index(q[v:], "(")
	if vs < 0 {
		return 0, fmt.Errorf("no VALUES list")
	}
	rest := q[v+vs+1:]
	// cut at the matching parenthesis
	depth, end := 1, -1
	for k, ch := range rest {
		if ch == '(' {
			depth++
		}
		if ch == ')' {
			depth--
			if depth == 0 {
				end = k
				break
			}
		}
	}
	if end < 0 {
		return 0, fmt.Errorf("unbalanced VALUES list")
	}
	items := splitTop(rest[:end])
	if ci >= len(items) {
		return 0, fmt.Errorf("VALUES list shorter than the column list")
	}
	if strings.TrimSpace(items[ci]) != "?" {
		return 0, fmt.Errorf("column %s is not bound to a plain placeholder", col)
	}
	n := 0
	for k := 0; k < ci; k++ {
		n += strings.Count(items[k], "?")
	}
	return n, nil
}

func splitTop(s string) []string {
	var out []string
	depth, start := 0, 0
	for i, ch := range s {
		switch ch {
		case '(':
			depth++
		case ')':
			depth--
		case ',':
			if depth == 0 {
				out = append(out, s[start:i])
				start = i + 1
			}
		}
	}
	return append(out, s[start:])
}

// scannedFromTx: &al is passed to a Scan call on a *sql.Row(s) obtained from a
// Query/QueryRow on tx.
// scanFilled: v, a value of fn, holds what a Scan on a query of the transaction txv
// read: a local passed by address to row.Scan (on every path to the read, and never
// overwritten from the caller's Reflog), or the result of a helper of the package
// that is handed the transaction and returns such a value.
func scanFilled(fn *ssa.Function, v ssa.Value, txv ssa.Value, depth int) (bool, string) {
	v = stripConv(v)
	notScan := "the bound value is not a variable filled by row.Scan on a tx.QueryRow result"
	switch x := v.(type) {
	case *ssa.UnOp:
		if x.Op != token.MUL {
			return false, notScan
		}
		al, ok := x.X.(*ssa.Alloc)
		if !ok || !scannedFromTx(fn, al, txv) {
			return false, notScan
		}
		scans := map[ssa.Instruction]bool{}
		eachCall(fn, func(sc ssa.CallInstruction) {
			if f := calleeFunc(sc); f != nil && f.Name() == "Scan" && f.Pkg() != nil && f.Pkg().Path() == "database/sql" {
				scans[sc] = true
			}
		})
		if path, reach := reachAfter(fn, nil, x, nil, scans); reach {
			return false, fmtPath("the INSERT is reachable without reading the old value in this transaction", path)
		}
		for _, ref := range *al.Referrers() {
			if st, isSt := ref.(*ssa.Store); isSt && st.Addr == ssa.Value(al) {
				for y := range backward(st.Val, nil) {
					switch y.(type) {
					case *ssa.FreeVar, *ssa.Parameter:
						if strings.Contains(y.Type().String(), "Reflog") {
							return false, "a value taken from the caller-supplied Reflog is stored into the variable bound to oldoid"
						}
					}
				}
			}
		}
		return true, ""
	case *ssa.Phi:
		n := 0
		for _, e := range x.Edges {
			if c, ok := stripConv(e).(*ssa.Const); ok && c.IsNil() {
				continue
			}
			if ok, why := scanFilled(fn, e, txv, depth); !ok {
				return false, why
			}
			n++
		}
		return n > 0, notScan
	case *ssa.Extract:
		call, ok := x.Tuple.(*ssa.Call)
		if !ok {
			return false, notScan
		}
		return scanFilledResult(fn, call, x.Index, txv, depth)
	case *ssa.Call:
		return scanFilledResult(fn, x, 0, txv, depth)
	}
	return false, notScan
}

func scanFilledResult(fn *ssa.Function, call *ssa.Call, idx int, txv ssa.Value, depth int) (bool, string) {
	notScan := "the bound value is not a variable filled by row.Scan on a tx.QueryRow result"
	h := call.Call.StaticCallee()
	if depth <= 0 || h == nil || len(h.Blocks) == 0 || fnPkgPath(h) != fnPkgPath(fn) {
		return false, notScan
	}
	var htx ssa.Value
	for i, a := range call.Call.Args {
		if stripConv(a) == txv && i < len(h.Params) {
			htx = h.Params[i]
		}
	}
	if htx == nil {
		return false, "the helper that reads the old value is not given the transaction handle"
	}
	n := 0
	for _, b := range h.Blocks {
		if len(b.Instrs) == 0 {
			continue
		}
		ret, ok := b.Instrs[len(b.Instrs)-1].(*ssa.Return)
		if !ok || idx >= len(ret.Results) {
			continue
		}
		if c, ok := stripConv(ret.Results[idx]).(*ssa.Const); ok && c.IsNil() {
			continue
		}
		if ok, why := scanFilled(h, ret.Results[idx], htx, depth-1); !ok {
			return false, why
		}
		n++
	}
	if n == 0 {
		return false, notScan
	}
	return true, ""
}

func scannedFromTx(fn *ssa.Function, al *ssa.Alloc, tx ssa.Value) bool {
	ok := false
	eachCall(fn, func(c ssa.CallInstruction) {
		f := calleeFunc(c)
		if f == nil || f.Name() != "Scan" || f.Pkg() == nil || f.Pkg().Path() != "database/sql" {
			return
		}
		passes := false
		for _, v := range variadicElems(c) {
			if stripConv(v) == al {
				passes = true
			}
		}
		if !passes {
			return
		}
		recv := stripConv(c.Common().Args[0])
		if q, isCall := recv.(*ssa.Call); isCall {
			if kind, _, isSQL := isSQLCall(q); isSQL && kind == "Tx" && stripConv(q.Call.Args[0]) == tx {
				ok = true
			}
		}
	})
	return ok
}

// ---- fs ref store: files are replaced or appended to, never overwritten in place ----

func init() {
	register(&Rule{
		ID: "C15-j", Template: "T10 agreement (open flags of a rewritten file)",
		Doc: "A ref or log file that is written anew does not keep the tail of what was there: in pkg/ref/fs every os.OpenFile that opens for writing carries os.O_TRUNC, os.O_APPEND or os.O_EXCL in every flag value that reaches it (constants, `|` expressions and flag parameters of helpers, followed to the helpers' call sites). Copying a log over a longer one through a descriptor opened with O_CREATE|O_WRONLY alone leaves the old entries behind the new ones — the copied ref's log is no longer the source's log.",
		Min: 1,
		Run: func(p *Program, r *RuleResult) error {
			if _, err := p.SSAFunc("pkg/ref/fs.(*Store).Copy"); err != nil {
				return err
			}
			fns := p.FuncsInPkg("pkg/ref/fs")
			r.Analysed = len(fns)
			// the flag values of the configuration that is being analysed
			osPkg, err := p.TypesPkg("os")
			if err != nil {
				return err
			}
			flag := func(name string) int64 {
				if c, ok := osPkg.Scope().Lookup(name).(*types.Const); ok {
					if v, ok := constant.Int64Val(constant.ToInt(c.Val())); ok {
						return v
					}
				}
				return -1
			}
			oWRONLY, oRDWR, oAPPEND, oEXCL, oTRUNC := flag("O_WRONLY"), flag("O_RDWR"), flag("O_APPEND"), flag("O_EXCL"), flag("O_TRUNC")
			if oWRONLY < 0 || oRDWR < 0 || oAPPEND < 0 || oEXCL < 0 || oTRUNC < 0 {
				return &AnchorError{"os.O_* constants"}
			}
			// possible values of an int expression
			var eval func(fn *ssa.Function, v ssa.Value, depth int) ([]int64, bool)
			eval = func(fn *ssa.Function, v ssa.Value, depth int) ([]int64, bool) {
				v = stripConv(v)
				if k, ok := constInt(v); ok {
					return []int64{k}, true
				}
				switch x := v.(type) {
				case *ssa.BinOp:
					if x.Op != token.OR {
						return nil, false
					}
					as, ok1 := eval(fn, x.X, depth)
					bs, ok2 := eval(fn, x.Y, depth)
					if !ok1 || !ok2 {
						return nil, false
					}
					var out []int64
					for _, a := range as {
						for _, b := range bs {
							out = append(out, a|b)
						}
					}
					return out, true
				case *ssa.Phi:
					var out []int64
					for _, e := range x.Edges {
						vs, ok := eval(fn, e, depth)
						if !ok {
							return nil, false
						}
						out = append(out, vs...)
					}
					return out, true
				case *ssa.Parameter:
					if depth <= 0 {
						return nil, false
					}
					idx := -1
					for i, prm := range fn.Params {
						if prm == x {
							idx = i
						}
					}
					node := p.CG.Nodes[fn]
					if idx < 0 || node == nil || len(node.In) == 0 {
						return nil, false
					}
					var out []int64
					for _, e := range node.In {
						if e.Site == nil || idx >= len(e.Site.Common().Args) {
							return nil, false
						}
						vs, ok := eval(e.Caller.Func, e.Site.Common().Args[idx], depth-1)
						if !ok {
							return nil, false
						}
						out = append(out, vs...)
					}
					return out, true
				}
				return nil, false
			}
			n := 0
			for _, fn := range fns {
				eachCall(fn, func(c ssa.CallInstruction) {
					f := calleeFunc(c)
					if f == nil || f.Pkg() == nil || f.Pkg().Path() != "os" || f.Name() != "OpenFile" || len(c.Common().Args) < 2 {
						return
					}
					key := callKey(fn, c) + "|flags"
					what := "a file opened for writing is truncated, appended to or created exclusively"
					n++
					vals, ok := eval(fn, c.Common().Args[1], 3)
					if !ok {
						r.bad(key, p.Rel(c.Pos()), what, "the open flags are not a combination of constants that can be followed to the call sites")
						return
					}
					for _, v := range vals {
						if v&(oWRONLY|oRDWR) != 0 && v&(oTRUNC|oAPPEND|oEXCL) == 0 {
							r.bad(key, p.Rel(c.Pos()), what, fmt.Sprintf("flags %#x open for writing without O_TRUNC / O_APPEND / O_EXCL: shorter new content leaves the tail of the old file in place", v))
							return
						}
					}
					r.ok(key, p.Rel(c.Pos()), what)
				})
			}
			if n == 0 {
				r.ok("pkg/ref/fs|no-OpenFile", "", "a file opened for writing is truncated, appended to or created exclusively")
			}
			return nil
		},
	})
}
