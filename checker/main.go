package main

// wrglcheck — repository-specific static analyser for wrgl/wrgl.
// See /verif/DESIGN.md. Nothing in /repo is executed.

import (
	"bytes"
	"encoding/json"
	"flag"
	"fmt"
	"os"
	"os/exec"
	"path/filepath"
	"runtime"
	"runtime/debug"
	"sort"
	"strconv"
	"strings"
	"sync"
	"time"
)

var rules = map[string]*Rule{}

func register(r *Rule) {
	if rules[r.ID] != nil {
		panic("duplicate rule " + r.ID)
	}
	rules[r.ID] = r
}

type propSpec struct {
	Rules       []string
	Decides     string
	NotDecided  string
	Assumptions []string
}

var props = map[string]*propSpec{}

func ruleList(prop string) []*Rule {
	ps := props[prop]
	if ps == nil {
		return nil
	}
	var out []*Rule
	for _, id := range ps.Rules {
		r := rules[id]
		if r == nil {
			panic("property " + prop + " names unknown rule " + id)
		}
		out = append(out, r)
	}
	return out
}

var (
	flagProp    = flag.String("prop", "", "property id (C01…)")
	flagTier    = flag.String("tier", "quick", "quick|thorough")
	flagRepo    = flag.String("repo", "/repo", "repository working tree")
	flagVerif   = flag.String("verif", "/verif", "verif directory")
	flagVariant = flag.String("variant", "", "selftest patch: apply in memory (overlay), run its rule, print violated keys as JSON")
	flagReplay  = flag.String("replay", "", "replay file to re-evaluate")
	flagGOOS    = flag.String("goos", "", "alternative GOOS configuration")
	flagRule    = flag.String("rule", "", "run only this rule (debug)")
	flagDump    = flag.Bool("dump", false, "print all obligations (debug)")
	flagKeys    = flag.Bool("keys-only", false, "child mode: print violated keys as JSON for -prop under -goos/-cg")
	flagCG      = flag.String("cg", "vta", "call graph used for reachability: vta|cha")
	flagNoSelf  = flag.Bool("no-selftest", false, "skip rule self-validation variants")
	flagAll     = flag.Bool("all", false, "development aid: load once, run every rule, print new violations per property (no evidence, no self-validation)")
)

func main() {
	flag.Parse()
	debug.SetGCPercent(200)
	code := 0
	func() {
		defer func() {
			if x := recover(); x != nil {
				fmt.Fprintf(os.Stderr, "wrglcheck: internal failure: %v\n%s\n", x, debug.Stack())
				code = 2
			}
		}()
		switch {
		case *flagAll:
			code = runAll()
		case *flagVariant != "":
			code = runVariant(*flagVariant)
		case *flagReplay != "":
			code = runReplay(*flagReplay)
		case *flagKeys:
			code = runKeysOnly()
		default:
			code = runProperty()
		}
	}()
	os.Exit(code)
}

func loadMain(overlay map[string][]byte, goos string) *Program {
	p, err := Load(LoadOpts{RepoDir: *flagRepo, GOOS: goos, Overlay: overlay})
	if err != nil {
		fmt.Fprintf(os.Stderr, "wrglcheck: cannot load %s: %v\n", *flagRepo, err)
		os.Exit(2)
	}
	if *flagCG == "cha" {
		p.CG = p.CHA
	}
	return p
}

type violatedKey struct {
	Rule, Key, Status, Pos, What string
}

func collectBad(results []*RuleResult) []violatedKey {
	var out []violatedKey
	for _, r := range results {
		for _, o := range r.Obligations {
			if o.Status == Violated || o.Status == Missing {
				out = append(out, violatedKey{r.Rule, o.Key, o.Status, o.Pos, o.What})
			}
		}
	}
	return out
}

// ---------- main property run ----------

func runProperty() int {
	t0 := time.Now()
	prop := *flagProp
	ps := props[prop]
	if ps == nil {
		fmt.Fprintf(os.Stderr, "wrglcheck: unknown or unclaimed property %q\n", prop)
		return 2
	}
	seed, _ := strconv.Atoi(os.Getenv("VERIF_SEED"))
	known, err := loadKnown(filepath.Join(*flagVerif, "known_findings.json"))
	if err != nil {
		fmt.Fprintf(os.Stderr, "wrglcheck: known_findings.json: %v\n", err)
		return 2
	}

	// self-validation variants run as child processes, concurrently with the main analysis
	var selfWG sync.WaitGroup
	var selfRes []variantResult
	var variants []*variantSpec
	if !*flagNoSelf && *flagRule == "" {
		variants = listVariants(filepath.Join(*flagVerif, "selftest"), prop, *flagTier)
		selfRes = make([]variantResult, len(variants))
		sem := make(chan struct{}, maxPar())
		for i, v := range variants {
			selfWG.Add(1)
			go func(i int, v *variantSpec) {
				defer selfWG.Done()
				sem <- struct{}{}
				defer func() { <-sem }()
				selfRes[i] = runVariantChild(v)
			}(i, v)
		}
	}
	// alternative configurations (thorough): GOOS=darwin and CHA call graph
	type altCfg struct {
		name string
		args []string
		keys []violatedKey
		err  string
	}
	var alts []*altCfg
	if *flagTier == "thorough" && *flagRule == "" {
		alts = []*altCfg{{name: "GOOS=darwin", args: []string{"-goos", "darwin"}}, {name: "callgraph=cha", args: []string{"-cg", "cha"}}}
		for _, a := range alts {
			selfWG.Add(1)
			go func(a *altCfg) {
				defer selfWG.Done()
				a.keys, a.err = runKeysChild(prop, a.args)
			}(a)
		}
	}

	p := loadMain(nil, *flagGOOS)
	var results []*RuleResult
	for _, r := range ruleList(prop) {
		if *flagRule != "" && r.ID != *flagRule {
			continue
		}
		results = append(results, runRule(p, r))
	}
	selfWG.Wait()

	// verdicts
	nObl, nDis, nEx, nViol, nKnown := 0, 0, 0, 0, 0
	var lines []string
	var samples []Obligation
	baseBad := map[string]bool{}
	for _, r := range results {
		for _, o := range r.Obligations {
			nObl++
			switch o.Status {
			case Discharged:
				nDis++
			case Exempt:
				nEx++
			case Violated, Missing:
				baseBad[o.Rule+"|"+o.Key] = true
				if kf := known.match(prop, o); kf != nil && o.Status == Violated {
					nKnown++
					lines = append(lines, fmt.Sprintf("KNOWN-FINDING: property=%s %s [%s %s at %s]", prop, kf.What, o.Rule, o.Key, o.Pos))
				} else {
					nViol++
					rp := writeReplay(filepath.Join(*flagVerif, "replays"), prop, o)
					lines = append(lines, fmt.Sprintf("%s: %s: %s: %s — %s", o.Pos, o.Rule, o.Key, o.What, o.Witness))
					lines = append(lines, fmt.Sprintf("VIOLATION property=%s replay=%s", prop, rp))
				}
			}
		}
		samples = append(samples, trimObl(r.Obligations, 40)...)
	}
	if *flagDump {
		for _, r := range results {
			fmt.Printf("== %s (%s) min=%d analysed=%d\n", r.Rule, r.Template, r.Min, r.Analysed)
			for _, n := range r.Notes {
				fmt.Printf("   note: %s\n", n)
			}
			for _, o := range r.Obligations {
				fmt.Printf("   [%s] %s  %s  %s %s %s\n", o.Status, o.Pos, o.Key, o.What, o.Witness, o.Reason)
			}
		}
	}

	// self-validation verdicts
	selfFail := 0
	var selfOut []map[string]interface{}
	for i, v := range variants {
		sr := selfRes[i]
		verdict := judgeVariant(v, sr, baseBad)
		if strings.HasPrefix(verdict, "FAILED") {
			selfFail++
			lines = append(lines, fmt.Sprintf("SELFTEST-FAILED %s (%s, rule %s): %s", filepath.Base(v.Path), v.Kind, v.Rule, verdict))
		}
		selfOut = append(selfOut, map[string]interface{}{"variant": filepath.Base(v.Path), "kind": v.Kind, "rule": v.Rule, "desc": v.Desc, "verdict": verdict})
	}
	var altOut []map[string]interface{}
	for _, a := range alts {
		m := map[string]interface{}{"configuration": a.name}
		if a.err != "" {
			m["error"] = a.err
			selfFail++
			lines = append(lines, "ALT-CONFIG-FAILED "+a.name+": "+a.err)
		} else {
			var extra []string
			altSet := map[string]bool{}
			for _, k := range a.keys {
				altSet[k.Rule+"|"+k.Key] = true
				if !baseBad[k.Rule+"|"+k.Key] {
					extra = append(extra, k.Rule+"|"+k.Key+" at "+k.Pos)
				}
			}
			var fewer []string
			for k := range baseBad {
				if !altSet[k] {
					fewer = append(fewer, k)
				}
			}
			sort.Strings(extra)
			sort.Strings(fewer)
			m["violations_only_in_this_configuration"] = extra
			m["violations_only_in_default_configuration"] = fewer
			if a.name == "GOOS=darwin" {
				// a second build configuration is part of the verdict
				for _, k := range a.keys {
					if !baseBad[k.Rule+"|"+k.Key] {
						o := Obligation{Rule: k.Rule, Key: k.Key, Pos: k.Pos, What: k.What, Status: k.Status, Witness: "only under GOOS=darwin"}
						if known.match(prop, o) == nil {
							nViol++
							rp := writeReplay(filepath.Join(*flagVerif, "replays"), prop, o)
							lines = append(lines, fmt.Sprintf("%s: %s: %s (GOOS=darwin)", k.Pos, k.Rule, k.Key))
							lines = append(lines, fmt.Sprintf("VIOLATION property=%s replay=%s", prop, rp))
						}
					}
				}
			}
		}
		altOut = append(altOut, m)
	}

	for _, l := range lines {
		fmt.Println(l)
	}

	// evidence
	var ruleSumm []map[string]interface{}
	nFuncs := 0
	for _, r := range results {
		cnt := map[string]int{}
		for _, o := range r.Obligations {
			cnt[o.Status]++
		}
		nFuncs += r.Analysed
		ruleSumm = append(ruleSumm, map[string]interface{}{
			"rule": r.Rule, "template": r.Template, "doc": r.Doc, "frozen_min_instances": r.Min,
			"functions_analysed": r.Analysed, "obligations": len(r.Obligations), "by_status": cnt, "notes": r.Notes,
		})
	}
	distinct := map[string]bool{}
	for _, r := range results {
		for _, o := range r.Obligations {
			distinct[o.Rule+"|"+o.Key] = true
		}
	}
	var pkgNames []string
	for _, pk := range p.Pkgs {
		if !isHelperPkg(pk.PkgPath) {
			pkgNames = append(pkgNames, strings.TrimPrefix(pk.PkgPath, modPath+"/"))
		}
	}
	ev := Evidence{
		PropertyID: prop, Tier: *flagTier, Seed: seed, Level: "other",
		Coverage: map[string]interface{}{
			"explanation": "Static analysis of /repo's current working tree (type-checked with go/packages, lowered to go/ssa, VTA call graph). " +
				"Each rule is evaluated on every path of every function it applies to; an obligation is one rule instance on one construct (function + call site / value). " +
				"Decides: " + ps.Decides + " Does NOT decide: " + ps.NotDecided,
			"obligations":                nObl,
			"discharged":                 nDis,
			"exempt_by_named_exception":  nEx,
			"violated_new":               nViol,
			"violated_known_findings":    nKnown,
			"evaluations":                nObl,
			"distinct_nontrivial":        len(distinct),
			"rule":                       "one obligation per (rule, construct); constructs are discovered through the type-checked program and call graph, not named; distinct = distinct (rule,construct-key) pairs",
			"samples":                    samples,
			"rules":                      ruleSumm,
			"packages_analysed":          len(pkgNames),
			"packages_total_in_closure":  p.NTotal,
			"package_list":               pkgNames,
			"repo_functions_with_ssa":    len(p.RepoFuncs),
			"callgraph":                  map[string]interface{}{"algorithm": "VTA seeded with CHA (golang.org/x/tools v0.29.0)", "nodes": len(p.CG.Nodes)},
			"build_configurations":       append([]string{runtime.GOOS + "/" + runtime.GOARCH + " (default tags)"}, altNames(altOut)...),
			"alternative_configurations": altOut,
			"rule_self_validation":       selfOut,
			"helper_packages_excluded":   helperPkgSuffixes,
			"checker_cmd":                "/verif/check " + prop + " " + *flagTier,
			"trusted_base": []string{"go/types and go/ssa (x/tools v0.29.0) model Go's semantics faithfully",
				"VTA call graph is sound for the repo's reflection-free code (reflect.Select in merge.mergeTables only hides channel receives)",
				"frozen tables of anchors/exceptions in /verif/checker (each exception one named symbol with a reason)",
				"third-party stores (badger transactions, SQLite transactions) are atomic as documented"},
			"exhaustive": true,
			"load_s":     p.LoadSecs,
		},
		Assumptions: append([]string{"the analysed program is /repo's working tree under the default build tags; test files and test-helper packages (mock, helpers, testutils, factory) are not production code", "structural rules decide necessary conditions of the property, not the property's behaviour"}, ps.Assumptions...),
		WallS:       time.Since(t0).Seconds(),
		Violations:  nViol,
	}
	if *flagRule == "" {
		os.MkdirAll(filepath.Join(*flagVerif, "evidence"), 0o755)
		b, _ := json.MarshalIndent(ev, "", " ")
		if err := os.WriteFile(filepath.Join(*flagVerif, "evidence", prop+".json"), append(b, '\n'), 0o644); err != nil {
			fmt.Fprintf(os.Stderr, "wrglcheck: writing evidence: %v\n", err)
			return 2
		}
	}
	fmt.Printf("wrglcheck %s %s: %d rules, %d obligations: %d discharged, %d exempt, %d known findings, %d NEW violations; %d self-validation variants (%d failed); %.1fs\n",
		prop, *flagTier, len(results), nObl, nDis, nEx, nKnown, nViol, len(variants), selfFail, time.Since(t0).Seconds())
	if nViol > 0 {
		return 1
	}
	if selfFail > 0 {
		return 2
	}
	return 0
}

func altNames(alts []map[string]interface{}) []string {
	var o []string
	for _, a := range alts {
		o = append(o, a["configuration"].(string))
	}
	return o
}

func maxPar() int {
	n := runtime.NumCPU() / 3
	if n < 1 {
		n = 1
	}
	if n > 5 {
		n = 5
	}
	return n
}

// ---------- child modes ----------

func runKeysOnly() int {
	p := loadMain(nil, *flagGOOS)
	var results []*RuleResult
	for _, r := range ruleList(*flagProp) {
		results = append(results, runRule(p, r))
	}
	b, _ := json.Marshal(collectBad(results))
	fmt.Println("KEYS " + string(b))
	return 0
}

func selfExe() string {
	exe, err := os.Executable()
	if err != nil {
		return os.Args[0]
	}
	return exe
}

func runKeysChild(prop string, extra []string) ([]violatedKey, string) {
	args := append([]string{"-keys-only", "-prop", prop, "-repo", *flagRepo, "-verif", *flagVerif}, extra...)
	cmd := exec.Command(selfExe(), args...)
	cmd.Env = append(os.Environ(), "GOMAXPROCS=4")
	var out, errb bytes.Buffer
	cmd.Stdout, cmd.Stderr = &out, &errb
	if err := cmd.Run(); err != nil {
		return nil, fmt.Sprintf("%v: %s", err, lastLines(errb.String(), 5))
	}
	for _, l := range strings.Split(out.String(), "\n") {
		if strings.HasPrefix(l, "KEYS ") {
			var ks []violatedKey
			if err := json.Unmarshal([]byte(l[5:]), &ks); err != nil {
				return nil, err.Error()
			}
			return ks, ""
		}
	}
	return nil, "no KEYS line in child output"
}

func lastLines(s string, n int) string {
	ls := strings.Split(strings.TrimSpace(s), "\n")
	if len(ls) > n {
		ls = ls[len(ls)-n:]
	}
	return strings.Join(ls, " | ")
}

// ---------- replay ----------

func runReplay(path string) int {
	b, err := os.ReadFile(path)
	if err != nil {
		fmt.Fprintf(os.Stderr, "wrglcheck: %v\n", err)
		return 2
	}
	var rp Replay
	if err := json.Unmarshal(b, &rp); err != nil {
		fmt.Fprintf(os.Stderr, "wrglcheck: %v\n", err)
		return 2
	}
	r := rules[rp.Rule]
	if r == nil {
		fmt.Fprintf(os.Stderr, "wrglcheck: replay names unknown rule %s\n", rp.Rule)
		return 2
	}
	p := loadMain(nil, *flagGOOS)
	res := runRule(p, r)
	for _, o := range res.Obligations {
		if o.Key == rp.Key && (o.Status == Violated || o.Status == Missing) {
			fmt.Printf("%s: %s: %s: %s — %s\n", o.Pos, o.Rule, o.Key, o.What, o.Witness)
			fmt.Printf("VIOLATION property=%s replay=%s\n", rp.Property, path)
			return 1
		}
	}
	fmt.Printf("replay %s: obligation %s|%s is not violated on the current tree\n", path, rp.Rule, rp.Key)
	return 0
}

// runAll: one load, every rule, violations grouped by property (known findings filtered).
func runAll() int {
	known, err := loadKnown(filepath.Join(*flagVerif, "known_findings.json"))
	if err != nil {
		fmt.Fprintln(os.Stderr, err)
		return 2
	}
	p := loadMain(nil, *flagGOOS)
	cache := map[string]*RuleResult{}
	var propIDs []string
	for id := range props {
		propIDs = append(propIDs, id)
	}
	sort.Strings(propIDs)
	total := 0
	for _, id := range propIDs {
		var fired []string
		for _, r := range ruleList(id) {
			rr := cache[r.ID]
			if rr == nil {
				rr = runRule(p, r)
				cache[r.ID] = rr
			}
			for _, o := range rr.Obligations {
				if (o.Status == Violated || o.Status == Missing) && known.match(id, o) == nil {
					fired = append(fired, fmt.Sprintf("%s %s @%s", o.Rule, o.Key, o.Pos))
				}
			}
		}
		if len(fired) > 0 {
			total += len(fired)
			fmt.Printf("FIRED %s (%d):\n", id, len(fired))
			for _, f := range fired {
				fmt.Printf("    %s\n", f)
			}
		}
	}
	fmt.Printf("ALL: %d properties, %d rules, %d new violations\n", len(propIDs), len(cache), total)
	if total > 0 {
		return 1
	}
	return 0
}
