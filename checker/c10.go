package main

// C10: without force a ref only moves forward — T4 permit-cut.

import (
	"fmt"
	"go/types"
	"regexp"
	"sort"
	"strings"

	"golang.org/x/tools/go/ssa"
)

type updateSite struct {
	in   ssa.Instruction
	key  string
	desc string
}

type c10ctx struct {
	p          *Program
	rw         *refWriteSummary
	isAnc      map[*types.Func]bool
	oldGetters map[*types.Func]bool
	forceField *types.Var
	rpu        *types.Named // cmd/wrgl.receivePackUpdate
	rpuSum     *types.Var
}

func newC10(p *Program) (*c10ctx, error) {
	c := &c10ctx{p: p}
	var err error
	if c.rw, err = newRefWriteSummary(p); err != nil {
		return nil, err
	}
	if c.isAnc, err = p.MustFuncs("pkg/ref.IsAncestorOf"); err != nil {
		return nil, err
	}
	if c.oldGetters, err = p.MustFuncs("pkg/ref.GetRef", "pkg/ref.GetHead", "pkg/ref.GetRemoteRef", "pkg/ref.GetTag"); err != nil {
		return nil, err
	}
	store, err := p.NamedType("pkg/ref.Store")
	if err != nil {
		return nil, err
	}
	if iface, ok := store.Underlying().(*types.Interface); ok {
		for i := 0; i < iface.NumMethods(); i++ {
			if iface.Method(i).Name() == "Get" {
				c.oldGetters[iface.Method(i)] = true
			}
		}
	}
	if c.forceField, err = p.Field("pkg/conf.Refspec.Force"); err != nil {
		return nil, err
	}
	if c.rpu, err = p.NamedType("cmd/wrgl.receivePackUpdate"); err != nil {
		return nil, err
	}
	if c.rpuSum, err = p.Field("cmd/wrgl.receivePackUpdate.Sum"); err != nil {
		return nil, err
	}
	return c, nil
}

var forceName = regexp.MustCompile(`(?i)force`)

// sites: ref-write calls and push-update literals in fn.
func (c *c10ctx) sites(fn *ssa.Function) []updateSite {
	var out []updateSite
	nAlloc := 0
	for _, b := range fn.Blocks {
		for _, in := range b.Instrs {
			switch x := in.(type) {
			case ssa.CallInstruction:
				if len(c.rw.sumArgs(x)) > 0 {
					out = append(out, updateSite{x, callKey(fn, x), "ref write"})
				}
			case *ssa.Alloc:
				if pt, ok := x.Type().(*types.Pointer); ok && types.Identical(pt.Elem(), c.rpu) {
					out = append(out, updateSite{x, fmt.Sprintf("%s|new(receivePackUpdate)#%d", funcName(fn), nAlloc), "push update request"})
					nAlloc++
				}
			}
		}
	}
	return out
}

type permits struct {
	ancestor, force, newRef, del, notTag []edge
}

func (c *c10ctx) permits(fn *ssa.Function) permits {
	var pm permits
	// ancestor
	var anc []ssa.Value
	var old []ssa.Value
	var tagTests []ssa.Value
	eachCall(fn, func(ci ssa.CallInstruction) {
		call, ok := ci.(*ssa.Call)
		if !ok {
			return
		}
		f := calleeFunc(call)
		if f == nil {
			return
		}
		if c.isAnc[f] {
			for _, ref := range *call.Referrers() {
				if ex, ok := ref.(*ssa.Extract); ok && ex.Index == 0 {
					anc = append(anc, ex)
				}
			}
		}
		if c.oldGetters[f] {
			for _, ref := range *call.Referrers() {
				if ex, ok := ref.(*ssa.Extract); ok && ex.Index == 0 {
					old = append(old, ex)
				}
			}
		}
		if f.Pkg() != nil && f.Pkg().Path() == "strings" && f.Name() == "HasPrefix" && len(call.Call.Args) == 2 {
			if s, ok := constString(call.Call.Args[1]); ok && (s == "tags/" || s == "refs/tags/") {
				tagTests = append(tagTests, call)
			}
		}
	})
	pm.ancestor = boolEdges(fn, forward(anc, fwdOpts{noBinOp: true}), true)
	pm.notTag = boolEdges(fn, forward(tagTests, fwdOpts{noBinOp: true}), false)
	// force: loads of Refspec.Force and bool params named *force*
	var force []ssa.Value
	for _, par := range fn.Params {
		if b, ok := par.Type().Underlying().(*types.Basic); ok && b.Kind() == types.Bool && forceName.MatchString(par.Name()) {
			force = append(force, par)
		}
	}
	for _, fv := range fn.FreeVars {
		if forceName.MatchString(fv.Name()) {
			force = append(force, fv)
		}
	}
	for _, b := range fn.Blocks {
		for _, in := range b.Instrs {
			switch x := in.(type) {
			case *ssa.FieldAddr:
				if structField(x.X.Type(), x.Field) == c.forceField {
					for _, ref := range *x.Referrers() {
						if u, ok := ref.(*ssa.UnOp); ok {
							force = append(force, u)
						}
					}
				}
			case *ssa.Field:
				if structField(x.X.Type(), x.Field) == c.forceField {
					force = append(force, x)
				}
			case *ssa.Lookup:
				// v, ok := remoteRefs[dst]
				if x.CommaOk {
					if mt, ok := x.X.Type().Underlying().(*types.Map); ok {
						if sl, ok := mt.Elem().Underlying().(*types.Slice); ok && isByte(sl.Elem()) {
							var okv, val []ssa.Value
							for _, ref := range *x.Referrers() {
								if ex, ok := ref.(*ssa.Extract); ok {
									if ex.Index == 1 {
										okv = append(okv, ex)
									} else {
										val = append(val, ex)
									}
								}
							}
							pm.newRef = append(pm.newRef, boolEdges(fn, forward(okv, fwdOpts{noBinOp: true}), false)...)
							old = append(old, val...)
						}
					}
				}
			}
		}
	}
	// a local bool may alias the force test through φ of the short-circuit form
	pm.force = boolEdges(fn, forward(force, fwdOpts{noBinOp: true}), true)
	// new ref: old value == nil
	oldSet := forward(old, fwdOpts{noBinOp: true})
	pm.newRef = append(pm.newRef, nilEdges(fn, oldSet)...)
	// delete (push): the new value is nil
	var newVals []ssa.Value
	for _, b := range fn.Blocks {
		for _, in := range b.Instrs {
			if st, ok := in.(*ssa.Store); ok {
				if fa, ok := st.Addr.(*ssa.FieldAddr); ok && structField(fa.X.Type(), fa.Field) == c.rpuSum {
					newVals = append(newVals, st.Val)
				}
			}
		}
	}
	if len(newVals) > 0 {
		ns := map[ssa.Value]bool{}
		for _, v := range newVals {
			ns[v] = true
		}
		pm.del = nilEdges(fn, ns)
	}
	return pm
}

func isByte(t types.Type) bool {
	b, ok := t.Underlying().(*types.Basic)
	return ok && (b.Kind() == types.Byte || b.Kind() == types.Uint8)
}

func nilEdges(fn *ssa.Function, vals map[ssa.Value]bool) []edge {
	var out []edge
	for _, b := range fn.Blocks {
		if len(b.Instrs) == 0 {
			continue
		}
		if ifi, ok := b.Instrs[len(b.Instrs)-1].(*ssa.If); ok {
			if s, ok := nilTestEdge(ifi, vals); ok {
				out = append(out, edge{b, s})
			}
		}
	}
	return out
}

// scope: functions of cmd/wrgl/fetch with ref-write sites, and functions of
// cmd/wrgl that build push updates.
func (c *c10ctx) scope() []*ssa.Function {
	var out []*ssa.Function
	for _, fn := range c.p.FuncsInPkg("cmd/wrgl/fetch", "cmd/wrgl") {
		ss := c.sites(fn)
		if len(ss) == 0 {
			continue
		}
		if fnPkgPath(fn) == modPath+"/cmd/wrgl/fetch" {
			out = append(out, fn)
			continue
		}
		for _, s := range ss {
			if _, ok := s.in.(*ssa.Alloc); ok {
				out = append(out, fn)
				break
			}
		}
	}
	return out
}

func init() {
	register(&Rule{
		ID: "C10-a", Template: "T4 permit-cut",
		Doc: "In fetch (every function of cmd/wrgl/fetch that writes refs) and push (every function of cmd/wrgl that builds receivePackUpdate requests), each update site is unreachable once these permit edges are removed: IsAncestorOf()==true, force flag / Refspec.Force true, previous value absent (nil / not in the remote ref map), new value nil (push delete). A site reachable with no permit is a non-forced, non-fast-forward update for some history.",
		Min: 9,
		Run: func(p *Program, r *RuleResult) error {
			c, err := newC10(p)
			if err != nil {
				return err
			}
			fns := c.scope()
			r.Analysed = len(fns)
			for _, fn := range fns {
				pm := c.permits(fn)
				cut := mkCut(pm.ancestor, pm.force, pm.newRef, pm.del)
				r.note("%s: permits ancestor=%d force=%d new-ref=%d delete=%d", funcName(fn), len(pm.ancestor), len(pm.force), len(pm.newRef), len(pm.del))
				for _, s := range c.sites(fn) {
					what := s.desc + " requires fast-forward, force, new ref or delete"
					if path, reach := reachAfter(fn, nil, s.in, cut, nil); reach {
						r.bad(s.key, p.Rel(s.in.Pos()), what, fmtPath("site reachable from the function entry without any permit edge", path))
					} else {
						r.ok(s.key, p.Rel(s.in.Pos()), what)
					}
				}
			}
			return nil
		},
	})
	register(&Rule{
		ID: "C10-b", Template: "T4 permit-cut (tag clause)",
		Doc: "An existing tag is never overwritten without force: on paths that stay on the 'destination is a tag' side of every strings.HasPrefix(dst, \"tags/\") test, each update site needs a force / new-ref / delete permit — the ancestor permit is not enough.",
		Min: 9,
		Run: func(p *Program, r *RuleResult) error {
			c, err := newC10(p)
			if err != nil {
				return err
			}
			fns := c.scope()
			r.Analysed = len(fns)
			for _, fn := range fns {
				pm := c.permits(fn)
				cut := mkCut(pm.force, pm.newRef, pm.del, pm.notTag)
				r.note("%s: not-tag edges=%d", funcName(fn), len(pm.notTag))
				for _, s := range c.sites(fn) {
					what := s.desc + " on an existing tag requires force"
					if path, reach := reachAfter(fn, nil, s.in, cut, nil); reach {
						r.bad(s.key, p.Rel(s.in.Pos()), what, fmtPath("site reachable for a tag destination with a previous value and no force permit", path))
					} else {
						r.ok(s.key, p.Rel(s.in.Pos()), what)
					}
				}
			}
			return nil
		},
	})
	register(&Rule{
		ID: "C10-c", Template: "T3 who-may-call",
		Doc: "Every ref update is logged: the unlogged ref.Store.Set is invoked only by ref.SaveTag and ref.SaveTransactionRef; SetWithLog only by ref.SaveRef. Heads and remote-tracking refs therefore change only through the logging API.",
		Min: 3,
		Run: func(p *Program, r *RuleResult) error {
			rw, err := newRefWriteSummary(p)
			if err != nil {
				return err
			}
			allowed := map[string]string{
				"pkg/ref.SaveTag":            "Set",
				"pkg/ref.SaveTransactionRef": "Set",
				"pkg/ref.SaveRef":            "SetWithLog",
			}
			for a := range allowed {
				if _, err := p.Func(a); err != nil {
					return err
				}
			}
			fns := p.ProdFuncs()
			r.Analysed = len(fns)
			for _, fn := range fns {
				eachCall(fn, func(ci ssa.CallInstruction) {
					cc := ci.Common()
					if !cc.IsInvoke() || !rw.set[cc.Method] {
						return
					}
					what := "ref.Store." + cc.Method.Name() + " may be invoked only by the pkg/ref API that owns it"
					if allowed[funcName(fn)] == cc.Method.Name() {
						r.ok(callKey(fn, ci), p.Rel(ci.Pos()), what)
					} else {
						r.bad(callKey(fn, ci), p.Rel(ci.Pos()), what, funcName(fn)+" writes a ref through the raw store interface, bypassing the reflog / ref-kind discipline")
					}
				})
			}
			// concrete store methods called directly (not via the interface)
			for _, fn := range fns {
				eachCall(fn, func(ci ssa.CallInstruction) {
					sc := ci.Common().StaticCallee()
					if sc == nil || ci.Common().IsInvoke() {
						return
					}
					if (sc.Name() == "Set" || sc.Name() == "SetWithLog") && strings.HasPrefix(fnPkgPath(sc), modPath+"/pkg/ref/") && sc.Signature.Recv() != nil && fnPkgPath(sc) != fnPkgPath(fn) {
						r.bad(callKey(fn, ci), p.Rel(ci.Pos()), "concrete ref store method called directly", funcName(fn)+" calls "+funcName(sc)+" directly")
					}
				})
			}
			return nil
		},
	})
	register(&Rule{
		ID: "C10-e", Template: "T1 must-traverse",
		Doc: "Merge: in every function of cmd/wrgl that computes a merge base (ref.SeekCommonAncestor) and writes a ref, the ref write happens only after SeekCommonAncestor succeeded (weak: the fast-forward condition itself is control-dependent and not decided).",
		Min: 1,
		Run: func(p *Program, r *RuleResult) error {
			c, err := newC10(p)
			if err != nil {
				return err
			}
			sca, err := p.MustFuncs("pkg/ref.SeekCommonAncestor")
			if err != nil {
				return err
			}
			g := &guardCheck{p: p, pre: newSuccSummary(p, sca)}
			fns := p.FuncsInPkg("cmd/wrgl")
			r.Analysed = len(fns)
			for _, fn := range fns {
				if len(callsTo(fn, sca)) == 0 {
					continue
				}
				for _, s := range c.sites(fn) {
					ci, ok := s.in.(ssa.CallInstruction)
					if !ok {
						continue
					}
					what := "ref write in a merge function happens after the merge base was computed successfully"
					if ok, w := g.check(fn, ci, 0); ok {
						r.ok(s.key, p.Rel(ci.Pos()), what)
					} else {
						r.bad(s.key, p.Rel(ci.Pos()), what, w)
					}
				}
			}
			return nil
		},
	})
}

func sortedKeys(m map[string]bool) []string {
	var o []string
	for k := range m {
		o = append(o, k)
	}
	sort.Strings(o)
	return o
}
