package main

// C10: without force a ref only moves forward — T4 permit-cut.

import (
	"fmt"
	"go/token"
	"go/types"
	"regexp"
	"sort"
	"strings"

	"golang.org/x/tools/go/ssa"
)

type updateSite struct {
	in   ssa.Instruction
	key  string
	desc string
}

type c10ctx struct {
	p          *Program
	rw         *refWriteSummary
	isAnc      map[*types.Func]bool
	oldGetters map[*types.Func]bool
	forceField *types.Var
	rpu        *types.Named // cmd/wrgl.receivePackUpdate
	rpuSum     *types.Var
}

func newC10(p *Program) (*c10ctx, error) {
	c := &c10ctx{p: p}
	var err error
	if c.rw, err = newRefWriteSummary(p); err != nil {
		return nil, err
	}
	if c.isAnc, err = p.MustFuncs("pkg/ref.IsAncestorOf"); err != nil {
		return nil, err
	}
	if c.oldGetters, err = p.MustFuncs("pkg/ref.GetRef", "pkg/ref.GetHead", "pkg/ref.GetRemoteRef", "pkg/ref.GetTag"); err != nil {
		return nil, err
	}
	store, err := p.NamedType("pkg/ref.Store")
	if err != nil {
		return nil, err
	}
	if iface, ok := store.Underlying().(*types.Interface); ok {
		for i := 0; i < iface.NumMethods(); i++ {
			if iface.Method(i).Name() == "Get" {
				c.oldGetters[iface.Method(i)] = true
			}
		}
	}
	if c.forceField, err = p.Field("pkg/conf.Refspec.Force"); err != nil {
		return nil, err
	}
	if c.rpu, err = p.NamedType("cmd/wrgl.receivePackUpdate"); err != nil {
		return nil, err
	}
	if c.rpuSum, err = p.Field("cmd/wrgl.receivePackUpdate.Sum"); err != nil {
		return nil, err
	}
	return c, nil
}

var forceName = regexp.MustCompile(`(?i)force`)

// sites: ref-write calls and push-update literals in fn.
func (c *c10ctx) sites(fn *ssa.Function) []updateSite {
	var out []updateSite
	nAlloc := 0
	for _, b := range fn.Blocks {
		for _, in := range b.Instrs {
			switch x := in.(type) {
			case ssa.CallInstruction:
				if len(c.rw.sumArgs(x)) > 0 {
					out = append(out, updateSite{x, callKey(fn, x), "ref write"})
				}
			case *ssa.Alloc:
				if pt, ok := x.Type().(*types.Pointer); ok && types.Identical(pt.Elem(), c.rpu) {
					out = append(out, updateSite{x, fmt.Sprintf("%s|new(receivePackUpdate)#%d", funcName(fn), nAlloc), "push update request"})
					nAlloc++
				}
			}
		}
	}
	return out
}

type permits struct {
	ancestor, force, newRef, del, notTag []edge
}

func (c *c10ctx) permits(fn *ssa.Function) permits {
	var pm permits
	// ancestor
	var anc []ssa.Value
	var old []ssa.Value
	var tagTests []ssa.Value
	dstNames := c.dstNames(fn)
	eachCall(fn, func(ci ssa.CallInstruction) {
		call, ok := ci.(*ssa.Call)
		if !ok {
			return
		}
		f := calleeFunc(call)
		if f == nil {
			return
		}
		if c.isAnc[f] {
			for _, ref := range *call.Referrers() {
				if ex, ok := ref.(*ssa.Extract); ok && ex.Index == 0 {
					anc = append(anc, ex)
				}
			}
		}
		if c.oldGetters[f] {
			for _, ref := range *call.Referrers() {
				if ex, ok := ref.(*ssa.Extract); ok && ex.Index == 0 {
					old = append(old, ex)
				}
			}
		}
		if f.Pkg() != nil && f.Pkg().Path() == "strings" && f.Name() == "HasPrefix" && len(call.Call.Args) == 2 {
			if s, ok := constString(call.Call.Args[1]); ok && (s == "tags/" || s == "refs/tags/") {
				// the test must look at the name a site of this function writes to (the
				// resolved destination), not at the refspec's text or its source side
				for _, d := range dstNames {
					if sameName(call.Call.Args[0], d) {
						tagTests = append(tagTests, call)
						break
					}
				}
			}
		}
	})
	pm.ancestor = boolEdges(fn, forward(anc, fwdOpts{noBinOp: true}), true)
	pm.notTag = boolEdges(fn, forward(tagTests, fwdOpts{noBinOp: true}), false)
	// force: loads of Refspec.Force and bool params named *force*
	var force []ssa.Value
	for _, par := range fn.Params {
		if b, ok := par.Type().Underlying().(*types.Basic); ok && b.Kind() == types.Bool && forceName.MatchString(par.Name()) {
			force = append(force, par)
		}
	}
	for _, fv := range fn.FreeVars {
		if forceName.MatchString(fv.Name()) {
			force = append(force, fv)
		}
	}
	for _, b := range fn.Blocks {
		for _, in := range b.Instrs {
			switch x := in.(type) {
			case *ssa.FieldAddr:
				if structField(x.X.Type(), x.Field) == c.forceField {
					for _, ref := range *x.Referrers() {
						if u, ok := ref.(*ssa.UnOp); ok {
							force = append(force, u)
						}
					}
				}
			case *ssa.Field:
				if structField(x.X.Type(), x.Field) == c.forceField {
					force = append(force, x)
				}
			case *ssa.Lookup:
				// oldSum := localRefs[dst]  (absent key → nil)
				if !x.CommaOk {
					if mt, ok := x.X.Type().Underlying().(*types.Map); ok {
						if sl, ok := mt.Elem().Underlying().(*types.Slice); ok && isByte(sl.Elem()) {
							old = append(old, x)
						}
					}
				}
				// v, ok := remoteRefs[dst]
				if x.CommaOk {
					if mt, ok := x.X.Type().Underlying().(*types.Map); ok {
						if sl, ok := mt.Elem().Underlying().(*types.Slice); ok && isByte(sl.Elem()) {
							var okv, val []ssa.Value
							for _, ref := range *x.Referrers() {
								if ex, ok := ref.(*ssa.Extract); ok {
									if ex.Index == 1 {
										okv = append(okv, ex)
									} else {
										val = append(val, ex)
									}
								}
							}
							pm.newRef = append(pm.newRef, boolEdges(fn, forward(okv, fwdOpts{noBinOp: true}), false)...)
							old = append(old, val...)
						}
					}
				}
			}
		}
	}
	// A force permit is a test of the force flag itself: the bool parameter, a load of
	// Refspec.Force, or the short-circuit φ of exactly those (forced := force || r.Force).
	// A value that carries a force flag over from a previous loop iteration
	// (force = force || r.Force) is not this refspec's flag.
	direct := map[ssa.Value]bool{}
	for _, v := range force {
		direct[v] = true
	}
	memo := map[ssa.Value]int{}
	var isForce func(v ssa.Value, depth int) bool
	isForce = func(v ssa.Value, depth int) bool {
		if direct[v] {
			return true
		}
		if depth > 6 {
			return false
		}
		switch memo[v] {
		case 1:
			return true
		case 2, 3:
			return false
		}
		memo[v] = 3
		ok := false
		if ph, isPhi := v.(*ssa.Phi); isPhi {
			ok = true
			nonConst := 0
			for k, e := range ph.Edges {
				if cst, isC := e.(*ssa.Const); isC {
					if cst.Value != nil && cst.Value.String() == "true" {
						// the constant-true edge must be taken on the true edge of a force test
						pred := ph.Block().Preds[k]
						okEdge := false
						if len(pred.Instrs) > 0 {
							if ifi, isIf := pred.Instrs[len(pred.Instrs)-1].(*ssa.If); isIf && pred.Succs[0] == ph.Block() && isForce(ifi.Cond, depth+1) {
								okEdge = true
							}
						}
						if !okEdge {
							ok = false
						}
					}
					continue
				}
				nonConst++
				if !isForce(e, depth+1) {
					ok = false
				}
			}
			if nonConst == 0 {
				ok = false
			}
		}
		if ok {
			memo[v] = 1
		} else {
			memo[v] = 2
		}
		return ok
	}
	fset := map[ssa.Value]bool{}
	for _, b := range fn.Blocks {
		if len(b.Instrs) == 0 {
			continue
		}
		if ifi, ok := b.Instrs[len(b.Instrs)-1].(*ssa.If); ok {
			cond := ifi.Cond
			for {
				if u, ok := cond.(*ssa.UnOp); ok && u.Op == token.NOT {
					cond = u.X
					continue
				}
				break
			}
			if isForce(cond, 0) {
				fset[cond] = true
			}
		}
	}
	pm.force = boolEdges(fn, fset, true)
	// new ref: old value == nil
	oldSet := forward(old, fwdOpts{noBinOp: true})
	pm.newRef = append(pm.newRef, nilEdges(fn, oldSet)...)
	// delete (push): the new value is nil
	var newVals []ssa.Value
	for _, b := range fn.Blocks {
		for _, in := range b.Instrs {
			if st, ok := in.(*ssa.Store); ok {
				if fa, ok := st.Addr.(*ssa.FieldAddr); ok && structField(fa.X.Type(), fa.Field) == c.rpuSum {
					newVals = append(newVals, st.Val)
				}
			}
		}
	}
	if len(newVals) > 0 {
		ns := map[ssa.Value]bool{}
		for _, v := range newVals {
			ns[v] = true
		}
		pm.del = nilEdges(fn, ns)
	}
	return pm
}

// dstNames: the ref names the update sites of fn write to — the first string
// argument of a ref-write call, the value stored into receivePackUpdate.Dst.
func (c *c10ctx) dstNames(fn *ssa.Function) []ssa.Value {
	var out []ssa.Value
	for _, s := range c.sites(fn) {
		switch x := s.in.(type) {
		case ssa.CallInstruction:
			for _, a := range x.Common().Args {
				if b, ok := a.Type().Underlying().(*types.Basic); ok && b.Kind() == types.String {
					out = append(out, a)
					break
				}
			}
		case *ssa.Alloc:
			for _, ref := range *x.Referrers() {
				if fa, ok := ref.(*ssa.FieldAddr); ok {
					if f := structField(fa.X.Type(), fa.Field); f != nil && f.Name() == "Dst" {
						for _, r2 := range *fa.Referrers() {
							if st, ok := r2.(*ssa.Store); ok {
								out = append(out, st.Val)
							}
						}
					}
				}
			}
		}
	}
	return out
}

// sameName: the two values denote the same name — the same SSA value, or two calls
// of the same accessor on the same receiver (r.Dst() … r.Dst()).
func sameName(a, b ssa.Value) bool {
	if a == b {
		return true
	}
	ca, ok1 := a.(*ssa.Call)
	cb, ok2 := b.(*ssa.Call)
	if !ok1 || !ok2 {
		return false
	}
	fa, fb := ca.Call.StaticCallee(), cb.Call.StaticCallee()
	if fa == nil || fa != fb || len(ca.Call.Args) != len(cb.Call.Args) || len(ca.Call.Args) != 1 {
		return false
	}
	return ca.Call.Args[0] == cb.Call.Args[0]
}

func isByte(t types.Type) bool {
	b, ok := t.Underlying().(*types.Basic)
	return ok && (b.Kind() == types.Byte || b.Kind() == types.Uint8)
}

func nilEdges(fn *ssa.Function, vals map[ssa.Value]bool) []edge {
	var out []edge
	for _, b := range fn.Blocks {
		if len(b.Instrs) == 0 {
			continue
		}
		if ifi, ok := b.Instrs[len(b.Instrs)-1].(*ssa.If); ok {
			if s, ok := nilTestEdge(ifi, vals); ok {
				out = append(out, edge{b, s})
			}
		}
	}
	return out
}

// scope: functions of cmd/wrgl/fetch with ref-write sites, and functions of
// cmd/wrgl that build push updates.
func (c *c10ctx) scope() []*ssa.Function {
	var out []*ssa.Function
	for _, fn := range c.p.FuncsInPkg("cmd/wrgl/fetch", "cmd/wrgl") {
		ss := c.sites(fn)
		if len(ss) == 0 {
			continue
		}
		if fnPkgPath(fn) == modPath+"/cmd/wrgl/fetch" {
			out = append(out, fn)
			continue
		}
		pushes := false
		for _, s := range ss {
			if _, ok := s.in.(*ssa.Alloc); ok {
				pushes = true
				break
			}
		}
		// pull writes a branch directly only on its create path
		if pushes || funcName(fn) == "cmd/wrgl.pullSingleRepo" {
			out = append(out, fn)
		}
	}
	return out
}

func init() {
	register(&Rule{
		ID: "C10-a", Template: "T4 permit-cut",
		Doc: "In fetch (every function of cmd/wrgl/fetch that writes refs), push (every function of cmd/wrgl that builds receivePackUpdate requests) and pull (pullSingleRepo, which writes a branch directly only to create it), each update site is unreachable once these permit edges are removed: IsAncestorOf()==true, force flag / Refspec.Force true, previous value absent (nil / not in the remote ref map), new value nil (push delete). A site reachable with no permit is a non-forced, non-fast-forward update for some history.",
		Min: 9,
		Run: func(p *Program, r *RuleResult) error {
			c, err := newC10(p)
			if err != nil {
				return err
			}
			if _, err := p.Func("cmd/wrgl.pullSingleRepo"); err != nil {
				return err
			}
			fns := c.scope()
			r.Analysed = len(fns)
			for _, fn := range fns {
				pm := c.permits(fn)
				cut := mkCut(pm.ancestor, pm.force, pm.newRef, pm.del)
				r.note("%s: permits ancestor=%d force=%d new-ref=%d delete=%d", funcName(fn), len(pm.ancestor), len(pm.force), len(pm.newRef), len(pm.del))
				for _, s := range c.sites(fn) {
					what := s.desc + " requires fast-forward, force, new ref or delete"
					if path, reach := reachAfter(fn, nil, s.in, cut, nil); reach {
						r.bad(s.key, p.Rel(s.in.Pos()), what, fmtPath("site reachable from the function entry without any permit edge", path))
					} else {
						r.ok(s.key, p.Rel(s.in.Pos()), what)
					}
				}
			}
			return nil
		},
	})
	register(&Rule{
		ID: "C10-b", Template: "T4 permit-cut (tag clause)",
		Doc: "An existing tag is never overwritten without force: on paths that stay on the 'destination is a tag' side of every strings.HasPrefix(dst, \"tags/\") test, each update site needs a force / new-ref / delete permit — the ancestor permit is not enough.",
		Min: 9,
		Run: func(p *Program, r *RuleResult) error {
			c, err := newC10(p)
			if err != nil {
				return err
			}
			fns := c.scope()
			r.Analysed = len(fns)
			for _, fn := range fns {
				pm := c.permits(fn)
				cut := mkCut(pm.force, pm.newRef, pm.del, pm.notTag)
				r.note("%s: not-tag edges=%d", funcName(fn), len(pm.notTag))
				for _, s := range c.sites(fn) {
					what := s.desc + " on an existing tag requires force"
					if path, reach := reachAfter(fn, nil, s.in, cut, nil); reach {
						r.bad(s.key, p.Rel(s.in.Pos()), what, fmtPath("site reachable for a tag destination with a previous value and no force permit", path))
					} else {
						r.ok(s.key, p.Rel(s.in.Pos()), what)
					}
				}
			}
			return nil
		},
	})
	register(&Rule{
		ID: "C10-c", Template: "T3 who-may-call",
		Doc: "Every ref update is logged: the unlogged ref.Store.Set is invoked only by ref.SaveTag and ref.SaveTransactionRef; SetWithLog only by ref.SaveRef. Heads and remote-tracking refs therefore change only through the logging API.",
		Min: 3,
		Run: func(p *Program, r *RuleResult) error {
			rw, err := newRefWriteSummary(p)
			if err != nil {
				return err
			}
			allowed := map[string]string{
				"pkg/ref.SaveTag":            "Set",
				"pkg/ref.SaveTransactionRef": "Set",
				"pkg/ref.SaveRef":            "SetWithLog",
			}
			for a := range allowed {
				if _, err := p.Func(a); err != nil {
					return err
				}
			}
			fns := p.ProdFuncs()
			r.Analysed = len(fns)
			for _, fn := range fns {
				eachCall(fn, func(ci ssa.CallInstruction) {
					cc := ci.Common()
					if !cc.IsInvoke() || !rw.set[cc.Method] {
						return
					}
					what := "ref.Store." + cc.Method.Name() + " may be invoked only by the pkg/ref API that owns it"
					if allowed[funcName(fn)] == cc.Method.Name() {
						r.ok(callKey(fn, ci), p.Rel(ci.Pos()), what)
					} else {
						r.bad(callKey(fn, ci), p.Rel(ci.Pos()), what, funcName(fn)+" writes a ref through the raw store interface, bypassing the reflog / ref-kind discipline")
					}
				})
			}
			// concrete store methods called directly (not via the interface)
			for _, fn := range fns {
				eachCall(fn, func(ci ssa.CallInstruction) {
					sc := ci.Common().StaticCallee()
					if sc == nil || ci.Common().IsInvoke() {
						return
					}
					if (sc.Name() == "Set" || sc.Name() == "SetWithLog") && strings.HasPrefix(fnPkgPath(sc), modPath+"/pkg/ref/") && sc.Signature.Recv() != nil && fnPkgPath(sc) != fnPkgPath(fn) {
						r.bad(callKey(fn, ci), p.Rel(ci.Pos()), "concrete ref store method called directly", funcName(fn)+" calls "+funcName(sc)+" directly")
					}
				})
			}
			return nil
		},
	})
	register(&Rule{
		ID: "C10-e", Template: "T1 must-traverse",
		Doc: "Merge: in every function of cmd/wrgl that computes a merge base (ref.SeekCommonAncestor) and writes a ref, the ref write happens only after SeekCommonAncestor succeeded (weak: the fast-forward condition itself is control-dependent and not decided).",
		Min: 1,
		Run: func(p *Program, r *RuleResult) error {
			c, err := newC10(p)
			if err != nil {
				return err
			}
			sca, err := p.MustFuncs("pkg/ref.SeekCommonAncestor")
			if err != nil {
				return err
			}
			g := &guardCheck{p: p, pre: newSuccSummary(p, sca)}
			fns := p.FuncsInPkg("cmd/wrgl")
			r.Analysed = len(fns)
			for _, fn := range fns {
				if len(callsTo(fn, sca)) == 0 {
					continue
				}
				for _, s := range c.sites(fn) {
					ci, ok := s.in.(ssa.CallInstruction)
					if !ok {
						continue
					}
					what := "ref write in a merge function happens after the merge base was computed successfully"
					if ok, w := g.check(fn, ci, 0); ok {
						r.ok(s.key, p.Rel(ci.Pos()), what)
					} else {
						r.bad(s.key, p.Rel(ci.Pos()), what, w)
					}
				}
			}
			return nil
		},
	})
}

func sortedKeys(m map[string]bool) []string {
	var o []string
	for k := range m {
		o = append(o, k)
	}
	sort.Strings(o)
	return o
}

func init() {
	register(&Rule{
		ID: "C10-f", Template: "origin + permit-cut (fast-forward target)",
		Doc: "A fast-forward merge moves the branch exactly to the one input that is not the merge base: in every function of cmd/wrgl that computes a merge base (ref.SeekCommonAncestor) and writes a ref directly, the written sum is an element of a list filled only under the 'differs from the base' edge of bytes.Equal(x, base), and the write is reachable only through the `len(list) == 1` edge.",
		Min: 1,
		Run: func(p *Program, r *RuleResult) error {
			c, err := newC10(p)
			if err != nil {
				return err
			}
			sca, err := p.MustFuncs("pkg/ref.SeekCommonAncestor")
			if err != nil {
				return err
			}
			fns := p.FuncsInPkg("cmd/wrgl")
			r.Analysed = len(fns)
			for _, fn := range fns {
				filtered, oneEdges, ok := ffContext(fn, sca)
				if !ok {
					continue
				}
				for _, s := range c.sites(fn) {
					ci, ok := s.in.(ssa.CallInstruction)
					if !ok {
						continue
					}
					what := "fast-forward writes exactly the one input that differs from the merge base"
					key := s.key + "|ff-target"
					okOrigin := false
					for _, ai := range c.rw.sumArgs(ci) {
						arg := ci.Common().Args[ai]
						for x := range backward(arg, nil) {
							if ia, isIA := x.(*ssa.IndexAddr); isIA && filtered[ia.X] {
								okOrigin = true
							}
						}
					}
					if !okOrigin {
						r.bad(key, p.Rel(ci.Pos()), what, "the written sum is not an element of the list of inputs that differ from the merge base")
						continue
					}
					if path, reach := reachAfter(fn, nil, ci, mkCut(oneEdges), nil); reach {
						r.bad(key, p.Rel(ci.Pos()), what, fmtPath("the ref write is reachable without the `len(non-base inputs) == 1` edge", path))
						continue
					}
					r.ok(key, p.Rel(ci.Pos()), what)
				}
			}
			return nil
		},
	})
}

// ffContext: in a function that computes a merge base, the list(s) filled only under
// the 'differs from the base' edge and the `len(list) == 1` edges.
func ffContext(fn *ssa.Function, sca map[*types.Func]bool) (filtered map[ssa.Value]bool, oneEdges []edge, ok bool) {
	var baseSeeds []ssa.Value
	for _, ci := range callsTo(fn, sca) {
		if call, ok := ci.(*ssa.Call); ok {
			for _, ref := range *call.Referrers() {
				if ex, ok := ref.(*ssa.Extract); ok && ex.Index == 0 {
					baseSeeds = append(baseSeeds, ex)
				}
			}
		}
	}
	if len(baseSeeds) == 0 {
		return nil, nil, false
	}
	base := forward(baseSeeds, fwdOpts{noBinOp: true})
	// not-equal-to-base edges
	var eqCalls []ssa.Value
	eachCall(fn, func(ci ssa.CallInstruction) {
		f := calleeFunc(ci)
		if f == nil || f.Pkg() == nil || f.Pkg().Path() != "bytes" || f.Name() != "Equal" {
			return
		}
		a := ci.Common().Args
		if len(a) == 2 && (base[a[0]] || base[a[1]]) {
			if v, ok := ci.(*ssa.Call); ok {
				eqCalls = append(eqCalls, v)
			}
		}
	})
	neqCut := mkCut(boolEdges(fn, forward(eqCalls, fwdOpts{noBinOp: true}), false))
	// appends that only happen on a not-equal edge
	var filteredSeeds []ssa.Value
	for _, b := range fn.Blocks {
		for _, in := range b.Instrs {
			call, ok := in.(*ssa.Call)
			if !ok {
				continue
			}
			if bi, ok := call.Call.Value.(*ssa.Builtin); !ok || bi.Name() != "append" {
				continue
			}
			if len(neqCut) == 0 {
				continue
			}
			if _, reach := reachAfter(fn, nil, call, neqCut, nil); !reach {
				filteredSeeds = append(filteredSeeds, call)
			}
		}
	}
	filtered = forward(filteredSeeds, fwdOpts{noBinOp: true})
	// a φ that also merges an unfiltered slice is not a filtered list
	for v := range filtered {
		if ph, ok := v.(*ssa.Phi); ok {
			for _, e := range ph.Edges {
				if !filtered[e] {
					if mk, isMk := e.(*ssa.MakeSlice); isMk {
						_ = mk // the empty initial list
						continue
					}
					if sl, isSl := e.(*ssa.Slice); isSl {
						if _, isAlloc := sl.X.(*ssa.Alloc); isAlloc {
							continue // empty composite literal [][]byte{}
						}
					}
					delete(filtered, v)
				}
			}
		}
	}
	// len(list) == 1 edges

	for _, b := range fn.Blocks {
		if len(b.Instrs) == 0 {
			continue
		}
		ifi, ok := b.Instrs[len(b.Instrs)-1].(*ssa.If)
		if !ok {
			continue
		}
		bo, ok := ifi.Cond.(*ssa.BinOp)
		if !ok || bo.Op != token.EQL {
			continue
		}
		for _, pair := range [][2]ssa.Value{{bo.X, bo.Y}, {bo.Y, bo.X}} {
			if x, isLen := lenOperand(pair[0]); isLen && filtered[x] {
				if k, isC := constInt(pair[1]); isC && k == 1 {
					oneEdges = append(oneEdges, edge{b, 0})
				}
			}
		}
	}
	return filtered, oneEdges, true
}

func init() {
	register(&Rule{
		ID: "C10-g", Template: "T4 permit-cut (merge starts from the ref's current value)",
		Doc: "A merge moves a branch relative to its own head: in every function of cmd/wrgl that computes a merge base and writes a ref directly, the write lies behind the 'equal' edge of a bytes.Equal test between the current value of that same ref (ref.GetRef / GetHead / Store.Get on the written name) and a merge input. Without it `wrgl merge main~1 other` treats an ancestor of main as 'the branch' and fast-forwards main to a commit that does not descend from main's head.",
		Min: 1,
		Run: func(p *Program, r *RuleResult) error {
			c, err := newC10(p)
			if err != nil {
				return err
			}
			sca, err := p.MustFuncs("pkg/ref.SeekCommonAncestor")
			if err != nil {
				return err
			}
			fns := p.FuncsInPkg("cmd/wrgl")
			r.Analysed = len(fns)
			for _, fn := range fns {
				if len(callsTo(fn, sca)) == 0 {
					continue
				}
				for _, s := range c.sites(fn) {
					ci, ok := s.in.(ssa.CallInstruction)
					if !ok {
						continue
					}
					f := calleeFunc(ci)
					if f == nil || f.Name() != "SaveRef" {
						continue // wrappers that build the name themselves are out of this rule's reach
					}
					args := ci.Common().Args
					if len(args) < 3 {
						continue
					}
					name := args[1]
					key := s.key + "|from-current-head"
					what := "merge writes the branch only after checking that the merged-into commit is the branch's current head"
					// current value of the same ref
					var heads []ssa.Value
					eachCall(fn, func(g ssa.CallInstruction) {
						gf := calleeFunc(g)
						if gf == nil || !c.oldGetters[gf] {
							return
						}
						gargs := g.Common().Args
						nameArg := gargs[len(gargs)-1]
						if g.Common().IsInvoke() {
							nameArg = gargs[0]
						}
						if !sameObject(nameArg, name) {
							return
						}
						if call, ok := g.(*ssa.Call); ok {
							for _, ref := range *call.Referrers() {
								if ex, ok := ref.(*ssa.Extract); ok && ex.Index == 0 {
									heads = append(heads, ex)
								}
							}
						}
					})
					if len(heads) == 0 {
						r.bad(key, p.Rel(ci.Pos()), what, "the function never reads the current value of the ref it writes")
						continue
					}
					hset := forward(heads, fwdOpts{noBinOp: true})
					var eq []ssa.Value
					eachCall(fn, func(e ssa.CallInstruction) {
						ef := calleeFunc(e)
						if ef == nil || ef.Pkg() == nil || ef.Pkg().Path() != "bytes" || ef.Name() != "Equal" {
							return
						}
						a := e.Common().Args
						if len(a) == 2 && (hset[a[0]] || hset[a[1]]) {
							if v, ok := e.(*ssa.Call); ok {
								eq = append(eq, v)
							}
						}
					})
					cut := mkCut(boolEdges(fn, forward(eq, fwdOpts{noBinOp: true}), true))
					if len(cut) == 0 {
						r.bad(key, p.Rel(ci.Pos()), what, "the ref's current value is read but never compared with a merge input")
						continue
					}
					if path, reach := reachAfter(fn, nil, ci, cut, nil); reach {
						r.bad(key, p.Rel(ci.Pos()), what, fmtPath("the ref write is reachable without passing the 'current head equals the merged-into commit' edge", path))
					} else {
						r.ok(key, p.Rel(ci.Pos()), what)
					}
				}
			}
			return nil
		},
	})
	register(&Rule{
		ID: "C10-h", Template: "T5 error-drop (old value of a gated ref)",
		Doc: "The update gate knows the ref's real previous value: in the functions that gate ref updates (scope of C10-a) the error of the old-value getter (ref.GetRef / GetHead / …) is examined — a store failure must not make an existing ref look new, which would skip the ancestor/force/tag gate; and inside a loop that writes refs the previous value is not looked up in a listing of local refs taken before the loop.",
		Min: 1,
		Run: func(p *Program, r *RuleResult) error {
			c, err := newC10(p)
			if err != nil {
				return err
			}
			fns := c.scope()
			r.Analysed = len(fns)
			for _, fn := range fns {
				runErrorDrop(p, r, []*ssa.Function{fn}, func(f *types.Func) bool { return c.oldGetters[f] }, nil)
			}
			// the previous value of a LOCAL ref is read where it is used: a gate inside
			// a loop does not look the ref up in a listing taken before the loop
			listers, err := p.MustFuncs("pkg/ref.ListAllRefs", "pkg/ref.ListLocalRefs", "pkg/ref.ListHeads", "pkg/ref.ListTags")
			if err != nil {
				return err
			}
			// every listing of pkg/ref counts (a listing of one namespace is even less than a snapshot:
			// a destination outside it looks new), and so does a helper of the gating package that
			// builds its map from listings (round 7, C10-r7m3)
			for f := range pkgFuncsReturningError(p, "pkg/ref", "List") {
				listers[f] = true
			}
			var wraps func(g *ssa.Function, depth int) bool
			wraps = func(g *ssa.Function, depth int) bool {
				found := false
				eachCall(g, func(c ssa.CallInstruction) {
					if isCallTo(c, listers) != nil {
						found = true
					} else if sc := c.Common().StaticCallee(); sc != nil && depth > 0 && sc != g && len(sc.Blocks) > 0 && fnPkgPath(sc) == fnPkgPath(g) && wraps(sc, depth-1) {
						found = true
					}
				})
				return found
			}
			isListing := func(fn *ssa.Function, call *ssa.Call) bool {
				if isCallTo(call, listers) != nil {
					return true
				}
				sc := call.Call.StaticCallee()
				if sc == nil || len(sc.Blocks) == 0 || fnPkgPath(sc) != fnPkgPath(fn) {
					return false
				}
				res := sc.Signature.Results()
				hasMap := false
				for i := 0; i < res.Len(); i++ {
					if _, ok := res.At(i).Type().Underlying().(*types.Map); ok {
						hasMap = true
					}
				}
				return hasMap && wraps(sc, 2)
			}
			for _, fn := range fns {
				n := 0
				for _, b := range fn.Blocks {
					for _, in := range b.Instrs {
						lk, ok := in.(*ssa.Lookup)
						if !ok {
							continue
						}
						mt, ok := lk.X.Type().Underlying().(*types.Map)
						if !ok {
							continue
						}
						if sl, ok := mt.Elem().Underlying().(*types.Slice); !ok || !isByte(sl.Elem()) {
							continue
						}
						h := enclosingLoop(b)
						if h == nil {
							continue
						}
						// does the map come from a listing of local refs made outside this loop?
						var lister *ssa.Call
						for v := range backward(lk.X, nil) {
							if call, ok := v.(*ssa.Call); ok && isListing(fn, call) && !loopBody(h)[call.Block()] {
								lister = call
							}
						}
						if lister == nil {
							continue
						}
						// only lookups in a loop that also writes refs matter
						writes := false
						for _, s := range c.sites(fn) {
							if loopBody(h)[s.in.Block()] {
								writes = true
							}
						}
						if !writes {
							continue
						}
						key := fmt.Sprintf("%s|snapshot-lookup#%d", funcName(fn), n)
						n++
						r.bad(key, p.Rel(lk.Pos()), "the previous value of a local ref is read in the iteration that gates its update",
							fmt.Sprintf("the previous value is looked up in the listing taken at %s, before the loop that writes refs: a ref moved meanwhile (by this very loop for a repeated destination, or by another process) is gated against a value it no longer has", p.Rel(lister.Pos())))
					}
				}
			}
			r.Analysed = len(fns)
			return nil
		},
	})
}

func init() {
	inst := abortInstance{
		id: "C10-l", min: 2, anchor: "pkg/ref.GetRef",
		doc: "A ref whose previous value could not be read is not treated as new: in the functions that gate ref updates (scope of C10-a) a failure of the old-value getter (ref.GetRef / GetHead / GetRemoteRef …) other than ref.ErrKeyNotFound ends the operation with an error on every path — it is never answered by carrying on with a nil previous value, which is exactly the value that skips the ancestor / force / tag gate. A call whose value is discarded (an existence probe that only decides whether a name is looked at by the gated loop at all) carries no obligation.",
		scope: func(p *Program) []*ssa.Function {
			c, err := newC10(p)
			if err != nil {
				return nil
			}
			return c.scope()
		},
		callees: func(p *Program) (map[*types.Func]bool, error) {
			c, err := newC10(p)
			if err != nil {
				return nil, err
			}
			return c.oldGetters, nil
		},
		sentinels:     [][2]string{{"pkg/ref", "ErrKeyNotFound"}},
		valueUsedOnly: true,
	}
	register(&Rule{
		ID: inst.id, Template: "T5-strong (a failure aborts)", Doc: inst.doc, Min: inst.min,
		Run: func(p *Program, r *RuleResult) error { return runAbortInstance(p, r, inst) },
	})
}
